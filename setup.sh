#!/bin/bash
# Build the whole harness offline from files on disk and create the reference-solver symlinks.
set -e
HERE="$(cd "$(dirname "$0")" && pwd)"
cd "$HERE/harness"
export CARGO_NET_OFFLINE=true
cp /repo/Cargo.lock Cargo.lock
mkdir -p "$HERE/evidence" "$HERE/replays" "$HERE/scratch" "$HERE/bin/solvers"
cargo build --release --offline --workspace 2>&1 | tail -3
if [ -x target/release/refsmt ]; then
  for s in z3 cvc5 bitwuzla yices-smt2; do ln -sf "$HERE/harness/target/release/refsmt" "$HERE/bin/solvers/$s"; done
fi
# the repository's own mc tool (driven end to end by C02 / C03), dev profile, guard off
( cd /repo && RUSTFLAGS="" CARGO_TARGET_DIR="$HERE/harness/target-mc" cargo build --offline -p mc 2>&1 | tail -1 )
echo "setup done"
