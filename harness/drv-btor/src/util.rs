//! Helpers shared by the btor2 drivers: stderr gag, btor2 text builder, valuation spaces,
//! text shrinker, admissible line orders.

use crate::btorref::{self, RefFile, Sort};
use pvcore::bv::{Arr, Bv, Val};
use pvcore::terms::{Ty, all_values, bnd_core, bnd_values, product, value_alphabet};
use std::collections::BTreeMap;

/// Redirects fd 2 to /dev/null while alive (patronus' reader prints a diagnostic per rejected text).
pub struct StderrGag {
    saved: i32,
}

impl StderrGag {
    pub fn new() -> StderrGag {
        unsafe {
            let saved = libc::dup(2);
            let null = libc::open(c"/dev/null".as_ptr(), libc::O_WRONLY);
            if null >= 0 {
                libc::dup2(null, 2);
                libc::close(null);
            }
            StderrGag { saved }
        }
    }
}

impl Drop for StderrGag {
    fn drop(&mut self) {
        unsafe {
            if self.saved >= 0 {
                libc::dup2(self.saved, 2);
                libc::close(self.saved);
            }
        }
    }
}

/// machinery failure: restore stderr first (the gag may be active), then exit 2
pub fn machinery_failure(msg: &str) -> ! {
    // fd 2 may be gagged: write to stdout as well
    println!("MACHINERY FAILURE: {msg}");
    eprintln!("MACHINERY FAILURE: {msg}");
    std::process::exit(2)
}

// ------------------------------------------------------------------ text builder

#[derive(Clone, Debug, Default)]
pub struct Tb {
    pub lines: Vec<String>,
    pub next: u64,
    pub sorts: BTreeMap<Sort, u64>,
}

impl Tb {
    pub fn new() -> Tb {
        Tb { lines: vec![], next: 1, sorts: BTreeMap::new() }
    }
    pub fn sort(&mut self, s: Sort) -> u64 {
        if let Some(id) = self.sorts.get(&s) {
            return *id;
        }
        let id = match s {
            Sort::Bv(w) => {
                let id = self.fresh();
                self.lines.push(format!("{id} sort bitvec {w}"));
                id
            }
            Sort::Arr(i, d) => {
                let (a, b) = (self.sort(Sort::Bv(i)), self.sort(Sort::Bv(d)));
                let id = self.fresh();
                self.lines.push(format!("{id} sort array {a} {b}"));
                id
            }
        };
        self.sorts.insert(s, id);
        id
    }
    pub fn fresh(&mut self) -> u64 {
        let id = self.next;
        self.next += 1;
        id
    }
    /// append `<id> <body>` and return the id
    pub fn line(&mut self, body: &str) -> u64 {
        let id = self.fresh();
        self.lines.push(format!("{id} {body}"));
        id
    }
    pub fn text(&self) -> String {
        let mut s = self.lines.join("\n");
        s.push('\n');
        s
    }
}

pub fn sort_ty(s: Sort) -> Ty {
    match s {
        Sort::Bv(w) => Ty::Bv(w),
        Sort::Arr(i, d) => Ty::Arr(i, d),
    }
}

pub fn table_bits(s: Sort) -> u64 {
    match s {
        Sort::Bv(w) => w as u64,
        Sort::Arr(i, d) => {
            if i >= 16 {
                u64::MAX / 4
            } else {
                (d as u64) << i
            }
        }
    }
}

/// every value of a sort (arrays: one canonical representation per content)
pub fn all_vals(s: Sort) -> Vec<Val> {
    match s {
        Sort::Bv(w) => all_values(w).into_iter().map(Val::B).collect(),
        Sort::Arr(iw, dw) => {
            let n = 1usize << iw;
            let dv = all_values(dw);
            let alph: Vec<Vec<Bv>> = (0..n).map(|_| dv.clone()).collect();
            product(&alph).into_iter().map(|t| Val::A(Arr::from_table(iw, dw, &t))).collect()
        }
    }
}

fn boundary_vals(s: Sort, core: bool) -> Vec<Val> {
    match s {
        Sort::Bv(w) if w <= 4 => all_vals(s),
        Sort::Bv(w) => (if core { bnd_core(w) } else { bnd_values(w) }).into_iter().map(Val::B).collect(),
        Sort::Arr(..) if table_bits(s) <= 4 => all_vals(s),
        Sort::Arr(..) => value_alphabet(sort_ty(s), false, core),
    }
}

pub fn default_val(s: Sort) -> Val {
    match s {
        Sort::Bv(w) => Val::B(Bv::zero(w)),
        Sort::Arr(i, d) => Val::A(Arr::constant(i, &Bv::zero(d))),
    }
}

/// The valuation space of a file: every combination of values of the symbols in `support`
/// (exhaustive when they total at most `exh_bits` bits, otherwise the full product of the boundary
/// alphabets, reduced to the core alphabets when that exceeds `cap`); other symbols are zero.
/// Returns (valuations, exhaustive, reduced).
pub fn valuations(f: &RefFile, support: &[u64], exh_bits: u64, cap: usize) -> (Vec<BTreeMap<u64, Val>>, bool, bool) {
    let syms = f.symbols();
    let sup: Vec<(u64, Sort)> = syms.iter().filter(|(id, _)| support.contains(id)).cloned().collect();
    let total: u64 = sup.iter().map(|(_, s)| table_bits(*s)).fold(0u64, |a, b| a.saturating_add(b));
    let exh = total <= exh_bits;
    let mut reduced = false;
    let mut alph: Vec<Vec<Val>> = sup.iter().map(|(_, s)| if exh { all_vals(*s) } else { boundary_vals(*s, false) }).collect();
    if !exh {
        let prod = alph.iter().map(|a| a.len()).fold(1usize, |a, b| a.saturating_mul(b));
        if prod > cap {
            alph = sup.iter().map(|(_, s)| boundary_vals(*s, true)).collect();
            reduced = true;
        }
    }
    let base: BTreeMap<u64, Val> = syms.iter().map(|(id, s)| (*id, default_val(*s))).collect();
    let out = product(&alph)
        .into_iter()
        .map(|vals| {
            let mut m = base.clone();
            for ((id, _), v) in sup.iter().zip(vals) {
                m.insert(*id, v);
            }
            m
        })
        .collect();
    (out, exh, reduced)
}

/// symbols (inputs/states) reachable from any root of the file
pub fn support_of(f: &RefFile) -> Vec<u64> {
    let mut seen: Vec<u64> = vec![];
    let mut todo: Vec<u64> = vec![];
    for s in f.states.iter() {
        if let Some((o, _)) = s.init {
            todo.push(o.id);
        }
        if let Some(o) = s.next {
            todo.push(o.id);
        }
    }
    todo.extend(f.outputs.iter().map(|o| o.0.id));
    todo.extend(f.bads.iter().map(|o| o.id));
    todo.extend(f.constraints.iter().map(|o| o.id));
    let mut out = vec![];
    while let Some(id) = todo.pop() {
        if seen.contains(&id) {
            continue;
        }
        seen.push(id);
        let n = f.node(id);
        match &n.kind {
            btorref::Kind::Input | btorref::Kind::State => out.push(id),
            btorref::Kind::Const(_) => {}
            btorref::Kind::Op { args, .. } => todo.extend(args.iter().map(|a| a.id)),
        }
    }
    out.sort();
    out
}

pub fn show_valuation(v: &BTreeMap<u64, Val>, support: &[u64]) -> String {
    v.iter().filter(|(k, _)| support.contains(k)).map(|(k, v)| format!("node{k}={}", v.show())).collect::<Vec<_>>().join(" ")
}

// ------------------------------------------------------------------ shrinking of texts

/// Greedy text minimiser: redirect references to operator results to earlier nodes (turns a
/// chain into its failing operator), delete lines, merge symbols, drop operand negations - while
/// `fails` keeps returning true. Deterministic.
pub fn shrink_text(text: &str, fails: &dyn Fn(&str) -> bool) -> String {
    fn join(ls: &[String]) -> String {
        let mut s = ls.join("\n");
        s.push('\n');
        s
    }
    /// one successful redirection, or false
    fn redirect(lines: &mut Vec<String>, phase: u32, fails: &dyn Fn(&str) -> bool) -> bool {
        let leaf_ids: Vec<String> = lines
            .iter()
            .filter_map(|l| {
                let t: Vec<&str> = l.split(' ').collect();
                if t.len() > 2 && ["input", "state", "const", "constd", "consth", "zero", "one", "ones"].contains(&t[1]) { Some(t[0].to_string()) } else { None }
            })
            .collect();
        for i in 0..lines.len() {
            let toks: Vec<String> = lines[i].split(' ').map(|t| t.to_string()).collect();
            if toks.len() < 3 || ["sort", "input", "state", "const", "constd", "consth", "zero", "one", "ones"].contains(&toks[1].as_str()) {
                continue;
            }
            let earlier: Vec<String> = lines[..i]
                .iter()
                .filter_map(|l| {
                    let t: Vec<&str> = l.split(' ').collect();
                    if t.len() > 2 && t[1] != "sort" && !["output", "bad", "constraint", "init", "next"].contains(&t[1]) { Some(t[0].to_string()) } else { None }
                })
                .collect();
            let first = if ["output", "bad", "constraint"].contains(&toks[1].as_str()) { 2 } else { 3 };
            let last = if ["init", "next"].contains(&toks[1].as_str()) {
                5
            } else if btorref::is_operator(&toks[1]) {
                3 + btorref::arity(&toks[1])
            } else {
                3
            };
            for k in first..last.min(toks.len()) {
                let (neg, id) = match toks[k].strip_prefix('-') {
                    Some(d) => ("-", d.to_string()),
                    None => ("", toks[k].clone()),
                };
                if (toks[1] == "init" || toks[1] == "next") && k == 3 {
                    continue;
                }
                if phase == 0 && leaf_ids.contains(&id) {
                    continue;
                }
                for cand in earlier.iter() {
                    if *cand == id {
                        break; // only strictly earlier nodes
                    }
                    let mut t2 = toks.clone();
                    t2[k] = format!("{neg}{cand}");
                    let mut c = lines.clone();
                    c[i] = t2.join(" ");
                    if fails(&join(&c)) {
                        *lines = c;
                        return true;
                    }
                }
            }
        }
        false
    }
    let mut lines: Vec<String> = text.lines().map(|l| l.to_string()).collect();
    let mut changed = true;
    let mut rounds = 0;
    while changed && rounds < 12 {
        changed = false;
        rounds += 1;
        // A: references to operator results -> earlier nodes
        let mut guard = 0;
        while guard < 40 && redirect(&mut lines, 0, fails) {
            changed = true;
            guard += 1;
        }
        // B: delete lines, last first
        let mut i = lines.len();
        while i > 0 {
            i -= 1;
            if lines.len() <= 1 {
                break;
            }
            let mut cand = lines.clone();
            cand.remove(i);
            if fails(&join(&cand)) {
                lines = cand;
                changed = true;
            }
        }
        // C: merge symbols only when nothing else moved
        if !changed && redirect(&mut lines, 1, fails) {
            changed = true;
        }
        // D: un-negate operands
        for i in 0..lines.len() {
            let toks: Vec<String> = lines[i].split(' ').map(|t| t.to_string()).collect();
            for k in 2..toks.len() {
                if toks[k].starts_with('-') && toks[k].len() > 1 && toks[1] != "constd" {
                    let mut t2 = toks.clone();
                    t2[k] = toks[k][1..].to_string();
                    let mut cand = lines.clone();
                    cand[i] = t2.join(" ");
                    if fails(&join(&cand)) {
                        lines = cand;
                        changed = true;
                        break;
                    }
                }
            }
        }
    }
    join(&lines)
}

// ------------------------------------------------------------------ admissible line orders

/// ids a line refers to (sorts, nodes, states), without sign
fn refs_of(line: &str) -> (Option<u64>, Vec<u64>) {
    let t: Vec<&str> = line.split([' ', '\t']).filter(|x| !x.is_empty()).collect();
    if t.len() < 2 {
        return (None, vec![]);
    }
    let id = t[0].parse::<u64>().ok();
    let num = |s: &str| s.trim_start_matches('-').parse::<u64>().ok();
    let tag = t[1];
    let mut r = vec![];
    match tag {
        "sort" => {
            if t.get(2) == Some(&"array") {
                r.extend(t.iter().skip(3).take(2).filter_map(|x| num(x)));
            }
        }
        "input" | "state" | "zero" | "one" | "ones" | "const" | "constd" | "consth" => r.extend(t.get(2).and_then(|x| num(x))),
        "output" | "bad" | "constraint" => r.extend(t.get(2).and_then(|x| num(x))),
        "init" | "next" => r.extend(t.iter().skip(2).take(3).filter_map(|x| num(x))),
        op if btorref::is_operator(op) => {
            let n = btorref::arity(op);
            r.extend(t.iter().skip(2).take(1 + n).filter_map(|x| num(x)));
        }
        _ => {}
    }
    (id, r)
}

/// All orders of the lines in which every line comes after the lines defining the ids it uses.
/// Stops after `cap` orders (returns whether complete).
pub fn admissible_orders(lines: &[String], cap: usize) -> (Vec<Vec<usize>>, bool) {
    let info: Vec<(Option<u64>, Vec<u64>)> = lines.iter().map(|l| refs_of(l)).collect();
    let def: BTreeMap<u64, usize> = info.iter().enumerate().filter_map(|(i, (id, _))| id.map(|x| (x, i))).collect();
    let deps: Vec<Vec<usize>> = info.iter().map(|(_, r)| r.iter().filter_map(|x| def.get(x).copied()).collect()).collect();
    let n = lines.len();
    let mut out = vec![];
    let mut cur: Vec<usize> = vec![];
    let mut used = vec![false; n];
    fn rec(n: usize, deps: &[Vec<usize>], cur: &mut Vec<usize>, used: &mut Vec<bool>, out: &mut Vec<Vec<usize>>, cap: usize) -> bool {
        if cur.len() == n {
            out.push(cur.clone());
            return out.len() < cap;
        }
        for i in 0..n {
            if !used[i] && deps[i].iter().all(|d| used[*d]) {
                used[i] = true;
                cur.push(i);
                let go = rec(n, deps, cur, used, out, cap);
                cur.pop();
                used[i] = false;
                if !go {
                    return false;
                }
            }
        }
        true
    }
    let complete = rec(n, &deps, &mut cur, &mut used, &mut out, cap);
    (out, complete)
}
