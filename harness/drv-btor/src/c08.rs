//! C08 — the btor2 reader gives every construct its btor2 meaning.

use crate::btorref::{self, RefErr, RefFile, Sort};
use crate::util::*;
use patronus::expr::{Context, ExprRef, TypeCheck};
use patronus::system::TransitionSystem;
use pvcore::bv::Val;
use pvcore::evalref::*;
use pvcore::run::*;
use pvcore::terms::Ty;
use rayon::prelude::*;
use serde_json::{Value, json};
use std::collections::BTreeMap;
use std::sync::atomic::{AtomicU64, Ordering};

const EXH_BITS: u64 = 10;
const VAL_CAP: usize = 20_000;
/// thorough tier: exhaustive up to 12 bits of support
static EXH_EXTRA: AtomicU64 = AtomicU64::new(0);
fn exh_bits() -> u64 {
    EXH_BITS + EXH_EXTRA.load(Ordering::Relaxed)
}

pub fn meta(rep: &mut Report) {
    rep.rule = "btor2 texts built line by line: (single) every operator x operand sorts x operand choice (input x / state y of each sort, same or different) x every subset of negated bit-vector operands; (const) constants in three bases with leading zeros, extreme values, negative constd; (attach) init/next attachment incl. bit-vector init of an array state, state initialised from an earlier state, states with only init / only next / neither; (chain) two-operator chains over bv1, bv2, array 1->2; (order) all define-before-use line orders of small files; (illsorted) every sort-id token of every base file replaced by every other declared sort id. Each text goes through patronus::btor2::parse_str; every output, bad, constraint, init and next of the result is evaluated with the reference evaluator under every valuation (exhaustive up to 10 bits of support, else product of boundary alphabets) and compared with the reference btor2 interpreter run on the text; declared sorts of inputs/states are compared by position. distinct_nontrivial = distinct texts that patronus accepted and whose roots were compared under at least one valuation.".into();
    rep.assumptions = vec![
        "btor2 semantics per Niemetz et al. 2018 (Table 1) on pvcore::bv values; array sorts bv->bv only".into(),
        "ids must be defined before use but need not increase (the repository ships such files)".into(),
        "a state with neither init nor next is expected as an input, appended after the declared inputs (documented reader behaviour)".into(),
        "constants: binary with at most w digits; decimal/hex may have leading zeros; negative constd -m with m <= 2^(w-1); anything else is outside the compared domain and only counted".into(),
        "inc, dec, rol, ror and the overflow predicates are documented as unsupported by the reader: its marker panic on them is counted, not reported".into(),
        "a panic on an ill-sorted text counts as `not accepted` here (crashes are C18's business)".into(),
    ];
}

// ------------------------------------------------------------------ one text

#[derive(Debug, Clone)]
pub enum Outcome {
    /// compared under n valuations
    Compared(u64),
    /// not compared, with the reason class
    Skipped(String),
    Fail { class: String, what: String },
}

pub fn is_marker_panic(p: &PanicInfo) -> bool {
    crate::c18::allowed_marker(&p.msg).is_some()
}

fn ty_of_sort(s: Sort) -> patronus::expr::Type {
    sort_ty(s).to_patronus()
}

fn show_opt(v: &Option<Val>) -> String {
    v.as_ref().map(|v| v.show()).unwrap_or("<none>".into())
}

/// Compare a parsed system with the reference file. Returns Err((class, what)) on a mismatch.
fn compare(ctx: &Context, sys: &TransitionSystem, f: &RefFile, text: &str) -> Result<u64, (String, String)> {
    let one_line = text.trim_end().replace('\n', " / ");
    let eff_in = f.effective_inputs();
    let eff_st = f.effective_states();
    if sys.inputs.len() != eff_in.len() || sys.states.len() != eff_st.len() {
        return Err((
            "count".into(),
            format!("`{one_line}`: expected {} inputs and {} states, the reader returned {} and {}", eff_in.len(), eff_st.len(), sys.inputs.len(), sys.states.len()),
        ));
    }
    if sys.outputs.len() != f.outputs.len() || sys.bad_states.len() != f.bads.len() || sys.constraints.len() != f.constraints.len() {
        return Err((
            "count".into(),
            format!(
                "`{one_line}`: expected {}/{}/{} outputs/bads/constraints, the reader returned {}/{}/{}",
                f.outputs.len(), f.bads.len(), f.constraints.len(), sys.outputs.len(), sys.bad_states.len(), sys.constraints.len()
            ),
        ));
    }
    // distinct declarations are distinct variables
    {
        let mut seen = std::collections::BTreeMap::new();
        for (what, e) in sys.inputs.iter().enumerate().map(|(k, e)| (format!("input #{k}"), *e)).chain(sys.states.iter().enumerate().map(|(k, s)| (format!("state #{k}"), s.symbol))) {
            if let Some(prev) = seen.insert(e, what.clone()) {
                return Err(("decl-collapsed".into(), format!("`{one_line}`: {prev} and {what} are two declarations but the reader gives them the same symbol `{}`", ctx.get_symbol_name(e).unwrap_or("?"))));
            }
        }
    }
    let mut sym_of: BTreeMap<u64, ExprRef> = BTreeMap::new();
    for (k, id) in eff_in.iter().enumerate() {
        let want = ty_of_sort(f.sort_of(*id));
        let got = sys.inputs[k].get_type(ctx);
        if !ctx[sys.inputs[k]].is_symbol() || got != want {
            return Err(("decl-sort".into(), format!("`{one_line}`: input #{k} (node {id}) is declared {want} but the reader gives it type {got}")));
        }
        sym_of.insert(*id, sys.inputs[k]);
    }
    for (k, st) in eff_st.iter().enumerate() {
        let want = ty_of_sort(st.sort);
        let got = sys.states[k].symbol.get_type(ctx);
        if !ctx[sys.states[k].symbol].is_symbol() || got != want {
            return Err(("decl-sort".into(), format!("`{one_line}`: state #{k} (node {}) is declared {want} but the reader gives it type {got}", st.id)));
        }
        if sys.states[k].init.is_some() != st.init.is_some() || sys.states[k].next.is_some() != st.next.is_some() {
            return Err((
                "attach".into(),
                format!(
                    "`{one_line}`: state #{k} (node {}) has init:{} next:{} in the text but init:{} next:{} in the parsed system",
                    st.id, st.init.is_some(), st.next.is_some(), sys.states[k].init.is_some(), sys.states[k].next.is_some()
                ),
            ));
        }
        sym_of.insert(st.id, sys.states[k].symbol);
    }
    // roots of the parsed system with their expected types
    let mut roots: Vec<(String, ExprRef, patronus::expr::Type)> = vec![];
    for (k, st) in eff_st.iter().enumerate() {
        if let Some(e) = sys.states[k].init {
            roots.push((format!("init of state #{k}"), e, ty_of_sort(st.sort)));
        }
        if let Some(e) = sys.states[k].next {
            roots.push((format!("next of state #{k}"), e, ty_of_sort(st.sort)));
        }
    }
    for (k, o) in sys.outputs.iter().enumerate() {
        roots.push((format!("output #{k}"), o.expr, ty_of_sort(f.sort_of(f.outputs[k].0.id))));
    }
    for (k, e) in sys.bad_states.iter().enumerate() {
        roots.push((format!("bad #{k}"), *e, patronus::expr::Type::BV(1)));
    }
    for (k, e) in sys.constraints.iter().enumerate() {
        roots.push((format!("constraint #{k}"), *e, patronus::expr::Type::BV(1)));
    }
    for (what, e, want) in roots.iter() {
        match type_ref(ctx, *e) {
            Err(m) => return Err(("illtyped".into(), format!("`{one_line}`: {what} is ill-typed: {m}"))),
            Ok(t) if t != *want => return Err(("root-type".into(), format!("`{one_line}`: {what} has type {t}, the text gives it {want}"))),
            _ => {}
        }
    }
    let support = support_of(f);
    let (vals, _exh, _red) = valuations(f, &support, exh_bits(), VAL_CAP);
    let mut n = 0u64;
    for v in vals.iter() {
        let ev = btorref::eval_all(f, v);
        let mut env = Env::default();
        for (id, e) in sym_of.iter() {
            env.insert(*e, v[id].clone());
        }
        let mut memo = rustc_hash::FxHashMap::default();
        let mut expect: Vec<Option<Val>> = vec![];
        for st in eff_st.iter() {
            if st.init.is_some() {
                expect.push(ev.init_value(st));
            }
            if st.next.is_some() {
                expect.push(ev.next_value(st));
            }
        }
        expect.extend(f.outputs.iter().map(|o| Some(ev.opnd(o.0))));
        expect.extend(f.bads.iter().map(|o| Some(ev.opnd(*o))));
        expect.extend(f.constraints.iter().map(|o| Some(ev.opnd(*o))));
        assert_eq!(expect.len(), roots.len());
        for ((what, e, _), want) in roots.iter().zip(expect.iter()) {
            let got = match catch(|| eval_ref_memo(ctx, *e, &env, &mut memo)) {
                Ok(g) => g,
                Err(p) => return Err(("eval".into(), format!("`{one_line}`: {what} cannot be evaluated over the declared inputs/states: {}", p.msg))),
            };
            if Some(&got) != want.as_ref() {
                return Err((
                    "value".into(),
                    format!("`{one_line}`: {what} evaluates to {} but btor2 semantics gives {} with {}", got.show(), show_opt(want), show_valuation(v, &support)),
                ));
            }
            n += 1;
        }
    }
    Ok(n)
}

pub fn check_text(text: &str) -> Outcome {
    let r = btorref::parse(text);
    let mut ctx = Context::default();
    let s = catch(|| patronus::btor2::parse_str(&mut ctx, text, Some("c08")));
    let one_line = text.trim_end().replace('\n', " / ");
    match (r, s) {
        (Ok(f), Ok(Some(sys))) => match compare(&ctx, &sys, &f, text) {
            Ok(n) => Outcome::Compared(n),
            Err((class, what)) => Outcome::Fail { class, what },
        },
        (Ok(f), Ok(None)) => {
            if !f.unsupported_ops.is_empty() {
                Outcome::Skipped("unsupported-op-rejected".into())
            } else {
                Outcome::Fail { class: "rejected-wellformed".into(), what: format!("`{one_line}` is well-formed btor2 but the reader rejects it") }
            }
        }
        (Ok(f), Err(p)) => {
            if !f.unsupported_ops.is_empty() && is_marker_panic(&p) {
                Outcome::Skipped("unsupported-op-marker".into())
            } else {
                Outcome::Fail {
                    class: format!("panic|{}", p.file()),
                    what: format!("`{one_line}` is well-formed btor2 but the reader panics: {} ({})", p.msg, p.short_loc()),
                }
            }
        }
        (Err(RefErr::IllSorted(m)), Ok(Some(_))) => Outcome::Fail { class: "accepted-illsorted".into(), what: format!("`{one_line}` is ill-sorted ({m}) but the reader accepts it") },
        (Err(RefErr::IllSorted(_)), Ok(None)) => Outcome::Skipped("illsorted-rejected".into()),
        (Err(RefErr::IllSorted(_)), Err(p)) if is_marker_panic(&p) => Outcome::Skipped("illsorted-unsupported-op-marker".into()),
        (Err(RefErr::IllSorted(m)), Err(p)) => Outcome::Fail { class: format!("panic-illsorted|{}", p.file()), what: format!("`{one_line}` is ill-sorted ({m}); the reader panics instead of rejecting it: {} ({})", p.msg, p.short_loc()) },
        (Err(e), Ok(Some(_))) => Outcome::Skipped(format!("outside-domain-{}-accepted", e.class())),
        (Err(e), Ok(None)) => Outcome::Skipped(format!("outside-domain-{}-rejected", e.class())),
        (Err(e), Err(_)) => Outcome::Skipped(format!("outside-domain-{}-panicked", e.class())),
    }
}

// ------------------------------------------------------------------ signatures

/// (operator tags, operand kinds, max width, negated operand positions) of a text
fn text_shape(text: &str) -> (String, String, u32, String) {
    let mut ops = vec![];
    let mut kinds = vec![];
    let mut negs = vec![];
    let mut maxw = 1;
    let mut sorts: BTreeMap<u64, Sort> = BTreeMap::new();
    let mut node_sort: BTreeMap<u64, Sort> = BTreeMap::new();
    for l in text.lines() {
        let t: Vec<&str> = l.split(' ').filter(|x| !x.is_empty()).collect();
        if t.len() < 3 {
            continue;
        }
        let id = t[0].parse::<u64>().unwrap_or(0);
        let num = |s: &str| s.trim_start_matches('-').parse::<u64>().ok();
        match t[1] {
            "sort" => {
                if t[2] == "bitvec" {
                    if let Some(w) = t.get(3).and_then(|x| x.parse::<u32>().ok()) {
                        sorts.insert(id, Sort::Bv(w));
                    }
                } else if let (Some(Some(Sort::Bv(a))), Some(Some(Sort::Bv(b)))) = (t.get(3).map(|x| num(x).and_then(|i| sorts.get(&i).copied())), t.get(4).map(|x| num(x).and_then(|i| sorts.get(&i).copied()))) {
                    sorts.insert(id, Sort::Arr(a, b));
                }
            }
            "output" | "bad" | "constraint" => {
                if t[2].starts_with('-') {
                    negs.push(format!("{}-neg", t[1]));
                }
            }
            tag => {
                let s = num(t[2]).and_then(|i| sorts.get(&i).copied());
                if let Some(s) = s {
                    node_sort.insert(id, s);
                    if let Sort::Bv(w) = s {
                        maxw = maxw.max(w);
                    }
                }
                if btorref::is_operator(tag) || tag == "init" || tag == "next" {
                    let n = if tag == "init" || tag == "next" { 2 } else { btorref::arity(tag) };
                    let mut ks = vec![];
                    for k in 0..n {
                        if let Some(tok) = t.get(3 + k) {
                            if tok.starts_with('-') {
                                negs.push(format!("{tag}.{k}"));
                            }
                            match num(tok).and_then(|i| node_sort.get(&i).copied()) {
                                Some(Sort::Bv(w)) => {
                                    maxw = maxw.max(w);
                                    ks.push("bv")
                                }
                                Some(Sort::Arr(..)) => ks.push("arr"),
                                None => ks.push("?"),
                            }
                        }
                    }
                    if btorref::is_operator(tag) {
                        ops.push(tag.to_string());
                        kinds.push(ks.join(","));
                    } else if s.map(|s| matches!(s, Sort::Arr(..))).unwrap_or(false) && ks.get(1) == Some(&"bv") {
                        ops.push(format!("{tag}-lift"));
                    }
                } else if tag.starts_with("const") || ["zero", "one", "ones"].contains(&tag) {
                    ops.push(tag.to_string());
                }
            }
        }
    }
    ops.dedup();
    (ops.join("+"), kinds.join(";"), maxw, negs.join(","))
}

fn class_of(o: &Outcome) -> Option<String> {
    match o {
        Outcome::Fail { class, .. } => Some(class.clone()),
        _ => None,
    }
}

fn report(text: &str, stage: &str, order: u64, rep: &Report) {
    let first = check_text(text);
    let Some(class) = class_of(&first) else { return };
    let min = shrink_text(text, &|t| class_of(&check_text(t)).as_deref() == Some(class.as_str()));
    let what = match check_text(&min) {
        Outcome::Fail { what, .. } => what,
        _ => match first {
            Outcome::Fail { what, .. } => what,
            _ => unreachable!(),
        },
    };
    let (ops, kinds, w, negs) = text_shape(&min);
    // value mismatches: which kind of root differs is part of the signature
    // which root differs is arbitrary after shrinking, except for init (array lifting)
    let root = if what.contains(": init ") { "init" } else { "" };
    let sig = format!("C08|{class}|{ops}|{kinds}|{}|{negs}|{root}", wclass(w));
    rep.violation(Violation { sig, what, case: json!({"text": min, "found_in": text, "stage": stage}), order });
}

// ------------------------------------------------------------------ generators

fn bvs(ws: &[u32]) -> Vec<Sort> {
    ws.iter().map(|w| Sort::Bv(*w)).collect()
}

pub const ARRS: [Sort; 3] = [Sort::Arr(1, 1), Sort::Arr(1, 2), Sort::Arr(2, 2)];

/// operator instances: (tag, operand sorts, params, result sort)
pub fn instances(widths: &[u32], cmp_widths: &[u32], arrays: &[Sort], ext_by: &[u32]) -> Vec<(String, Vec<Sort>, Vec<u32>, Sort)> {
    let mut out: Vec<(String, Vec<Sort>, Vec<u32>, Sort)> = vec![];
    let b = Sort::Bv;
    for &w in widths {
        for op in ["not", "inc", "dec", "neg"] {
            out.push((op.into(), vec![b(w)], vec![], b(w)));
        }
        for op in ["redand", "redor", "redxor"] {
            out.push((op.into(), vec![b(w)], vec![], b(1)));
        }
        // slices: all at w <= 8, else boundary cuts
        let cuts: Vec<(u32, u32)> = if w <= 8 {
            (0..w).flat_map(|u| (0..=u).map(move |l| (u, l))).collect()
        } else {
            let mut c = vec![(w - 1, 0), (0, 0), (w - 1, w - 1), (w - 2, 1), (w / 2, w / 2), (w - 1, 1), (w - 2, 0)];
            for x in [31u32, 32, 63, 64] {
                if x < w {
                    c.push((x, 0));
                    c.push((w - 1, x));
                    c.push((x, x));
                }
            }
            c.sort();
            c.dedup();
            c
        };
        for (u, l) in cuts {
            out.push(("slice".into(), vec![b(w)], vec![u, l], b(u - l + 1)));
        }
        for op in ["uext", "sext"] {
            for &by in ext_by {
                out.push((op.into(), vec![b(w)], vec![by], b(w + by)));
            }
        }
        for op in btorref::SAME_BIN {
            out.push((op.into(), vec![b(w), b(w)], vec![], b(w)));
        }
        for op in btorref::OVF {
            out.push((op.into(), vec![b(w), b(w)], vec![], b(1)));
        }
        out.push(("ite".into(), vec![b(1), b(w), b(w)], vec![], b(w)));
    }
    for op in btorref::BOOL_BIN {
        out.push((op.into(), vec![b(1), b(1)], vec![], b(1)));
    }
    let mut cw: Vec<u32> = widths.to_vec();
    cw.extend_from_slice(cmp_widths);
    cw.sort();
    cw.dedup();
    for &w in cw.iter() {
        for op in btorref::EQ_OPS.iter().chain(btorref::CMP.iter()) {
            out.push((op.to_string(), vec![b(w), b(w)], vec![], b(1)));
        }
    }
    for &n in widths {
        for &m in widths {
            out.push(("concat".into(), vec![b(n), b(m)], vec![], b(n + m)));
        }
    }
    for &a in arrays {
        let Sort::Arr(iw, dw) = a else { unreachable!() };
        out.push(("read".into(), vec![a, b(iw)], vec![], b(dw)));
        out.push(("write".into(), vec![a, b(iw), b(dw)], vec![], a));
        out.push(("ite".into(), vec![b(1), a, a], vec![], a));
        out.push(("eq".into(), vec![a, a], vec![], b(1)));
        out.push(("neq".into(), vec![a, a], vec![], b(1)));
    }
    out
}

/// One single-operator file. `choice[k]` picks symbol x (input) or y (state) of operand k's sort,
/// `neg` is a bit mask of negated operands, `named` adds symbols to the lines.
pub fn single_file(inst: &(String, Vec<Sort>, Vec<u32>, Sort), choice: &[bool], neg: u32, named: bool) -> String {
    let (op, asorts, params, res) = inst;
    let mut tb = Tb::new();
    tb.sort(Sort::Bv(1));
    for s in asorts.iter() {
        tb.sort(*s);
    }
    let rs = tb.sort(*res);
    if tb.sorts.len() < 2 {
        tb.sort(Sort::Bv(2));
    }
    // symbols: x input, y state for every distinct operand sort
    let mut sym: BTreeMap<Sort, (u64, u64)> = BTreeMap::new();
    for s in asorts.iter() {
        if !sym.contains_key(s) {
            let sid = tb.sort(*s);
            let x = tb.line(&format!("input {sid}{}", if named { format!(" x_{}", s.show()) } else { String::new() }));
            let y = tb.line(&format!("state {sid}{}", if named { format!(" y_{}", s.show()) } else { String::new() }));
            sym.insert(*s, (x, y));
        }
    }
    let mut body = format!("{op} {rs}");
    for (k, s) in asorts.iter().enumerate() {
        let (x, y) = sym[s];
        let id = if choice[k] { y } else { x };
        body += &format!(" {}{id}", if neg & (1 << k) != 0 { "-" } else { "" });
    }
    for p in params {
        body += &format!(" {p}");
    }
    if named {
        body += " res";
    }
    let r = tb.line(&body);
    tb.line(&format!("output {r}{}", if named { " o" } else { "" }));
    if *res == Sort::Bv(1) {
        tb.line(&format!("bad {r}"));
        tb.line(&format!("constraint -{r}"));
    } else if matches!(res, Sort::Bv(_)) {
        tb.line(&format!("output -{r}"));
    }
    // the result drives the next function of y when the sorts agree
    if let Some((_, y)) = sym.get(res) {
        tb.line(&format!("next {rs} {y} {r}"));
    }
    tb.text()
}

/// all (choice, neg) variants of an instance; `full` = all operand choices and negation subsets
pub fn single_variants(inst: &(String, Vec<Sort>, Vec<u32>, Sort), full: bool) -> Vec<String> {
    let n = inst.1.len();
    let mut out = vec![];
    let choices: Vec<Vec<bool>> = if full {
        (0..(1u32 << n)).map(|m| (0..n).map(|k| m & (1 << k) != 0).collect()).collect()
    } else {
        vec![(0..n).map(|k| k % 2 == 1).collect()]
    };
    for ch in choices.iter() {
        let negs: Vec<u32> = if full { (0..(1u32 << n)).collect() } else { vec![0] };
        for m in negs {
            // only bit-vector operands can be negated
            if (0..n).any(|k| m & (1 << k) != 0 && !matches!(inst.1[k], Sort::Bv(_))) {
                continue;
            }
            out.push(single_file(inst, ch, m, false));
        }
    }
    // one named variant
    out.push(single_file(inst, &(0..n).map(|k| k % 2 == 1).collect::<Vec<_>>(), 0, true));
    out.sort();
    out.dedup();
    out
}

fn const_tokens(w: u32) -> Vec<(String, String)> {
    use num_bigint::BigUint;
    use num_traits::{One, Zero};
    let p = |n: u32| BigUint::one() << (n as usize);
    let max = p(w) - BigUint::one();
    let mut vals: Vec<BigUint> = vec![BigUint::zero(), BigUint::one(), max.clone(), p(w - 1), p(w - 1) - BigUint::one(), BigUint::from(5u32), BigUint::from(10u32)];
    let mut alt = BigUint::zero();
    for i in (0..w).step_by(2) {
        alt.set_bit(i as u64, true);
    }
    vals.push(alt);
    if w > 64 {
        vals.push(p(64));
        vals.push(p(64) + BigUint::one());
    }
    vals.retain(|v| v.bits() <= w as u64);
    vals.sort();
    vals.dedup();
    let mut out = vec![];
    for v in vals.iter() {
        let bin = v.to_str_radix(2);
        out.push(("const".to_string(), bin.clone()));
        out.push(("const".to_string(), format!("{}{}", "0".repeat(w as usize - bin.len()), bin)));
        out.push(("constd".to_string(), v.to_str_radix(10)));
        out.push(("constd".to_string(), format!("00{}", v.to_str_radix(10))));
        out.push(("consth".to_string(), v.to_str_radix(16)));
        out.push(("consth".to_string(), v.to_str_radix(16).to_uppercase()));
        out.push(("consth".to_string(), format!("0{}", v.to_str_radix(16))));
    }
    // negative constd
    let mut negs: Vec<BigUint> = vec![BigUint::zero(), BigUint::one(), p(w - 1)];
    if w >= 2 {
        negs.push(p(w - 1) - BigUint::one());
        negs.push(BigUint::from(2u32));
    }
    negs.retain(|m| *m <= p(w - 1));
    negs.sort();
    negs.dedup();
    for m in negs {
        out.push(("constd".to_string(), format!("-{m}")));
        out.push(("constd".to_string(), format!("-0{m}")));
    }
    // outside the compared domain (counted only): too large / too many digits
    out.push(("constd".to_string(), p(w).to_str_radix(10)));
    out.push(("const".to_string(), format!("0{}", max.to_str_radix(2))));
    out.push(("constd".to_string(), format!("-{}", p(w - 1) + BigUint::one())));
    out.sort();
    out.dedup();
    out
}

pub fn const_files(widths: &[u32]) -> Vec<String> {
    let mut out = vec![];
    for &w in widths {
        for (tag, tok) in const_tokens(w) {
            let mut tb = Tb::new();
            let s1 = tb.sort(Sort::Bv(1));
            let s = tb.sort(Sort::Bv(w));
            let c = tb.line(&format!("{tag} {s} {tok}"));
            let x = tb.line(&format!("input {s}"));
            tb.line(&format!("output {c}"));
            tb.line(&format!("output -{c}"));
            let e = tb.line(&format!("eq {s1} {x} {c}"));
            tb.line(&format!("bad {e}"));
            out.push(tb.text());
        }
        for tag in ["zero", "one", "ones"] {
            let mut tb = Tb::new();
            let s1 = tb.sort(Sort::Bv(1));
            let s = tb.sort(Sort::Bv(w));
            let c = tb.line(&format!("{tag} {s}"));
            let x = tb.line(&format!("state {s}"));
            tb.line(&format!("init {s} {x} {c}"));
            tb.line(&format!("output -{c}"));
            let e = tb.line(&format!("ugte {s1} {x} -{c}"));
            tb.line(&format!("constraint {e}"));
            out.push(tb.text());
        }
    }
    out
}

/// Several constants in one file: every ordered pair (and a few triples) of constant lines of one width whose digit
/// strings are legal in their bases - the same digits in different bases (`constd 10` / `consth 10` / `const 10`),
/// the same number spelt differently, and the same line twice. Each constant is an output of its own and all of
/// them are combined in one expression: a reader that remembers constants by anything less than (base, digits,
/// width) shows here.
pub fn const_pair_files(widths: &[u32]) -> Vec<String> {
    let digit_strings = ["0", "1", "10", "11", "100", "101", "0010", "110"];
    let mut out = vec![];
    for &w in widths {
        // (tag, digits) legal at this width
        let mut lines: Vec<(&str, &str)> = vec![];
        for d in digit_strings {
            if d.len() as u32 <= w {
                lines.push(("const", d));
            }
            if let Ok(v) = d.parse::<u64>() && (w >= 64 || v < (1u64 << w)) {
                lines.push(("constd", d));
            }
            if let Ok(v) = u64::from_str_radix(d, 16) && (w >= 64 || v < (1u64 << w)) {
                lines.push(("consth", d));
            }
        }
        for (i, a) in lines.iter().enumerate() {
            for (j, b) in lines.iter().enumerate() {
                // same digits in another base, the same line twice, or neighbouring spellings
                if !(a.1 == b.1 || (i as i64 - j as i64).abs() <= 1) {
                    continue;
                }
                for third in [None, Some(lines[(i + j) % lines.len()])] {
                    let mut tb = Tb::new();
                    let s = tb.sort(Sort::Bv(w));
                    let s1 = tb.sort(Sort::Bv(1));
                    let ca = tb.line(&format!("{} {s} {}", a.0, a.1));
                    let cb = tb.line(&format!("{} {s} {}", b.0, b.1));
                    let cc = third.map(|t| tb.line(&format!("{} {s} {}", t.0, t.1)));
                    let x = tb.line(&format!("input {s}"));
                    tb.line(&format!("output {ca}"));
                    tb.line(&format!("output {cb}"));
                    let sum = tb.line(&format!("sub {s} {ca} {cb}"));
                    let sum = match cc {
                        Some(c) => {
                            tb.line(&format!("output {c}"));
                            tb.line(&format!("xor {s} {sum} {c}"))
                        }
                        None => sum,
                    };
                    let r = tb.line(&format!("add {s} {x} {sum}"));
                    tb.line(&format!("output {r}"));
                    let e = tb.line(&format!("ugt {s1} {ca} {cb}"));
                    tb.line(&format!("bad {e}"));
                    out.push(tb.text());
                }
            }
        }
    }
    out.sort();
    out.dedup();
    out
}

/// Two-operator chains through a width change (the chains of `chain_files` keep every intermediate result inside
/// a two-sort universe, so an extension or slice is never an operand there): x of width 1..3 through
/// uext / sext / slice / concat, the result (plain or negated) through uext / sext / slice / a unary operator.
pub fn width_chain_files() -> Vec<String> {
    let mut out = vec![];
    for w in [1u32, 2, 3] {
        // inner: (text after the sort id with {x}, result width)
        let mut inners: Vec<(String, u32)> = vec![];
        for a in [0u32, 1, 2] {
            inners.push((format!("uext {{s}} {{x}} {a}"), w + a));
            inners.push((format!("sext {{s}} {{x}} {a}"), w + a));
        }
        for hi in 0..w {
            for lo in 0..=hi {
                inners.push((format!("slice {{s}} {{x}} {hi} {lo}"), hi - lo + 1));
            }
        }
        inners.push(("concat {s} {x} {y}".to_string(), 2 * w));
        for (inner, iw) in inners.iter() {
            let mut outers: Vec<(String, u32)> = vec![];
            for b in [0u32, 1, 2] {
                outers.push((format!("uext {{s}} {{i}} {b}"), iw + b));
                outers.push((format!("sext {{s}} {{i}} {b}"), iw + b));
            }
            for hi in 0..*iw {
                for lo in 0..=hi {
                    outers.push((format!("slice {{s}} {{i}} {hi} {lo}"), hi - lo + 1));
                }
            }
            for u in ["not", "neg", "inc", "dec"] {
                if !btorref::PATRONUS_UNSUPPORTED.contains(&u) {
                    outers.push((format!("{u} {{s}} {{i}}"), *iw));
                }
            }
            for u in ["redand", "redor", "redxor"] {
                outers.push((format!("{u} {{s}} {{i}}"), 1));
            }
            for (outer, ow) in outers.iter() {
                for neg in [false, true] {
                    let mut tb = Tb::new();
                    let sx = tb.sort(Sort::Bv(w));
                    let x = tb.line(&format!("input {sx}"));
                    let y = tb.line(&format!("state {sx}"));
                    let si = tb.sort(Sort::Bv(*iw));
                    let i = tb.line(&inner.replace("{s}", &si.to_string()).replace("{x}", &x.to_string()).replace("{y}", &y.to_string()));
                    let so = tb.sort(Sort::Bv(*ow));
                    let r = tb.line(&outer.replace("{s}", &so.to_string()).replace("{i}", &format!("{}{i}", if neg { "-" } else { "" })));
                    tb.line(&format!("output {r}"));
                    tb.line(&format!("output -{r}"));
                    out.push(tb.text());
                }
            }
        }
    }
    out.sort();
    out.dedup();
    out
}

/// init/next attachment files
pub fn attach_files() -> Vec<String> {
    let mut out = vec![];
    // bit-vector states: every combination of init / next presence, negated init and next operands
    for w in [1u32, 2, 8] {
        for has_init in [false, true] {
            for has_next in [false, true] {
                for neg in [false, true] {
                    let mut tb = Tb::new();
                    let s = tb.sort(Sort::Bv(w));
                    let s1 = tb.sort(Sort::Bv(1));
                    let i = tb.line(&format!("input {s}"));
                    let c = tb.line(&format!("one {s}"));
                    let st = tb.line(&format!("state {s}"));
                    let st2 = tb.line(&format!("state {s} second"));
                    let n = if neg { "-" } else { "" };
                    if has_init {
                        tb.line(&format!("init {s} {st} {n}{c}"));
                    }
                    let a = tb.line(&format!("add {s} {st} {i}"));
                    if has_next {
                        tb.line(&format!("next {s} {st} {n}{a}"));
                    }
                    // the second state is initialised from the first and keeps its value
                    tb.line(&format!("init {s} {st2} {n}{st}"));
                    tb.line(&format!("next {s} {st2} {st2}"));
                    let e = tb.line(&format!("eq {s1} {st} {st2}"));
                    tb.line(&format!("bad {e}"));
                    out.push(tb.text());
                }
            }
        }
    }
    // array states
    for a in ARRS {
        let Sort::Arr(iw, dw) = a else { unreachable!() };
        for init_kind in ["none", "bv-const", "bv-neg-const", "bv-input", "array-state", "array-write"] {
            for has_next in [false, true] {
                let mut tb = Tb::new();
                let si = tb.sort(Sort::Bv(iw));
                let sd = tb.sort(Sort::Bv(dw));
                let sa = tb.sort(a);
                let idx = tb.line(&format!("input {si}"));
                let dat = tb.line(&format!("input {sd}"));
                let c = tb.line(&format!("one {sd}"));
                let m0 = tb.line(&format!("state {sa} m0"));
                let m = tb.line(&format!("state {sa} m"));
                match init_kind {
                    "bv-const" => {
                        tb.line(&format!("init {sa} {m} {c}"));
                    }
                    "bv-neg-const" => {
                        tb.line(&format!("init {sa} {m} -{c}"));
                    }
                    "bv-input" => {
                        tb.line(&format!("init {sa} {m} {dat}"));
                    }
                    "array-state" => {
                        tb.line(&format!("init {sa} {m} {m0}"));
                    }
                    "array-write" => {
                        let w0 = tb.line(&format!("write {sa} {m0} {idx} {c}"));
                        tb.line(&format!("init {sa} {m} {w0}"));
                    }
                    _ => {}
                }
                if has_next {
                    let w = tb.line(&format!("write {sa} {m} {idx} -{dat}"));
                    tb.line(&format!("next {sa} {m} {w}"));
                }
                let r = tb.line(&format!("read {sd} {m} -{idx}"));
                tb.line(&format!("output {r}"));
                out.push(tb.text());
            }
        }
    }
    out
}

/// two-operator chains over bv1, bv2 and array 1->2
pub fn chain_files(w: u32, full: bool) -> Vec<String> {
    let insts = instances(&[1, w], &[], &[Sort::Arr(1, w)], &[1]);
    // keep result sorts inside the reduced universe
    let universe = [Sort::Bv(1), Sort::Bv(w), Sort::Arr(1, w)];
    let inner: Vec<_> = insts.iter().filter(|i| universe.contains(&i.3) && !btorref::PATRONUS_UNSUPPORTED.contains(&i.0.as_str())).cloned().collect();
    let mut out = vec![];
    for inn in inner.iter() {
        for outer in insts.iter() {
            if btorref::PATRONUS_UNSUPPORTED.contains(&outer.0.as_str()) {
                continue;
            }
            for pos in 0..outer.1.len() {
                if outer.1[pos] != inn.3 {
                    continue;
                }
                if !full && pos > 0 && outer.1[..pos].contains(&inn.3) && !["sub", "implies", "concat", "sll", "srl", "sra", "ugt", "slt", "slte", "sgte", "ulte", "ite", "udiv", "urem", "sdiv", "srem", "smod"].contains(&outer.0.as_str()) {
                    // quick tier: second position only for non-commutative operators
                    continue;
                }
                let negs: &[bool] = if matches!(inn.3, Sort::Bv(_)) { &[false, true] } else { &[false] };
                for &neg in negs {
                    let mut tb = Tb::new();
                    tb.sort(Sort::Bv(1));
                    tb.sort(Sort::Bv(w));
                    let mut sym: BTreeMap<Sort, (u64, u64)> = BTreeMap::new();
                    for s in inn.1.iter().chain(outer.1.iter()) {
                        if !sym.contains_key(s) {
                            let sid = tb.sort(*s);
                            let x = tb.line(&format!("input {sid}"));
                            let y = tb.line(&format!("state {sid}"));
                            sym.insert(*s, (x, y));
                        }
                    }
                    let irs = tb.sort(inn.3);
                    let mut body = format!("{} {irs}", inn.0);
                    for (k, s) in inn.1.iter().enumerate() {
                        let (x, y) = sym[s];
                        body += &format!(" {}", if k % 2 == 0 { x } else { y });
                    }
                    for p in inn.2.iter() {
                        body += &format!(" {p}");
                    }
                    let ir = tb.line(&body);
                    let ors = tb.sort(outer.3);
                    let mut body = format!("{} {ors}", outer.0);
                    for (k, s) in outer.1.iter().enumerate() {
                        if k == pos {
                            body += &format!(" {}{ir}", if neg { "-" } else { "" });
                        } else {
                            let (x, y) = sym[s];
                            body += &format!(" {}", if k % 2 == 0 { y } else { x });
                        }
                    }
                    for p in outer.2.iter() {
                        body += &format!(" {p}");
                    }
                    let r = tb.line(&body);
                    tb.line(&format!("output {r}"));
                    if outer.3 == Sort::Bv(1) {
                        tb.line(&format!("bad -{r}"));
                    }
                    out.push(tb.text());
                }
            }
        }
    }
    out.sort();
    out.dedup();
    out
}

/// small base files for the line-order sweep (at most 7 lines)
pub fn order_bases() -> Vec<String> {
    let v = [
        "1 sort bitvec 2\n2 input 1\n3 state 1\n4 add 1 2 3\n5 next 1 3 4\n6 output -4\n",
        "1 sort bitvec 1\n2 sort bitvec 3\n3 input 2\n4 input 2\n5 slte 1 3 4\n6 bad 5\n7 constraint -5\n",
        "1 sort bitvec 1\n2 sort bitvec 2\n3 sort array 1 2\n4 state 3\n5 input 1\n6 read 2 4 -5\n7 output 6\n",
        "1 sort bitvec 2\n2 sort bitvec 1\n3 sort array 2 1\n4 state 3\n5 one 1\n6 init 3 4 5\n7 next 3 4 4\n",
        "1 sort bitvec 3\n2 state 1\n3 state 1\n4 init 1 3 2\n5 next 1 3 2\n6 next 1 2 -3\n7 output 3\n",
        "1 sort bitvec 1\n2 state 1 s\n3 input 1 i\n4 state 1 t\n5 implies 1 2 -3\n6 next 1 4 5\n7 bad -4\n",
        "1 sort bitvec 4\n2 constd 1 -3\n3 input 1\n4 sort bitvec 1\n5 sgt 4 3 2\n6 bad 5\n",
        "1 sort bitvec 2\n2 sort bitvec 4\n3 input 1\n4 state 1\n5 concat 2 3 -4\n6 output 5\n7 init 1 4 3\n",
        "1 sort bitvec 1\n2 input 1\n3 state 1\n4 state 1\n5 ite 1 -2 3 -4\n6 next 1 3 5\n7 constraint 5\n",
        "1 sort bitvec 3\n2 input 1\n3 sext 1 2 0 alias\n4 sort bitvec 5\n5 uext 4 3 2\n6 output 5\n",
        "1 sort bitvec 2\n2 state 1 a\n3 uext 1 2 0 better\n4 not 1 3\n5 next 1 2 4\n6 output 2\n",
        "1 sort bitvec 2\n2 sort array 1 1\n3 state 2\n4 input 1\n5 write 2 3 4 -4\n6 next 2 3 5\n7 output 5\n",
    ];
    v.iter().map(|s| s.to_string()).collect()
}

pub fn order_files(bases: &[String], cap_per_base: usize) -> (Vec<String>, bool) {
    let mut out = vec![];
    let mut complete = true;
    for b in bases {
        let lines: Vec<String> = b.lines().map(|l| l.to_string()).collect();
        let (orders, c) = admissible_orders(&lines, cap_per_base);
        complete &= c;
        for o in orders {
            let mut s = o.iter().map(|i| lines[*i].clone()).collect::<Vec<_>>().join("\n");
            s.push('\n');
            out.push(s);
        }
    }
    (out, complete)
}

/// every sort-id token replaced by every other declared sort id
pub fn illsorted_variants(text: &str) -> Vec<String> {
    let lines: Vec<&str> = text.lines().collect();
    let mut sort_ids: Vec<&str> = vec![];
    for l in lines.iter() {
        let t: Vec<&str> = l.split(' ').collect();
        if t.len() > 2 && t[1] == "sort" {
            sort_ids.push(t[0]);
        }
    }
    let mut out = vec![];
    for (li, l) in lines.iter().enumerate() {
        let t: Vec<&str> = l.split(' ').collect();
        if t.len() < 3 {
            continue;
        }
        let positions: Vec<usize> = match t[1] {
            "sort" => {
                if t[2] == "array" {
                    vec![3, 4]
                } else {
                    vec![]
                }
            }
            "output" | "bad" | "constraint" => vec![],
            _ => vec![2],
        };
        for p in positions {
            if p >= t.len() {
                continue;
            }
            for sid in sort_ids.iter() {
                if *sid == t[p] {
                    continue;
                }
                let mut t2: Vec<String> = t.iter().map(|x| x.to_string()).collect();
                t2[p] = sid.to_string();
                let mut ls: Vec<String> = lines.iter().map(|x| x.to_string()).collect();
                ls[li] = t2.join(" ");
                let mut s = ls.join("\n");
                s.push('\n');
                out.push(s);
            }
            // sorts the file does not declare itself (a file over one sort has no other id to offer): extra
            // sort lines with ids of their own are put in front
            if t[1] != "sort" {
                for (extra_id, header) in [("9001", "9001 sort bitvec 1\n"), ("9002", "9002 sort bitvec 2\n"), ("9003", "9003 sort bitvec 8\n"), ("9004", "9001 sort bitvec 1\n9002 sort bitvec 2\n9004 sort array 9001 9002\n")] {
                    let mut t2: Vec<String> = t.iter().map(|x| x.to_string()).collect();
                    t2[p] = extra_id.to_string();
                    let mut ls: Vec<String> = lines.iter().map(|x| x.to_string()).collect();
                    ls[li] = t2.join(" ");
                    let mut s = format!("{header}{}", ls.join("\n"));
                    s.push('\n');
                    out.push(s);
                }
            }
        }
    }
    out
}

/// Operand mutants: every operand id of every line replaced by the id of every other earlier node (and its
/// negation when the original was negated). The reference decides which of them are still well-sorted
/// (compared semantically) and which are ill-sorted (must be rejected).
pub fn operand_variants(text: &str) -> Vec<String> {
    let lines: Vec<&str> = text.lines().collect();
    let mut node_ids: Vec<(usize, &str)> = vec![];
    for (li, l) in lines.iter().enumerate() {
        let t: Vec<&str> = l.split(' ').collect();
        if t.len() > 2 && t[1] != "sort" && !matches!(t[1], "init" | "next" | "output" | "bad" | "constraint") {
            node_ids.push((li, t[0]));
        }
    }
    let mut out = vec![];
    for (li, l) in lines.iter().enumerate() {
        let t: Vec<&str> = l.split(' ').collect();
        if t.len() < 3 || t[1] == "sort" {
            continue;
        }
        let positions: Vec<usize> = match t[1] {
            "output" | "bad" | "constraint" => vec![2],
            "input" | "state" | "zero" | "one" | "ones" | "const" | "constd" | "consth" => vec![],
            "slice" | "uext" | "sext" => vec![3],
            "init" | "next" => vec![3, 4],
            _ => (3..t.len()).collect(),
        };
        for p in positions {
            if p >= t.len() || t[p].trim_start_matches('-').parse::<u64>().is_err() {
                continue;
            }
            let neg = t[p].starts_with('-');
            for (nl, nid) in node_ids.iter() {
                if *nl >= li || *nid == t[p].trim_start_matches('-') {
                    continue;
                }
                let mut t2: Vec<String> = t.iter().map(|x| x.to_string()).collect();
                t2[p] = if neg { format!("-{nid}") } else { nid.to_string() };
                let mut ls: Vec<String> = lines.iter().map(|x| x.to_string()).collect();
                ls[li] = t2.join(" ");
                let mut s = ls.join("\n");
                s.push('\n');
                out.push(s);
            }
        }
    }
    out
}

/// Name collisions: three declarations of one sort (inputs and/or states) named from a small alphabet of
/// user names, suffixed names and the reader's own default names (or unnamed), in every order; the three
/// must stay three different variables.
pub fn name_files() -> Vec<String> {
    let names = ["", "x", "x_0", "x_1", "_input_0", "_input_1", "_state_0", "_state_1"];
    let kinds = [["input", "input", "input"], ["state", "state", "state"], ["input", "state", "input"], ["state", "input", "state"]];
    let mut out = vec![];
    for ks in kinds.iter() {
        for a in names {
            for b in names {
                for c in names {
                    let mut tb = Tb::new();
                    let s = tb.sort(Sort::Bv(2));
                    let ids: Vec<u64> = [(ks[0], a), (ks[1], b), (ks[2], c)].iter().map(|(k, n)| tb.line(&format!("{k} {s}{}{n}", if n.is_empty() { "" } else { " " }))).collect();
                    let d1 = tb.line(&format!("sub {s} {} {}", ids[0], ids[1]));
                    let d2 = tb.line(&format!("sub {s} {} {}", ids[1], ids[2]));
                    let d3 = tb.line(&format!("xor {s} {} {}", ids[0], ids[2]));
                    tb.line(&format!("output {d1}"));
                    tb.line(&format!("output {d2}"));
                    tb.line(&format!("output {d3}"));
                    out.push(tb.text());
                }
            }
        }
    }
    out
}

// ------------------------------------------------------------------ driver

struct Stage {
    name: &'static str,
    texts: Vec<String>,
}

fn run_stage(st: &Stage, base_order: u64, rep: &Report, budget: &Budget) -> bool {
    let done = AtomicU64::new(0);
    let chunk = 256;
    let mut capped = false;
    for (ci, ch) in st.texts.chunks(chunk * 16).enumerate() {
        if budget.exceeded() {
            capped = true;
            break;
        }
        let results: Vec<(usize, Outcome)> = ch.par_iter().enumerate().map(|(i, t)| (i, check_text(t))).collect();
        let mut counts: BTreeMap<String, u64> = BTreeMap::new();
        let mut hashes = vec![];
        for (i, o) in results {
            let order = base_order + (ci * chunk * 16 + i) as u64;
            *counts.entry("evaluations".into()).or_insert(0) += 1;
            *counts.entry(format!("stage:{}", st.name)).or_insert(0) += 1;
            match &o {
                Outcome::Compared(n) => {
                    *counts.entry("outcome:compared".into()).or_insert(0) += 1;
                    *counts.entry("root_values_compared".into()).or_insert(0) += n;
                    if *n > 0 {
                        hashes.push(hash64(&ch[i]));
                    }
                }
                Outcome::Skipped(why) => *counts.entry(format!("outcome:{why}")).or_insert(0) += 1,
                Outcome::Fail { .. } => {
                    *counts.entry("outcome:fail".into()).or_insert(0) += 1;
                    report(&ch[i], st.name, order, rep);
                }
            }
        }
        rep.merge_counts(&counts);
        rep.distinct_hashes(&hashes);
        done.fetch_add(ch.len() as u64, Ordering::Relaxed);
    }
    if capped {
        rep.cap_hit(&format!("budget reached in stage {} after {} of {} texts", st.name, done.load(Ordering::Relaxed), st.texts.len()));
    }
    !capped
}

pub fn run(opts: &Opts, rep: &Report) {
    let tier = match opts.mode {
        Mode::Run(t) => t,
        _ => unreachable!(),
    };
    let n = btorref::self_check();
    rep.add("btorref_self_check_comparisons", n);
    let budget = Budget::new(opts.budget_s);
    let _gag = StderrGag::new();
    let thorough = tier.is_thorough();

    if thorough {
        EXH_EXTRA.store(2, Ordering::Relaxed);
    }
    let (widths, cmpw, ext): (Vec<u32>, Vec<u32>, Vec<u32>) =
        if thorough { (vec![1, 2, 3, 4, 5, 8, 16, 31, 32, 33, 63, 64, 65, 128, 129], vec![127], vec![0, 1, 2, 5, 31, 32, 64]) } else { (vec![1, 2, 3, 8], vec![64, 65], vec![0, 1, 2, 5]) };
    let insts = instances(&widths, &cmpw, &ARRS, &ext);
    let ops_seen: std::collections::BTreeSet<String> = insts.iter().map(|i| i.0.clone()).collect();
    let mut single: Vec<String> = insts.par_iter().flat_map(|i| single_variants(i, true)).collect();
    single.par_sort();
    single.dedup();
    // base files whose sort ids are mutated: the un-negated variant of every instance (quick),
    // every single-operator file (thorough)
    let ill_bases: Vec<String> = if thorough {
        single.clone()
    } else {
        let mut v: Vec<String> = insts.iter().map(|i| single_file(i, &(0..i.1.len()).map(|k| k % 2 == 1).collect::<Vec<_>>(), 0, false)).collect();
        v.sort();
        v.dedup();
        v
    };
    let attach = attach_files();
    let const_pairs = const_pair_files(if thorough { &[1, 2, 3, 4, 8, 16, 64, 65] } else { &[2, 3, 8] });
    let consts = const_files(if thorough { &[1, 2, 3, 4, 8, 31, 32, 33, 63, 64, 65, 127, 128, 129, 130, 192] } else { &[1, 2, 3, 8, 64, 65, 128, 129] });
    let mut ill: Vec<String> = ill_bases.par_iter().chain(attach.par_iter()).flat_map(|b| illsorted_variants(b)).collect();
    ill.par_sort();
    ill.dedup();
    // operand mutants of the state-attachment files (quick) and of every base file (thorough)
    let mut opnd: Vec<String> = if thorough { ill_bases.par_iter().chain(attach.par_iter()).flat_map(|b| operand_variants(b)).collect() } else { attach.par_iter().flat_map(|b| operand_variants(b)).collect() };
    opnd.par_sort();
    opnd.dedup();
    {
        let n_ill = opnd.par_iter().filter(|t| matches!(btorref::parse(t), Err(RefErr::IllSorted(_)))).count();
        let n_ok = opnd.par_iter().filter(|t| btorref::parse(t).is_ok()).count();
        rep.add("operand_variants_ref_illsorted", n_ill as u64);
        rep.add("operand_variants_ref_wellformed", n_ok as u64);
        if n_ill < 100 || n_ok < 100 {
            machinery_failure("C08 operand mutants: the reference finds fewer than 100 ill-sorted or fewer than 100 well-sorted ones");
        }
    }
    let mut bases = order_bases();
    if thorough {
        for i in instances(&[1, 3], &[], &ARRS, &[0, 2]).iter() {
            let t = single_file(i, &(0..i.1.len()).map(|k| k % 2 == 1).collect::<Vec<_>>(), if matches!(i.1[0], Sort::Bv(_)) { 1 } else { 0 }, false);
            if t.lines().count() <= 8 {
                bases.push(t);
            }
        }
        bases.sort();
        bases.dedup();
    }
    let (orders, complete) = order_files(&bases, if thorough { 5040 } else { 720 });
    if !complete {
        rep.cap_hit("line orders per base file capped");
    }
    let mut chains = chain_files(2, thorough);
    chains.extend(width_chain_files());
    if thorough {
        chains.extend(chain_files(3, true));
        chains.extend(chain_files(8, false));
        chains.par_sort();
        chains.dedup();
    }

    // ---- vacuity guards (enumerator / oracle side only)
    let all_ops: Vec<&str> = btorref::UNARY
        .iter()
        .chain(btorref::EXT.iter())
        .chain(btorref::BOOL_BIN.iter())
        .chain(btorref::EQ_OPS.iter())
        .chain(btorref::CMP.iter())
        .chain(btorref::SAME_BIN.iter())
        .chain(btorref::OVF.iter())
        .chain(["concat", "read", "ite", "write"].iter())
        .copied()
        .collect();
    for op in all_ops.iter() {
        if !ops_seen.contains(*op) {
            machinery_failure(&format!("C08 enumerator never produced operator {op}"));
        }
    }
    {
        // the reference must accept every base text and reject a healthy share of the sort mutants
        let bad = single.par_iter().chain(attach.par_iter()).chain(chains.par_iter()).chain(orders.par_iter()).find_first(|t| btorref::parse(t).is_err());
        if let Some(t) = bad {
            machinery_failure(&format!("C08 generator produced a text the reference rejects: {} ({:?})", t.replace('\n', " / "), btorref::parse(t).err()));
        }
        let n_ill = ill.par_iter().filter(|t| matches!(btorref::parse(t), Err(RefErr::IllSorted(_)))).count();
        let n_ok = ill.par_iter().filter(|t| btorref::parse(t).is_ok()).count();
        rep.add("illsorted_variants_ref_illsorted", n_ill as u64);
        rep.add("illsorted_variants_ref_wellformed", n_ok as u64);
        if n_ill < 100 || n_ill * 2 < ill.len() {
            machinery_failure("C08 sort mutants: fewer than half are ill-sorted for the reference");
        }
        // reference evaluation distinguishes operand order: slte vs sgte on some valuation
        let t = "1 sort bitvec 1\n2 sort bitvec 2\n3 input 2\n4 input 2\n5 slte 1 3 4\n6 sgte 1 3 4\n7 output 5\n8 output 6\n";
        let f = btorref::parse(t).unwrap();
        let (vals, _, _) = valuations(&f, &support_of(&f), exh_bits(), VAL_CAP);
        let differ = vals.iter().any(|v| {
            let e = btorref::eval_all(&f, v);
            e.opnd(f.outputs[0].0) != e.opnd(f.outputs[1].0)
        });
        if !differ || vals.len() != 16 {
            machinery_failure("C08 reference does not distinguish slte from sgte");
        }
    }
    rep.note(
        "stages",
        json!({"single": single.len(), "const": consts.len(), "const_pairs": const_pairs.len(), "attach": attach.len(), "chain": chains.len(), "order": orders.len(), "illsorted": ill.len(), "operand_mutants": opnd.len(), "order_bases": bases.len()}),
    );
    for t in [&single[0], &chains[chains.len() / 2], &ill[ill.len() / 3]] {
        rep.sample(json!({"text": t}));
    }
    let stages = vec![
        Stage { name: "single", texts: single },
        Stage { name: "const", texts: consts },
        Stage { name: "const-pairs", texts: const_pairs },
        Stage { name: "attach", texts: attach },
        Stage { name: "names", texts: name_files() },
        Stage { name: "order", texts: orders },
        Stage { name: "illsorted", texts: ill },
        Stage { name: "operand-mutants", texts: opnd },
        Stage { name: "chain", texts: chains },
    ];
    let mut base = 0u64;
    for st in stages.iter() {
        run_stage(st, base, rep, &budget);
        base += st.texts.len() as u64;
    }
}

pub fn replay(case: &Value, rep: &Report) {
    let _gag = StderrGag::new();
    let text = case["text"].as_str().expect("text");
    report(text, "replay", 0, rep);
}

#[allow(dead_code)]
fn _unused(_: Ty) {}
