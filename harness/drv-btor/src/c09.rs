use pvcore::run::*;
use serde_json::Value;
pub fn meta(_rep: &mut Report) {}
pub fn run(_opts: &Opts, _rep: &Report) {}
pub fn replay(_case: &Value, _rep: &Report) {}
