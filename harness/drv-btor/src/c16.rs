//! C16 — btor2 witness text round-trips.

use baa::{ArrayOps, BitVecOps};
use patronus::btor2::{parse_witness, parse_witnesses, witness_to_string};
use patronus::mc::{InitValue, Witness};
use pvcore::bv::{Arr, Bv};
use pvcore::evalref::{arr_to_baa, baa_to_bv, bv_to_baa};
use pvcore::run::*;
use pvcore::terms::{all_values, bnd_values};
use rayon::prelude::*;
use serde_json::{Value, json};
use std::collections::{BTreeMap, BTreeSet};

pub fn meta(rep: &mut Report) {
    rep.rule = "complete witnesses: 0-2 states over {bv1, bv3, bv64, bv65, array 1->2, 2->1, 3->8} (arrays with 0-4 recorded indices incl. data 0, unsorted and repeated indices, nonzero default, sparse and dense representation), 0-2 bit-vector inputs over {1,3,64,65}, 0-3 frames (0 = a zero-step witness: initial frame only), sparse array states with index widths 8, 32, 63, 64, 65, 128 (indices 0, max, msb-only, 5), three large witnesses (12 states, 11 inputs of widths up to 200, 12 frames, property numbers 10 / 123 / 2^32-1, state values of 129 and 192 bits), failed sets = non-empty subsets of {0,1,7}, names None / simple / with $ . [ ] (sub-class: names containing @ or #); values swept over the boundary alphabet (every value of every type appears as a state value and as an input value in the first and in a later frame); and all concatenations of 1-3 witnesses of a reduced set read with parse_witnesses(n) for n = 1, count, count+1. Each witness: witness_to_string -> parse_witness; field-wise comparison, arrays compared at every recorded index. distinct_nontrivial = distinct witness texts that were read back.".into();
    rep.assumptions = vec![
        "complete witnesses only: non-empty failed set, a value for every input in every frame; a zero-step witness (initial frame only, the printer emits no `@` frame) is in the space only when it has a state and no inputs - input names live in `@` frames, and a text without any frame is not a witness of the format".into(),
        "a None name is expected back as the printer's default `state_<i>` / `input_<i>`".into(),
        "an array state without recorded indices has no text representation: it is expected back as no value / an empty entry set, its name is not compared, and when it is the last state the init vector may be shorter".into(),
        "array inputs are not printable (documented todo!) and are outside the space; names with whitespace are outside the space".into(),
    ];
}

// ------------------------------------------------------------------ witness specs

#[derive(Clone, Debug, PartialEq)]
pub enum SVal {
    Bv(Bv),
    /// array = default + stores (applied in order); `indices` = recorded index list as given
    Arr { iw: u32, dw: u32, default: Bv, stores: Vec<(Bv, Bv)>, indices: Vec<Bv>, dense: bool },
}

#[derive(Clone, Debug, PartialEq)]
pub struct WSpec {
    pub failed: Vec<u32>,
    pub states: Vec<(Option<String>, SVal)>,
    pub inputs: Vec<(Option<String>, u32)>,
    /// frames[k][i] = value of input i at step k
    pub frames: Vec<Vec<Bv>>,
}

fn bv_json(b: &Bv) -> Value {
    json!({"w": b.w, "v": b.v.to_string()})
}
fn bv_from(v: &Value) -> Bv {
    Bv::new(v["w"].as_u64().unwrap() as u32, v["v"].as_str().unwrap().parse().unwrap())
}

impl WSpec {
    pub fn to_json(&self) -> Value {
        json!({
            "failed": self.failed,
            "states": self.states.iter().map(|(n, v)| match v {
                SVal::Bv(b) => json!({"name": n, "bv": bv_json(b)}),
                SVal::Arr { iw, dw, default, stores, indices, dense } => json!({"name": n, "arr": {"iw": iw, "dw": dw, "default": bv_json(default), "dense": dense,
                    "stores": stores.iter().map(|(i, d)| json!([bv_json(i), bv_json(d)])).collect::<Vec<_>>(),
                    "indices": indices.iter().map(bv_json).collect::<Vec<_>>()}}),
            }).collect::<Vec<_>>(),
            "inputs": self.inputs.iter().map(|(n, w)| json!({"name": n, "w": w})).collect::<Vec<_>>(),
            "frames": self.frames.iter().map(|f| f.iter().map(bv_json).collect::<Vec<_>>()).collect::<Vec<_>>(),
        })
    }
    pub fn from_json(v: &Value) -> WSpec {
        let name = |x: &Value| x["name"].as_str().map(|s| s.to_string());
        WSpec {
            failed: v["failed"].as_array().unwrap().iter().map(|x| x.as_u64().unwrap() as u32).collect(),
            states: v["states"]
                .as_array()
                .unwrap()
                .iter()
                .map(|s| {
                    if s.get("bv").is_some() {
                        (name(s), SVal::Bv(bv_from(&s["bv"])))
                    } else {
                        let a = &s["arr"];
                        (
                            name(s),
                            SVal::Arr {
                                iw: a["iw"].as_u64().unwrap() as u32,
                                dw: a["dw"].as_u64().unwrap() as u32,
                                default: bv_from(&a["default"]),
                                dense: a["dense"].as_bool().unwrap_or(false),
                                stores: a["stores"].as_array().unwrap().iter().map(|p| (bv_from(&p[0]), bv_from(&p[1]))).collect(),
                                indices: a["indices"].as_array().unwrap().iter().map(bv_from).collect(),
                            },
                        )
                    }
                })
                .collect(),
            inputs: v["inputs"].as_array().unwrap().iter().map(|i| (name(i), i["w"].as_u64().unwrap() as u32)).collect(),
            frames: v["frames"].as_array().unwrap().iter().map(|f| f.as_array().unwrap().iter().map(bv_from).collect()).collect(),
        }
    }

    pub fn build(&self) -> Witness {
        let mut w = Witness::default();
        w.failed_safety = self.failed.clone();
        for (n, v) in self.states.iter() {
            w.init_names.push(n.clone());
            w.init.push(match v {
                SVal::Bv(b) => InitValue::BitVec(bv_to_baa(b)),
                SVal::Arr { .. } => {
                    let a = arr_of(v);
                    let SVal::Arr { indices, dense, .. } = v else { unreachable!() };
                    InitValue::Array(arr_to_baa(&a, *dense), indices.iter().map(bv_to_baa).collect())
                }
            });
        }
        for (n, _) in self.inputs.iter() {
            w.input_names.push(n.clone());
        }
        for f in self.frames.iter() {
            w.inputs.push(f.iter().map(|b| Some(baa::Value::BitVec(bv_to_baa(b)))).collect());
        }
        w
    }
}

fn arr_of(v: &SVal) -> Arr {
    let SVal::Arr { iw, default, stores, .. } = v else { panic!("not an array") };
    let mut a = Arr::constant(*iw, default);
    for (i, d) in stores {
        a = a.store(i, d);
    }
    a
}

// ------------------------------------------------------------------ oracle

fn name_class(n: &Option<String>) -> &'static str {
    match n {
        None => "noname",
        Some(s) if s.contains('@') || s.contains('#') => "name-at-hash",
        Some(s) if s.chars().all(|c| c.is_ascii_alphanumeric() || c == '_') => "name-simple",
        Some(_) => "name-special",
    }
}

fn type_class(v: &SVal) -> String {
    match v {
        SVal::Bv(b) => format!("bv|{}", wclass(b.w)),
        SVal::Arr { iw, dw, indices, .. } => format!("arr{iw}_{dw}-{}idx|{}", indices.iter().collect::<BTreeSet<_>>().len().min(2), wclass(*dw)),
    }
}

/// field-wise comparison of a read-back witness with the specification it was printed from
pub fn compare(spec: &WSpec, got: &Witness) -> Option<(String, String)> {
    if got.failed_safety != spec.failed {
        return Some(("failed-set||".into(), format!("failed properties {:?} read back as {:?}", spec.failed, got.failed_safety)));
    }
    // a mismatch of a name containing @ or # (known suspicious sub-class) is reported only when
    // nothing else differs, so that it does not mask value comparisons
    let mut deferred: Option<(String, String)> = None;
    // states
    let degenerate = |v: &SVal| matches!(v, SVal::Arr { indices, .. } if indices.is_empty());
    let min_len = spec.states.iter().rposition(|(_, v)| !degenerate(v)).map(|p| p + 1).unwrap_or(0);
    if got.init.len() > spec.states.len() || got.init.len() < min_len || got.init_names.len() != got.init.len() {
        return Some(("init-count||".into(), format!("{} states written, {} values and {} names read back", spec.states.len(), got.init.len(), got.init_names.len())));
    }
    for (i, (name, v)) in spec.states.iter().enumerate() {
        let tc = type_class(v);
        let nc = name_class(name);
        if i >= got.init.len() {
            continue;
        }
        if !degenerate(v) {
            let want = name.clone().unwrap_or(format!("state_{i}"));
            if got.init_names[i].as_deref() != Some(want.as_str()) {
                let f = (format!("state-name|||{nc}"), format!("state {i} ({tc}) named `{want}` is read back as {:?}", got.init_names[i]));
                if nc == "name-at-hash" {
                    deferred.get_or_insert(f);
                } else {
                    return Some(f);
                }
            }
        }
        match (v, &got.init[i]) {
            (SVal::Bv(b), InitValue::BitVec(g)) => {
                let g = baa_to_bv(g);
                if g != *b {
                    return Some((format!("state-value|{tc}|"), format!("state {i} = {} is read back as {}", b.show(), g.show())));
                }
            }
            (SVal::Arr { iw, dw, indices, .. }, InitValue::Array(ga, gi)) => {
                let a = arr_of(v);
                if ga.index_width() != *iw || ga.data_width() != *dw {
                    return Some((format!("array-type|{tc}|"), format!("state {i}: array {iw}->{dw} read back as {}->{}", ga.index_width(), ga.data_width())));
                }
                let want_idx: BTreeSet<Bv> = indices.iter().cloned().collect();
                let got_idx: BTreeSet<Bv> = gi.iter().map(baa_to_bv).collect();
                if want_idx != got_idx {
                    return Some((
                        format!("array-indices|{tc}|"),
                        format!("state {i}: recorded indices {:?} read back as {:?}", want_idx.iter().map(|b| b.v.to_string()).collect::<Vec<_>>(), got_idx.iter().map(|b| b.v.to_string()).collect::<Vec<_>>()),
                    ));
                }
                for ix in want_idx.iter() {
                    let want = a.select(ix);
                    let g = match catch(|| baa_to_bv(&ga.select(&bv_to_baa(ix)))) {
                        Ok(g) => g,
                        Err(p) => return Some((format!("array-entry-unreadable|{tc}|{}", p.file()), format!("state {i}: entry [{}] of the array read back cannot be looked up: ArrayValue::select panics: {} ({})", ix.v, p.msg, p.short_loc()))),
                    };
                    if g != want {
                        return Some((format!("array-entry|{tc}|"), format!("state {i}: entry [{}] = {} is read back as {}", ix.v, want.show(), g.show())));
                    }
                }
            }
            (SVal::Arr { indices, .. }, InitValue::None) if indices.is_empty() => {}
            (_, g) => {
                return Some((format!("state-kind|{tc}|"), format!("state {i} ({tc}) is read back as {g:?}")));
            }
        }
    }
    // inputs
    if got.inputs.len() != spec.frames.len() {
        return Some(("frame-count||".into(), format!("{} frames written, {} read back", spec.frames.len(), got.inputs.len())));
    }
    for (k, f) in spec.frames.iter().enumerate() {
        if got.inputs[k].len() != f.len() {
            return Some(("input-count||".into(), format!("frame {k}: {} input values written, {} read back", f.len(), got.inputs[k].len())));
        }
        for (i, b) in f.iter().enumerate() {
            match &got.inputs[k][i] {
                Some(baa::Value::BitVec(g)) if baa_to_bv(g) == *b => {}
                o => return Some((format!("input-value|bv|{}", wclass(b.w)), format!("input {i} at step {k} = {} is read back as {o:?}", b.show()))),
            }
        }
    }
    if got.input_names.len() != spec.inputs.len() {
        return Some(("input-name-count||".into(), format!("{} inputs written, {} names read back", spec.inputs.len(), got.input_names.len())));
    }
    for (i, (name, w)) in spec.inputs.iter().enumerate() {
        let want = name.clone().unwrap_or(format!("input_{i}"));
        if got.input_names[i].as_deref() != Some(want.as_str()) {
            let f = (format!("input-name|||{}", name_class(name)), format!("input {i} (bv<{w}>) named `{want}` is read back as {:?}", got.input_names[i]));
            if name_class(name) == "name-at-hash" {
                deferred.get_or_insert(f);
            } else {
                return Some(f);
            }
        }
    }
    deferred
}

/// round trip of one witness; Ok(text) or failure (class, what)
pub fn check_one(spec: &WSpec) -> Result<String, (String, String)> {
    let w = spec.build();
    let text = match catch(|| witness_to_string(&w)) {
        Ok(t) => t,
        Err(p) => {
            // index-width class of the widest array state (baa cannot look up sparse entries above 64 bits)
            let ic = match spec.states.iter().filter_map(|(_, v)| if let SVal::Arr { iw, .. } = v { Some(*iw) } else { None }).max() {
                None => "",
                Some(iw) if iw <= 64 => "idx<=64",
                Some(_) => "idx65+",
            };
            return Err((format!("panic-print|{}|{ic}|", p.file()), format!("witness_to_string panicked: {} ({})", p.msg, p.short_loc())));
        }
    };
    let got = match catch(|| parse_witness(&mut text.as_bytes())) {
        Ok(Ok(g)) => g,
        Ok(Err(e)) => return Err(("read-error|||".into(), format!("parse_witness returned an error on the printed text: {e}"))),
        Err(p) => {
            let nc = spec.states.iter().map(|s| name_class(&s.0)).chain(spec.inputs.iter().map(|s| name_class(&s.0))).find(|c| *c == "name-at-hash").unwrap_or("");
            return Err((format!("panic-read|{}||{nc}", p.file()), format!("parse_witness panicked on the printed text `{}`: {} ({})", text.replace('\n', " / "), p.msg, p.short_loc())));
        }
    };
    if let Some((c, m)) = compare(spec, &got) {
        return Err((c, format!("{m}; text: `{}`", text.trim_end().replace('\n', " / "))));
    }
    // environment answers of the sink and the source: short writes (print_witness into a sink that takes at most n
    // bytes per call) and short reads (a buffered source that never holds more than n bytes) must change nothing
    for n in pvcore::chunkio::CHUNKS {
        let mut sink = pvcore::chunkio::ChunkWriter::new(n);
        match catch(|| patronus::btor2::print_witness(&mut sink, &w)) {
            Ok(Ok(())) => {}
            Ok(Err(e)) => return Err(("short-write-error|||".into(), format!("print_witness returned an error on a sink that accepts {n} byte(s) per call: {e}"))),
            Err(p) => return Err((format!("short-write-panic|{}||", p.file()), format!("print_witness panicked on a sink that accepts {n} byte(s) per call: {} ({})", p.msg, p.short_loc()))),
        }
        if sink.text() != text {
            return Err(("short-write-text|||".into(), format!("print_witness into a sink that accepts {n} byte(s) per call wrote `{}` instead of `{}`", sink.text().trim_end().replace('\n', " / "), text.trim_end().replace('\n', " / "))));
        }
        let mut src = pvcore::chunkio::ChunkReader::new(text.as_bytes(), n);
        match catch(|| parse_witness(&mut src)) {
            Ok(Ok(g)) => {
                if let Some((c, m)) = compare(spec, &g) {
                    return Err((format!("short-read-{c}"), format!("read through a source that yields {n} byte(s) at a time: {m}; text: `{}`", text.trim_end().replace('\n', " / "))));
                }
            }
            Ok(Err(e)) => return Err(("short-read-error|||".into(), format!("parse_witness returned an error when the source yields {n} byte(s) at a time: {e}"))),
            Err(p) => return Err((format!("short-read-panic|{}||", p.file()), format!("parse_witness panicked when the source yields {n} byte(s) at a time: {} ({})", p.msg, p.short_loc()))),
        }
    }
    Ok(text)
}

// ------------------------------------------------------------------ shrinking

fn shrink(spec: &WSpec, class: &str) -> WSpec {
    let same = |s: &WSpec| matches!(check_one(s), Err((c, _)) if c == class);
    let mut cur = spec.clone();
    let mut changed = true;
    while changed {
        changed = false;
        let mut cands: Vec<WSpec> = vec![];
        for i in 0..cur.states.len() {
            let mut c = cur.clone();
            c.states.remove(i);
            cands.push(c);
        }
        for i in 0..cur.inputs.len() {
            let mut c = cur.clone();
            c.inputs.remove(i);
            for f in c.frames.iter_mut() {
                f.remove(i);
            }
            cands.push(c);
        }
        if cur.frames.len() > 1 {
            for k in 0..cur.frames.len() {
                let mut c = cur.clone();
                c.frames.remove(k);
                cands.push(c);
            }
        }
        if cur.failed.len() > 1 {
            for k in 0..cur.failed.len() {
                let mut c = cur.clone();
                c.failed.remove(k);
                cands.push(c);
            }
        }
        if cur.failed != vec![0] {
            let mut c = cur.clone();
            c.failed = vec![0];
            cands.push(c);
        }
        for i in 0..cur.states.len() {
            if cur.states[i].0.is_some() {
                let mut c = cur.clone();
                c.states[i].0 = None;
                cands.push(c);
            }
            if let SVal::Arr { indices, stores, .. } = &cur.states[i].1 {
                for k in 0..indices.len() {
                    let mut c = cur.clone();
                    if let SVal::Arr { indices, .. } = &mut c.states[i].1 {
                        indices.remove(k);
                    }
                    cands.push(c);
                }
                for k in 0..stores.len() {
                    let mut c = cur.clone();
                    if let SVal::Arr { stores, .. } = &mut c.states[i].1 {
                        stores.remove(k);
                    }
                    cands.push(c);
                }
            }
        }
        for i in 0..cur.inputs.len() {
            if cur.inputs[i].0.is_some() {
                let mut c = cur.clone();
                c.inputs[i].0 = None;
                cands.push(c);
            }
        }
        for c in cands {
            if same(&c) {
                cur = c;
                changed = true;
                break;
            }
        }
    }
    cur
}

fn report(spec: &WSpec, order: u64, rep: &Report) -> bool {
    match check_one(spec) {
        Ok(_) => true,
        Err((class, _)) => {
            let min = shrink(spec, &class);
            let (c2, what) = match check_one(&min) {
                Err(x) => x,
                Ok(_) => unreachable!(),
            };
            rep.violation(Violation { sig: format!("C16|{c2}"), what, case: json!({"witness": min.to_json(), "found_in": spec.to_json()}), order });
            false
        }
    }
}

// ------------------------------------------------------------------ enumeration

#[derive(Clone, Copy, Debug, PartialEq)]
enum STy {
    Bv(u32),
    Arr(u32, u32),
}

const STYS: [STy; 7] = [STy::Bv(1), STy::Bv(3), STy::Bv(64), STy::Bv(65), STy::Arr(1, 2), STy::Arr(2, 1), STy::Arr(3, 8)];
const IWS: [u32; 4] = [1, 3, 64, 65];

fn bv_alphabet(w: u32) -> Vec<Bv> {
    if w <= 3 { all_values(w) } else { bnd_values(w) }
}

/// the array value alphabet of a type
fn arr_alphabet(iw: u32, dw: u32) -> Vec<SVal> {
    let ix = |v: u64| Bv::from_u64(iw, v);
    let max = (1u64 << iw) - 1;
    let d = |v: u64| Bv::from_u64(dw, v & ((1u64 << dw) - 1));
    let dmax = (1u64 << dw) - 1;
    let mut out = vec![];
    let index_lists: Vec<Vec<u64>> = {
        let mut v = vec![vec![], vec![0], vec![max], vec![0, max], vec![max, 0], vec![max, max], vec![0, max, 0]];
        if iw >= 2 {
            v.push(vec![0, 1, 2, 3]);
            v.push(vec![3, 1, 2, 0]);
            v.push(vec![2, 1]);
        }
        if iw >= 3 {
            v.push(vec![7, 5, 3, 1]);
            v.push(vec![4, 4, 6, 2]);
        }
        v
    };
    for idx in index_lists.iter() {
        // data patterns at the recorded indices: all zero, all ones, distinct, and "only the last nonzero"
        let pats: Vec<Box<dyn Fn(usize, u64) -> u64>> = vec![Box::new(|_, _| 0), Box::new(move |_, _| dmax), Box::new(|k, i| (i + k as u64 + 1)), Box::new(move |k, _| if k == 0 { 0 } else { dmax })];
        for (pi, p) in pats.iter().enumerate() {
            for (default, dense) in [(0u64, false), (dmax, false), (1, true)] {
                if idx.is_empty() && pi > 0 {
                    continue;
                }
                let mut stores = vec![];
                let mut seen = BTreeMap::new();
                for (k, i) in idx.iter().enumerate() {
                    // one value per index (an array is a function)
                    let val = *seen.entry(*i).or_insert_with(|| p(k, *i));
                    stores.push((ix(*i), d(val)));
                }
                // an entry that is stored but not recorded must not matter
                if iw >= 2 && !idx.contains(&1) && pi == 2 {
                    stores.push((ix(1), d(dmax)));
                }
                out.push(SVal::Arr { iw, dw, default: d(default), stores, indices: idx.iter().map(|i| ix(*i)).collect(), dense });
            }
        }
    }
    out
}

fn state_alphabet(t: STy) -> Vec<SVal> {
    match t {
        STy::Bv(w) => bv_alphabet(w).into_iter().map(SVal::Bv).collect(),
        STy::Arr(i, d) => arr_alphabet(i, d),
    }
}

fn names(kind: usize, prefix: &str, i: usize) -> Option<String> {
    match kind {
        0 => None,
        1 => Some(format!("{prefix}{i}")),
        2 => Some(format!("${prefix}.a[{i}]")),
        3 => Some(format!("{prefix}@b{i}")),
        _ => Some(format!("{prefix}#{i}")),
    }
}

pub fn enumerate(thorough: bool) -> Vec<WSpec> {
    let mut out: Vec<WSpec> = vec![];
    let failed_sets: Vec<Vec<u32>> = vec![vec![0], vec![1], vec![7], vec![0, 1], vec![0, 7], vec![1, 7], vec![0, 1, 7], vec![7, 0]];
    let name_kinds: Vec<usize> = vec![0, 1, 2, 3, 4];
    // (a) value sweep: every value of every state type / input width, alone and next to a neighbour
    for t in STYS {
        for (vi, v) in state_alphabet(t).into_iter().enumerate() {
            for nk in [0usize, 1, 2] {
                out.push(WSpec { failed: vec![0], states: vec![(names(nk, "s", 0), v.clone())], inputs: vec![], frames: vec![vec![]] });
            }
            // as second state after a bv1 state, with one input
            out.push(WSpec {
                failed: failed_sets[vi % failed_sets.len()].clone(),
                states: vec![(names(1, "s", 0), SVal::Bv(Bv::from_u64(1, (vi % 2) as u64))), (names(2, "s", 1), v.clone())],
                inputs: vec![(names(1, "i", 0), 3)],
                frames: vec![vec![Bv::from_u64(3, (vi % 8) as u64)], vec![Bv::from_u64(3, ((vi + 3) % 8) as u64)]],
            });
        }
    }
    for w in IWS {
        let al = bv_alphabet(w);
        for (vi, v) in al.iter().enumerate() {
            for nk in [0usize, 1, 2] {
                // value in frame 0, in frame 1 of 2, and as second input
                out.push(WSpec { failed: vec![1], states: vec![], inputs: vec![(names(nk, "i", 0), w)], frames: vec![vec![v.clone()]] });
                out.push(WSpec { failed: vec![7], states: vec![], inputs: vec![(names(nk, "i", 0), w)], frames: vec![vec![al[(vi + 1) % al.len()].clone()], vec![v.clone()]] });
                out.push(WSpec {
                    failed: vec![0, 7],
                    states: vec![(names(nk, "s", 0), SVal::Bv(v.clone()))],
                    inputs: vec![(names(1, "a", 0), 1), (names(nk, "i", 1), w)],
                    frames: vec![vec![Bv::from_u64(1, 1), v.clone()], vec![Bv::from_u64(1, 0), al[(vi + 2) % al.len()].clone()], vec![Bv::from_u64(1, 1), v.clone()]],
                });
            }
        }
    }
    // (b) shape product: state types x input widths x frames x failed sets x name kinds, values
    //     rotate through the alphabets with the enumeration index
    let mut state_cfgs: Vec<Vec<STy>> = vec![vec![]];
    for a in STYS {
        state_cfgs.push(vec![a]);
    }
    for a in STYS {
        for b in STYS {
            state_cfgs.push(vec![a, b]);
        }
    }
    let mut input_cfgs: Vec<Vec<u32>> = vec![vec![]];
    for a in IWS {
        input_cfgs.push(vec![a]);
    }
    for a in IWS {
        for b in IWS {
            input_cfgs.push(vec![a, b]);
        }
    }
    let alph: BTreeMap<String, Vec<SVal>> = STYS.iter().map(|t| (format!("{t:?}"), state_alphabet(*t))).collect();
    let mut n = 0usize;
    for sc in state_cfgs.iter() {
        for ic in input_cfgs.iter() {
            for nframes in 0..=3usize {
                // a zero-step witness has no place for input names, and without states no frame at all
                if nframes == 0 && (!ic.is_empty() || sc.is_empty()) {
                    continue;
                }
                for (fi, failed) in failed_sets.iter().enumerate() {
                    // quick: failed sets rotate with the shape; thorough: full product
                    if !thorough && (fi + n) % 4 != 0 {
                        n += 1;
                        continue;
                    }
                    for &nk in name_kinds.iter() {
                        n += 1;
                        let states: Vec<(Option<String>, SVal)> = sc
                            .iter()
                            .enumerate()
                            .map(|(i, t)| {
                                let a = &alph[&format!("{t:?}")];
                                (names(if i == 0 { nk } else { (nk + 1) % 3 }, "s", i), a[(n * 7 + i * 3) % a.len()].clone())
                            })
                            .collect();
                        let inputs: Vec<(Option<String>, u32)> = ic.iter().enumerate().map(|(i, w)| (names(if i == 1 { nk } else { (nk + 2) % 3 }, "in", i), *w)).collect();
                        let frames: Vec<Vec<Bv>> = (0..nframes)
                            .map(|k| {
                                ic.iter()
                                    .enumerate()
                                    .map(|(i, w)| {
                                        let a = bv_alphabet(*w);
                                        a[(n * 5 + k * 11 + i) % a.len()].clone()
                                    })
                                    .collect()
                            })
                            .collect();
                        out.push(WSpec { failed: failed.clone(), states, inputs, frames });
                    }
                }
            }
        }
    }
    // (c) thorough: all pairs of state values for every pair of state types, and all pairs of
    //     first-frame values for every pair of input widths
    if thorough {
        for a in STYS {
            for b in STYS {
                let (aa, ab) = (state_alphabet(a), state_alphabet(b));
                for (i, x) in aa.iter().enumerate() {
                    for (j, y) in ab.iter().enumerate() {
                        out.push(WSpec {
                            failed: failed_sets[(i + j) % failed_sets.len()].clone(),
                            states: vec![(names((i + j) % 3, "p", 0), x.clone()), (names((i + 2 * j) % 3, "q", 1), y.clone())],
                            inputs: vec![],
                            frames: vec![vec![]],
                        });
                    }
                }
            }
        }
        for a in IWS {
            for b in IWS {
                let (aa, ab) = (bv_alphabet(a), bv_alphabet(b));
                for (i, x) in aa.iter().enumerate() {
                    for (j, y) in ab.iter().enumerate() {
                        out.push(WSpec {
                            failed: vec![0],
                            states: vec![],
                            inputs: vec![(names(i % 3, "u", 0), a), (names(j % 3, "v", 1), b)],
                            frames: vec![vec![x.clone(), y.clone()], vec![y.clone().extract(a.min(b) - 1, 0).zext(a - a.min(b)), x.clone().extract(a.min(b) - 1, 0).zext(b - a.min(b))]],
                        });
                    }
                }
            }
        }
    }
    // (d) zero-step witnesses (initial frame only) and array states with wide indices (sparse only)
    for nk in [0usize, 1, 2] {
        out.push(WSpec { failed: vec![0], states: vec![(names(nk, "s", 0), SVal::Bv(Bv::from_u64(3, 5)))], inputs: vec![], frames: vec![] });
        out.push(WSpec { failed: vec![1, 7], states: vec![(names(nk, "s", 0), SVal::Bv(Bv::from_u64(1, 1))), (names(1, "m", 1), arr_alphabet(2, 1)[9].clone())], inputs: vec![], frames: vec![] });
    }
    for iw in [8u32, 32, 63, 64, 65, 128] {
        for dw in [1u32, 3] {
            let top = Bv::new(iw, pvcore::bv::pow2(iw - 1));
            let max = Bv::ones(iw);
            let idx = [Bv::zero(iw), max.clone(), top.clone(), Bv::from_u64(iw, 5)];
            for (k, (default, n_idx)) in [(0u64, 4usize), (1, 2), (0, 1), (1, 0)].into_iter().enumerate() {
                let indices: Vec<Bv> = idx.iter().skip(k % 2).take(n_idx).cloned().collect();
                let stores: Vec<(Bv, Bv)> = indices.iter().enumerate().map(|(j, i)| (i.clone(), Bv::from_u64(dw, ((j + k) % 2) as u64 * ((1u64 << dw) - 1)))).collect();
                let arr = SVal::Arr { iw, dw, default: Bv::from_u64(dw, default), stores, indices, dense: false };
                out.push(WSpec { failed: vec![0], states: vec![(names(1, "s", 0), SVal::Bv(Bv::from_u64(3, 2))), (names(k % 3, "mem", 1), arr.clone()), (names(1, "t", 2), SVal::Bv(Bv::from_u64(1, 1)))], inputs: vec![(names(1, "i", 0), 3)], frames: vec![vec![Bv::from_u64(3, 1)], vec![Bv::from_u64(3, 6)]] });
                out.push(WSpec { failed: vec![1], states: vec![(names(2, "mem", 0), arr)], inputs: vec![], frames: vec![vec![]] });
            }
        }
    }
    // (f) name classes: names that end in a step marker, carry a step-like suffix, or contain blanks that are not
    // the separators of the format (no-break space, ideographic space), as state name (bit-vector and array), as
    // input name, in a witness with and without steps
    for name in ["en#", "x@", "a@@", "q#@", "x@1", "y#0", "@", "#", "a@1#2", "a\u{a0}b", "a\u{3000}b", "\u{a0}", "é@", "a=b", "[3]", "0", "-1"] {
        let nm = Some(name.to_string());
        out.push(WSpec { failed: vec![0], states: vec![(nm.clone(), SVal::Bv(Bv::from_u64(3, 5)))], inputs: vec![(Some("i".into()), 1)], frames: vec![vec![Bv::from_u64(1, 1)]] });
        out.push(WSpec { failed: vec![0], states: vec![(Some("s".into()), SVal::Bv(Bv::from_u64(3, 5)))], inputs: vec![(nm.clone(), 3)], frames: vec![vec![Bv::from_u64(3, 6)], vec![Bv::from_u64(3, 1)]] });
        out.push(WSpec { failed: vec![1], states: vec![(nm.clone(), arr_alphabet(2, 1)[9].clone()), (Some("t".into()), SVal::Bv(Bv::from_u64(1, 1)))], inputs: vec![], frames: vec![vec![]] });
        out.push(WSpec { failed: vec![7], states: vec![(nm.clone(), SVal::Bv(Bv::from_u64(1, 1)))], inputs: vec![], frames: vec![] });
    }
    // (e) many of everything: two-digit state / input / frame / property numbers, and values wider than two words
    {
        let ns = 12usize;
        let states: Vec<(Option<String>, SVal)> = (0..ns)
            .map(|i| {
                let v = match i % 4 {
                    0 => SVal::Bv(Bv::from_u64(3, (i % 8) as u64)),
                    1 => SVal::Bv(Bv::new(129, pvcore::bv::pow2(128) + num_bigint::BigUint::from(i as u64))),
                    2 => arr_alphabet(2, 1)[(i * 5) % 20].clone(),
                    _ => SVal::Bv(Bv::new(192, pvcore::bv::pow2(191) + pvcore::bv::pow2(64) + num_bigint::BigUint::from(7u32))),
                };
                (names(1 + i % 2, "s", i), v)
            })
            .collect();
        let widths = [1u32, 3, 64, 65, 128, 129, 200, 3, 1, 64, 3];
        let inputs: Vec<(Option<String>, u32)> = widths.iter().enumerate().map(|(i, w)| (names(1 + i % 2, "in", i), *w)).collect();
        let frames: Vec<Vec<Bv>> = (0..12usize)
            .map(|k| {
                widths
                    .iter()
                    .enumerate()
                    .map(|(i, w)| {
                        let a = bv_alphabet(*w);
                        a[(k * 7 + i * 3) % a.len()].clone()
                    })
                    .collect()
            })
            .collect();
        out.push(WSpec { failed: vec![10, 123, 7], states: states.clone(), inputs: inputs.clone(), frames: frames.clone() });
        out.push(WSpec { failed: vec![11], states: states[..11].to_vec(), inputs: inputs[..10].to_vec(), frames: frames.iter().take(11).map(|f| f[..10].to_vec()).collect() });
        out.push(WSpec { failed: vec![4294967295], states: vec![], inputs: inputs.clone(), frames });
    }
    out
}

/// reduced set for concatenation
fn concat_base() -> Vec<WSpec> {
    let arr = arr_alphabet(2, 1);
    vec![
        WSpec { failed: vec![0], states: vec![], inputs: vec![], frames: vec![vec![]] },
        WSpec { failed: vec![1], states: vec![(Some("z".into()), SVal::Bv(Bv::from_u64(3, 6)))], inputs: vec![], frames: vec![] },
        WSpec { failed: vec![1, 7], states: vec![(Some("s".into()), SVal::Bv(Bv::from_u64(3, 5)))], inputs: vec![], frames: vec![vec![], vec![]] },
        WSpec { failed: vec![7], states: vec![], inputs: vec![(None, 1)], frames: vec![vec![Bv::from_u64(1, 1)], vec![Bv::from_u64(1, 0)]] },
        WSpec { failed: vec![0, 1], states: vec![(None, arr[arr.len() / 2].clone()), (Some("$x.y[1]".into()), SVal::Bv(Bv::from_u64(65, 1 << 40)))], inputs: vec![(Some("i".into()), 64), (Some("j".into()), 3)], frames: vec![vec![Bv::from_u64(64, u64::MAX), Bv::from_u64(3, 2)]] },
        WSpec { failed: vec![1], states: vec![(Some("m".into()), arr[7].clone())], inputs: vec![(Some("k".into()), 3)], frames: vec![vec![Bv::from_u64(3, 0)], vec![Bv::from_u64(3, 7)], vec![Bv::from_u64(3, 1)]] },
        WSpec { failed: vec![0, 1, 7], states: vec![(Some("b".into()), SVal::Bv(Bv::from_u64(1, 0))), (Some("c".into()), SVal::Bv(Bv::from_u64(1, 1)))], inputs: vec![], frames: vec![vec![]] },
    ]
}

fn check_concat(specs: &[WSpec]) -> Result<String, (String, String)> {
    let mut text = String::new();
    for s in specs {
        text += &witness_to_string(&s.build());
    }
    let shown = text.trim_end().replace('\n', " / ");
    for n in [1usize, specs.len(), specs.len() + 1] {
        let want = n.min(specs.len());
        let got = match catch(|| parse_witnesses(&mut text.as_bytes(), n)) {
            Ok(Ok(g)) => g,
            Ok(Err(e)) => return Err(("concat-read-error|||".into(), format!("parse_witnesses({n}) returned an error: {e}; text `{shown}`"))),
            Err(p) => return Err((format!("concat-panic-read|{}||", p.file()), format!("parse_witnesses({n}) panicked: {} ({}); text `{shown}`", p.msg, p.short_loc()))),
        };
        if got.len() != want {
            return Err(("concat-count|||".into(), format!("parse_witnesses({n}) on {} concatenated witnesses returned {} instead of {want}; text `{shown}`", specs.len(), got.len())));
        }
        for (k, (s, g)) in specs.iter().zip(got.iter()).enumerate() {
            if let Some((c, m)) = compare(s, g) {
                return Err((format!("concat-{c}"), format!("witness #{k} of {} read with parse_witnesses({n}): {m}; text `{shown}`", specs.len())));
            }
        }
    }
    // parse_witness = first one
    match catch(|| parse_witness(&mut text.as_bytes())) {
        Ok(Ok(g)) => {
            if let Some((c, m)) = compare(&specs[0], &g) {
                return Err((format!("concat-first-{c}"), format!("parse_witness on a stream: {m}; text `{shown}`")));
            }
        }
        Ok(Err(e)) => return Err(("concat-read-error|||".into(), format!("parse_witness returned an error: {e}"))),
        Err(p) => return Err((format!("concat-panic-read|{}||", p.file()), format!("parse_witness panicked on a stream: {} ({})", p.msg, p.short_loc()))),
    }
    Ok(text)
}

pub fn run(opts: &Opts, rep: &Report) {
    let tier = match opts.mode {
        Mode::Run(t) => t,
        _ => unreachable!(),
    };
    let budget = Budget::new(opts.budget_s);
    let specs = enumerate(tier.is_thorough());
    // ---- vacuity guards (enumerator side)
    {
        let mut kinds = BTreeSet::new();
        let mut idx_counts = BTreeSet::new();
        let mut zero_data = false;
        let mut repeated = false;
        let mut unsorted = false;
        for s in specs.iter() {
            for (n, v) in s.states.iter() {
                kinds.insert(name_class(n));
                if let SVal::Arr { indices, .. } = v {
                    idx_counts.insert(indices.len());
                    let a = arr_of(v);
                    zero_data |= indices.iter().any(|i| a.select(i).is_zero());
                    repeated |= indices.iter().collect::<BTreeSet<_>>().len() < indices.len();
                    unsorted |= indices.windows(2).any(|w| w[0] > w[1]);
                }
            }
            for (n, _) in s.inputs.iter() {
                kinds.insert(name_class(n));
            }
        }
        if kinds.len() != 4 || !idx_counts.contains(&0) || !idx_counts.contains(&4) || !zero_data || !repeated || !unsorted {
            crate::util::machinery_failure(&format!("C16 enumerator degenerate: name classes {kinds:?}, index counts {idx_counts:?}, zero data {zero_data}, repeated {repeated}, unsorted {unsorted}"));
        }
        if !specs.iter().any(|s| s.frames.len() == 3) || !specs.iter().any(|s| s.states.len() == 2 && s.inputs.len() == 2) {
            crate::util::machinery_failure("C16 enumerator never produced 3 frames / 2 states with 2 inputs");
        }
    }
    rep.note("space", json!({"witnesses": specs.len()}));
    for s in [&specs[3], &specs[specs.len() / 2]] {
        rep.sample(json!({"witness": s.to_json(), "text": witness_to_string(&s.build())}));
    }
    let chunk = 4096;
    for (ci, ch) in specs.chunks(chunk).enumerate() {
        if budget.exceeded() {
            rep.cap_hit(&format!("budget reached after {} of {} witnesses", ci * chunk, specs.len()));
            break;
        }
        let res: Vec<Option<u64>> = ch
            .par_iter()
            .enumerate()
            .map(|(i, s)| match check_one(s) {
                Ok(t) => Some(hash64(&t)),
                Err(_) => {
                    report(s, (ci * chunk + i) as u64, rep);
                    None
                }
            })
            .collect();
        rep.add("evaluations", ch.len() as u64);
        rep.add("outcome:equal", res.iter().filter(|r| r.is_some()).count() as u64);
        rep.add("outcome:fail", res.iter().filter(|r| r.is_none()).count() as u64);
        rep.distinct_hashes(&res.iter().flatten().copied().collect::<Vec<_>>());
    }
    // ---- concatenations of 1..3 witnesses
    let base = concat_base();
    let mut seqs: Vec<Vec<usize>> = vec![];
    for a in 0..base.len() {
        seqs.push(vec![a]);
        for b in 0..base.len() {
            seqs.push(vec![a, b]);
            for c in 0..base.len() {
                seqs.push(vec![a, b, c]);
            }
        }
    }
    if tier.is_thorough() {
        // streams over a wider base: every 97th enumerated witness
        let wide: Vec<&WSpec> = specs.iter().step_by(97).filter(|s| check_one(s).is_ok()).take(40).collect();
        let off = specs.len() as u64;
        let nw = wide.len();
        let pairs: Vec<(usize, usize, usize)> = (0..nw).flat_map(|a| (0..nw).flat_map(move |b| (0..nw).map(move |c| (a, b, c)))).collect();
        let fails: Vec<(u64, (String, String), Value)> = pairs
            .par_iter()
            .enumerate()
            .filter_map(|(i, (a, b, c))| {
                let v = vec![wide[*a].clone(), wide[*b].clone(), wide[*c].clone()];
                check_concat(&v).err().map(|e| (off + 1000 + i as u64, e, json!({"stream": v.iter().map(|s| s.to_json()).collect::<Vec<_>>()})))
            })
            .collect();
        rep.add("evaluations", pairs.len() as u64);
        rep.add("streams", pairs.len() as u64);
        for (order, (c, what), case) in fails {
            rep.violation(Violation { sig: format!("C16|{c}"), what, case, order });
        }
    }
    let off = specs.len() as u64;
    let res: Vec<Result<u64, (u64, (String, String), Value)>> = seqs
        .par_iter()
        .enumerate()
        .map(|(i, q)| {
            let v: Vec<WSpec> = q.iter().map(|k| base[*k].clone()).collect();
            match check_concat(&v) {
                Ok(t) => Ok(hash64(&t)),
                Err(e) => Err((off + i as u64, e, json!({"stream": v.iter().map(|s| s.to_json()).collect::<Vec<_>>()}))),
            }
        })
        .collect();
    rep.add("evaluations", seqs.len() as u64);
    rep.add("streams", seqs.len() as u64);
    let mut hs = vec![];
    for r in res {
        match r {
            Ok(h) => hs.push(h),
            Err((order, (c, what), case)) => {
                rep.add("outcome:fail", 1);
                rep.violation(Violation { sig: format!("C16|{c}"), what, case, order });
            }
        }
    }
    rep.distinct_hashes(&hs);
}

pub fn replay(case: &Value, rep: &Report) {
    if let Some(st) = case.get("stream") {
        let v: Vec<WSpec> = st.as_array().unwrap().iter().map(WSpec::from_json).collect();
        if let Err((c, what)) = check_concat(&v) {
            rep.violation(Violation { sig: format!("C16|{c}"), what, case: case.clone(), order: 0 });
        }
    } else {
        let s = WSpec::from_json(&case["witness"]);
        report(&s, 0, rep);
    }
}
