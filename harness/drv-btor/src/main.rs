use pvcore::run::*;

fn main() {
    main_with(&[])
}
