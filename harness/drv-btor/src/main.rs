//! Drivers for the btor2 front-end properties: C08, C09, C16, C18.
mod btorref;
mod c08;
mod c09;
mod c16;
mod c18;
mod util;

use pvcore::run::*;

fn main() {
    let args: Vec<String> = std::env::args().collect();
    if args.len() >= 3 && args[1] == "--c18-worker" {
        c18::worker_main(&args);
    }
    main_with(&[
        Entry { id: "C08", level: "exploration", meta: c08::meta, run: c08::run, replay: c08::replay },
        Entry { id: "C09", level: "exploration", meta: c09::meta, run: c09::run, replay: c09::replay },
        Entry { id: "C16", level: "exploration", meta: c16::meta, run: c16::run, replay: c16::replay },
        Entry { id: "C18", level: "exploration", meta: c18::meta, run: c18::run, replay: c18::replay },
    ])
}
