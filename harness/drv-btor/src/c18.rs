//! C18 — the btor2 reader rejects bad input cleanly and only accepts well-typed systems.
//!
//! Every text is run in a worker subprocess (address-space cap, per-text deadline, stderr to
//! /dev/null); many texts per worker. The worker runs `parse_str` under `catch` and, when a system
//! comes back, the acceptance oracle; the parent classifies, signs and shrinks.

use crate::btorref::{self, Sort};
use crate::util::*;
use patronus::expr::{Context, Type, TypeCheck};
use patronus::system::TransitionSystem;
use pvcore::evalref::*;
use pvcore::run::*;
use rayon::prelude::*;
use serde_json::{Value, json};
use std::collections::{BTreeMap, BTreeSet};
use std::io::{BufRead, Write};
use std::sync::atomic::{AtomicU64, Ordering};

/// limits of a worker: (address-space cap in bytes, per-text deadline in seconds).
/// Normal texts parse in tens of microseconds: 1 GiB / 10 s. "Heavy" texts declare a bit-vector
/// sort of 2^24 bits or more; materialising a literal of 2^32-1 bits legitimately needs > 1 GiB
/// and tens of seconds, so in the thorough tier they get 8 GiB / 120 s (and run 4 at a time).
pub static THOROUGH: std::sync::atomic::AtomicBool = std::sync::atomic::AtomicBool::new(false);
pub fn limits(heavy: bool) -> (u64, u64) {
    if heavy && THOROUGH.load(Ordering::Relaxed) { (8 << 30, 120) } else { (1 << 30, 10) }
}

/// grammar-level test: some `sort bitvec` line declares at least 2^24 bits
pub fn is_heavy(text: &str) -> bool {
    text.lines().any(|l| {
        let t: Vec<&str> = l.split(';').next().unwrap_or("").split([' ', '\t']).filter(|x| !x.is_empty()).collect();
        t.len() >= 4 && t[1] == "sort" && t[2] == "bitvec" && t[3].parse::<u64>().map(|w| w >= (1 << 24)).unwrap_or(false)
    })
}

/// grammar-level test: the text has a constant line
pub fn has_literal_line(text: &str) -> bool {
    text.lines().any(|l| {
        let t: Vec<&str> = l.split(';').next().unwrap_or("").split([' ', '\t']).filter(|x| !x.is_empty()).collect();
        t.len() >= 2 && ["const", "constd", "consth", "zero", "one", "ones"].contains(&t[1])
    })
}

pub fn meta(rep: &mut Report) {
    rep.rule = "mutation with deviation bound over a corpus of 12 small valid btor2 files that together use every line kind: delete / duplicate / swap lines; every token (id, tag, sort id, operand, parameter, symbol) deleted or replaced by every element of a hostile menu (every other id of the file and its negation, 0, -0, 1, 2^31, 2^32-1, 2^32, 2^63, 2^64, -, x, e-acute, 1✖2, every tag name incl. the unsupported ones); layout (CRLF, tabs, blank lines, padding, no final newline, empty file, comment markers before/after every token, NUL bytes, 3000-fold repeated tokens); width 0; slice bounds reversed / out of range; array sorts over array sorts; grammar-generated ill-sorted lines (operator x every operand-kind combination x every declared sort). quick: all single mutations + the reduced ill-sorted grammar; thorough: additionally all pairs of mutations on the 6 smallest files (reduced menu) and the full ill-sorted grammar. Each text runs in a worker subprocess (address-space cap, deadline). Outcome must be None, Some(sys) with sys passing the acceptance oracle, or a panic carrying one of the reader's documented not-yet-supported markers. distinct_nontrivial = distinct texts for which the reader returned a system.".into();
    rep.assumptions = vec![
        "allowed panics: parse.rs todo!(\"support fairness constraints\"), todo!(\"Add support for bit rotates.\"), todo!(\"Add support for overflow operators\"), \"TODO: implement support for <op> operation\", \"unexpected unary op: inc|dec\" — only when raised in btor2/parse.rs".into(),
        "worker limits: address-space cap 1 GiB and 10 s per text (normal run time is tens of microseconds); texts declaring a sort of >= 2^24 bits (`heavy`) get 8 GiB / 120 s in the thorough tier and run last, 4 at a time; the quick tier produces heavy texts only from the three smallest corpus files (materialising a 2^32-1-bit literal legitimately needs > 1 GiB and 10-70 s) and counts what it dropped; a deadline on a normal text is a violation once the text timed out twice; a heavy text that exceeds its deadline is counted and listed in the evidence (`heavy_texts_over_deadline`) but is not a verdict (cost proportional to the declared width; a verdict would depend on machine load); an abort (allocation beyond the cap) is a violation for every text".into(),
        "acceptance oracle: deep reference type check of every init/next/output/bad/constraint, init/next type = state type, inputs and state symbols are symbols, every symbol used is a declared input or state, bad/constraint are 1 bit wide, and when the text is well-formed for the reference reader the sorts of inputs/states/outputs equal the declared ones".into(),
    ];
}

// ------------------------------------------------------------------ markers

/// documented not-yet-supported markers of the reader (parse.rs); returns the marker class
pub fn allowed_marker(msg: &str) -> Option<&'static str> {
    if msg == "not yet implemented: support fairness constraints" {
        Some("fair")
    } else if msg == "not yet implemented: Add support for bit rotates." {
        Some("rotate")
    } else if msg == "not yet implemented: Add support for overflow operators" {
        Some("overflow-op")
    } else if msg.starts_with("TODO: implement support for ") {
        Some("todo-op")
    } else if msg == "unexpected unary op: inc" || msg == "unexpected unary op: dec" {
        Some("inc-dec")
    } else {
        None
    }
}

// ------------------------------------------------------------------ acceptance oracle (runs in the worker)

pub fn acceptance_oracle(ctx: &Context, sys: &TransitionSystem, text: &str) -> Option<(String, String)> {
    let mut memo = rustc_hash::FxHashMap::default();
    let mut ty = |e, what: &str| -> Result<Type, (String, String)> { type_ref_memo(ctx, e, &mut memo).map_err(|m| ("illtyped".to_string(), format!("{what} is ill-typed: {m}"))) };
    let r = (|| -> Result<(), (String, String)> {
        let mut declared = vec![];
        for (k, i) in sys.inputs.iter().enumerate() {
            if !ctx[*i].is_symbol() {
                return Err(("input-not-symbol".into(), format!("input #{k} is not a symbol")));
            }
            ty(*i, &format!("input #{k}"))?;
            declared.push(*i);
        }
        for (k, s) in sys.states.iter().enumerate() {
            if !ctx[s.symbol].is_symbol() {
                return Err(("state-not-symbol".into(), format!("state #{k} is not a symbol")));
            }
            let st = ty(s.symbol, &format!("state #{k}"))?;
            declared.push(s.symbol);
            if let Some(e) = s.init {
                let t = ty(e, &format!("init of state #{k}"))?;
                if t != st {
                    return Err(("init-type".into(), format!("init of state #{k} has type {t}, the state has {st}")));
                }
            }
            if let Some(e) = s.next {
                let t = ty(e, &format!("next of state #{k}"))?;
                if t != st {
                    return Err(("next-type".into(), format!("next of state #{k} has type {t}, the state has {st}")));
                }
            }
        }
        for (k, o) in sys.outputs.iter().enumerate() {
            ty(o.expr, &format!("output #{k}"))?;
        }
        for (k, e) in sys.bad_states.iter().enumerate() {
            let t = ty(*e, &format!("bad #{k}"))?;
            if t != Type::BV(1) {
                return Err(("bad-width".into(), format!("bad #{k} has type {t}, a bad-state property must be 1 bit wide")));
            }
        }
        for (k, e) in sys.constraints.iter().enumerate() {
            let t = ty(*e, &format!("constraint #{k}"))?;
            if t != Type::BV(1) {
                return Err(("constraint-width".into(), format!("constraint #{k} has type {t}, a constraint must be 1 bit wide")));
            }
        }
        let mut roots = vec![];
        for s in sys.states.iter() {
            roots.extend(s.init);
            roots.extend(s.next);
        }
        roots.extend(sys.outputs.iter().map(|o| o.expr));
        roots.extend(sys.bad_states.iter());
        roots.extend(sys.constraints.iter());
        for s in symbols_of(ctx, &roots) {
            if !declared.contains(&s) {
                return Err(("undeclared-symbol".into(), format!("symbol `{}` is used but is neither an input nor a state", ctx.get_symbol_name(s).unwrap_or("?"))));
            }
        }
        // patronus' own checker must agree on every node
        for n in nodes_of(ctx, &roots) {
            if let Err(e) = n.type_check(ctx) {
                return Err(("typecheck".into(), format!("a node of the accepted system fails patronus' own type_check: {}", e.get_msg())));
            }
        }
        // declared sorts, when the reference reader can tell them
        if !is_heavy(text)
            && let Ok(f) = btorref::parse(text)
        {
            let ei = f.effective_inputs();
            let es = f.effective_states();
            if ei.len() == sys.inputs.len() && es.len() == sys.states.len() && f.outputs.len() == sys.outputs.len() {
                for (k, id) in ei.iter().enumerate() {
                    let want = sort_ty(f.sort_of(*id)).to_patronus();
                    let got = sys.inputs[k].get_type(ctx);
                    if want != got {
                        return Err(("declared-sort".into(), format!("input #{k} is declared {want} but has type {got}")));
                    }
                }
                for (k, st) in es.iter().enumerate() {
                    let want = sort_ty(st.sort).to_patronus();
                    let got = sys.states[k].symbol.get_type(ctx);
                    if want != got {
                        return Err(("declared-sort".into(), format!("state #{k} is declared {want} but has type {got}")));
                    }
                }
                for (k, (o, _)) in f.outputs.iter().enumerate() {
                    let want = sort_ty(f.sort_of(o.id)).to_patronus();
                    let got = sys.outputs[k].expr.get_type(ctx);
                    if want != got {
                        return Err(("output-width".into(), format!("output #{k} refers to a node declared {want} but has type {got}")));
                    }
                }
            } else {
                return Err(("count".into(), "numbers of inputs/states/outputs differ from the text".into()));
            }
        } else if !is_heavy(text) {
            // the reference reader rejects the text (so the comparison above is not available), the subject accepted
            // it: the widths the text declares for the nodes behind its `output` lines are still readable
            // line by line (first line with that id; its sort id; that sort line)
            let lines: Vec<Vec<&str>> = text.lines().map(|l| l.split(';').next().unwrap_or("").split([' ', '\t']).filter(|x| !x.is_empty()).collect()).collect();
            // (an id that the text declares more than once has no single declared sort: not judged)
            let line_of = |id: &str| {
                let mut it = lines.iter().filter(|t| t.len() >= 2 && t[0] == id);
                let first = it.next();
                if it.next().is_some() { None } else { first }
            };
            let declared_ty = |id: &str| -> Option<Type> {
                let t = line_of(id)?;
                if t.len() < 3 || t[1] == "sort" {
                    return None;
                }
                let srt = line_of(t[2])?;
                match (srt.get(1), srt.get(2)) {
                    (Some(&"sort"), Some(&"bitvec")) => srt.get(3)?.parse::<u32>().ok().map(Type::BV),
                    _ => None,
                }
            };
            let outs: Vec<&Vec<&str>> = lines.iter().filter(|t| t.len() >= 3 && t[1] == "output").collect();
            if outs.len() == sys.outputs.len() {
                for (k, t) in outs.iter().enumerate() {
                    let id = t[2].trim_start_matches('-');
                    if let Some(want) = declared_ty(id) {
                        let got = sys.outputs[k].expr.get_type(ctx);
                        if want != got && got.is_bit_vector() {
                            return Err(("output-width".into(), format!("output #{k} refers to line {id}, which the text declares as {want}, but the output has type {got}")));
                        }
                    }
                }
            }
        }
        Ok(())
    })();
    r.err()
}

// ------------------------------------------------------------------ worker

#[derive(Clone, Debug, PartialEq)]
pub enum Kind {
    None,
    Some,
    Panic,
    Abort,
    Deadline,
}

#[derive(Clone, Debug)]
pub struct WRes {
    pub kind: Kind,
    pub msg: String,
    pub loc: String,
    /// 0-based index of the first line whose prefix already panics
    pub fail_line: Option<usize>,
    /// acceptance oracle failure (class, message)
    pub check: Option<(String, String)>,
    /// verdict of the reference reader on the text (class name or "ok")
    pub refclass: String,
}

fn run_one_inproc(text: &str) -> WRes {
    let refclass = if is_heavy(text) {
        "heavy-not-classified".to_string()
    } else {
        match btorref::parse(text) {
            Ok(_) => "ok".to_string(),
            Err(e) => e.class().to_string(),
        }
    };
    let mut ctx = Context::default();
    match catch(|| patronus::btor2::parse_str(&mut ctx, text, Some("c18"))) {
        Ok(None) => WRes { kind: Kind::None, msg: String::new(), loc: String::new(), fail_line: None, check: None, refclass },
        Ok(Some(sys)) => {
            let check = match catch(|| acceptance_oracle(&ctx, &sys, text)) {
                Ok(c) => c,
                Err(p) => Some(("oracle-panic".to_string(), format!("the acceptance oracle could not inspect the system: {} ({})", p.msg, p.short_loc()))),
            };
            WRes { kind: Kind::Some, msg: String::new(), loc: String::new(), fail_line: None, check, refclass }
        }
        Err(p) => {
            // first prefix that panics at the same place
            let lines: Vec<&str> = text.split('\n').collect();
            let mut fail_line = None;
            for k in 1..=lines.len() {
                let prefix = lines[..k].join("\n");
                let mut c2 = Context::default();
                if let Err(p2) = catch(|| patronus::btor2::parse_str(&mut c2, &prefix, Some("c18")))
                    && p2.loc == p.loc
                {
                    fail_line = Some(k - 1);
                    break;
                }
            }
            WRes { kind: Kind::Panic, msg: p.msg.clone(), loc: p.short_loc(), fail_line, check: None, refclass }
        }
    }
}

/// entry point of the worker process: `drv-btor --c18-worker <batch.json> <start>`
pub fn worker_main(args: &[String]) -> ! {
    unsafe {
        let cap: u64 = args.get(4).and_then(|s| s.parse().ok()).unwrap_or(1 << 30);
        let lim = libc::rlimit { rlim_cur: cap, rlim_max: cap };
        libc::setrlimit(libc::RLIMIT_AS, &lim);
    }
    install_panic_hook();
    let path = &args[2];
    let start: usize = args.get(3).and_then(|s| s.parse().ok()).unwrap_or(0);
    let texts: Vec<String> = serde_json::from_str(&std::fs::read_to_string(path).expect("batch file")).expect("batch json");
    let out = std::io::stdout();
    for (i, t) in texts.iter().enumerate().skip(start) {
        let r = run_one_inproc(t);
        let k = match r.kind {
            Kind::None => "none",
            Kind::Some => "some",
            _ => "panic",
        };
        let line = json!({"i": i, "k": k, "msg": r.msg, "loc": r.loc, "fl": r.fail_line, "cc": r.check.as_ref().map(|c| c.0.clone()), "cm": r.check.as_ref().map(|c| c.1.clone()), "rc": r.refclass});
        let mut o = out.lock();
        let _ = writeln!(o, "{line}");
        let _ = o.flush();
    }
    std::process::exit(0)
}

static BATCH_NO: AtomicU64 = AtomicU64::new(0);
/// texts the reference calls ill-sorted, accepted by the reader with a system that passes the
/// acceptance oracle (C08's business; listed in the evidence for information)
static ACCEPTED_ILLSORTED: std::sync::Mutex<Vec<String>> = std::sync::Mutex::new(vec![]);
/// heavy texts that did not finish within the heavy deadline (listed in the evidence)
static SLOW_HEAVY: std::sync::Mutex<Vec<String>> = std::sync::Mutex::new(vec![]);

/// Run a batch of texts in worker subprocesses; a worker that dies or exceeds the deadline is
/// replaced and the text it was working on is recorded as Abort / Deadline.
pub fn run_batch(texts: &[String]) -> Vec<WRes> {
    let n = BATCH_NO.fetch_add(1, Ordering::Relaxed);
    let dir = std::path::Path::new(&verif_root()).join("scratch");
    let _ = std::fs::create_dir_all(&dir);
    let path = dir.join(format!("c18-batch-{}-{n}.json", std::process::id()));
    std::fs::write(&path, serde_json::to_string(texts).unwrap()).expect("write batch");
    let exe = std::env::current_exe().expect("current exe");
    let (cap, deadline) = limits(texts.iter().any(|t| is_heavy(t)));
    let deadline_s = || deadline;
    let mut out: Vec<WRes> = Vec::with_capacity(texts.len());
    while out.len() < texts.len() {
        let start = out.len();
        let mut child = std::process::Command::new(&exe)
            .arg("--c18-worker")
            .arg(&path)
            .arg(start.to_string())
            .arg(cap.to_string())
            .stdin(std::process::Stdio::null())
            .stdout(std::process::Stdio::piped())
            .stderr(std::process::Stdio::null())
            .spawn()
            .expect("spawn worker");
        let stdout = child.stdout.take().unwrap();
        let (tx, rx) = std::sync::mpsc::channel::<String>();
        let reader = std::thread::spawn(move || {
            let br = std::io::BufReader::new(stdout);
            for l in br.lines().map_while(Result::ok) {
                if tx.send(l).is_err() {
                    break;
                }
            }
        });
        let mut in_flight: Option<usize> = None;
        loop {
            if out.len() == texts.len() {
                break;
            }
            match rx.recv_timeout(std::time::Duration::from_secs(deadline_s())) {
                Ok(l) => {
                    let v: Value = serde_json::from_str(&l).unwrap_or(Value::Null);
                    if let Some(p) = v["p"].as_u64() {
                        in_flight = Some(p as usize - 1);
                        continue;
                    }
                    if v["i"].as_u64() != Some(out.len() as u64) {
                        machinery_failure(&format!("C18 worker protocol error: got `{l}` while waiting for text {}", out.len()));
                    }
                    let kind = match v["k"].as_str() {
                        Some("none") => Kind::None,
                        Some("some") => Kind::Some,
                        _ => Kind::Panic,
                    };
                    let check = v["cc"].as_str().map(|c| (c.to_string(), v["cm"].as_str().unwrap_or("").to_string()));
                    out.push(WRes {
                        kind,
                        msg: v["msg"].as_str().unwrap_or("").to_string(),
                        loc: v["loc"].as_str().unwrap_or("").to_string(),
                        fail_line: v["fl"].as_u64().map(|x| x as usize),
                        check,
                        refclass: v["rc"].as_str().unwrap_or("").to_string(),
                    });
                    in_flight = None;
                }
                Err(std::sync::mpsc::RecvTimeoutError::Timeout) => {
                    let _ = child.kill();
                    out.push(WRes { kind: Kind::Deadline, msg: format!("no result within {} s", deadline_s()), loc: String::new(), fail_line: in_flight, check: None, refclass: String::new() });
                    break;
                }
                Err(std::sync::mpsc::RecvTimeoutError::Disconnected) => {
                    // worker died while working on text out.len()
                    let status = child.wait().ok();
                    use std::os::unix::process::ExitStatusExt;
                    let how = match status {
                        Some(s) => match (s.signal(), s.code()) {
                            (Some(sig), _) => format!("worker killed by signal {sig}"),
                            (_, Some(c)) => format!("worker exited with code {c}"),
                            _ => "worker died".to_string(),
                        },
                        None => "worker died".to_string(),
                    };
                    out.push(WRes { kind: Kind::Abort, msg: how, loc: String::new(), fail_line: in_flight, check: None, refclass: String::new() });
                    break;
                }
            }
        }
        let _ = child.kill();
        let _ = child.wait();
        let _ = reader.join();
    }
    let _ = std::fs::remove_file(&path);
    out
}

/// shortest line prefix of `text` that fails the same way (abort / deadline), found by bisection
/// through the worker; returns the 0-based index of its last line
pub fn bisect_fail_line(text: &str, kind: &Kind) -> usize {
    let lines: Vec<&str> = text.trim_end().split('\n').collect();
    let (mut lo, mut hi) = (0usize, lines.len()); // prefix of length hi fails, length lo does not
    while hi - lo > 1 {
        let mid = (lo + hi) / 2;
        let r = run_single(&format!("{}\n", lines[..mid].join("\n")));
        if r.kind == *kind { hi = mid } else { lo = mid }
    }
    hi - 1
}

pub fn run_single(text: &str) -> WRes {
    run_batch(std::slice::from_ref(&text.to_string())).pop().unwrap()
}

// ------------------------------------------------------------------ corpus and mutations

pub fn corpus() -> Vec<String> {
    let v = [
        // F1 counter with enable: sort, input, state, zero, init, one, add, ite, next, ones, eq, bad
        "1 sort bitvec 1\n2 sort bitvec 3\n3 input 1 en\n4 state 2 cnt\n5 zero 2\n6 init 2 4 5\n7 one 2\n8 add 2 4 7\n9 ite 2 3 8 4\n10 next 2 4 9\n11 ones 2\n12 eq 1 4 11\n13 bad 12\n",
        // F2 memory: array sort, write, read, negated operand, negative constd, neq, constraint, named output
        "1 sort bitvec 1\n2 sort bitvec 2\n3 sort array 1 2\n4 state 3 mem\n5 input 1 addr\n6 input 2 data\n7 write 3 4 5 6\n8 next 3 4 7\n9 read 2 4 -5\n10 constd 2 -1\n11 neq 1 9 10\n12 constraint 11\n13 output 9 rd\n",
        // F3 slices, extensions, concat
        "1 sort bitvec 4\n2 sort bitvec 2\n3 sort bitvec 6\n4 input 1 a\n5 slice 2 4 2 1\n6 uext 1 5 2\n7 sext 3 4 2\n8 concat 3 5 -4\n9 xor 3 7 8\n10 and 1 6 4\n11 output 9\n12 output 10\n",
        // F4 constants in three bases, comparisons, comment
        "1 sort bitvec 8\n2 sort bitvec 1\n3 const 1 00001111\n4 consth 1 f0\n5 constd 1 200\n6 input 1\n7 ult 2 6 3\n8 sgte 2 6 4\n9 ugt 2 5 6\n10 and 2 7 -8\n11 or 2 10 9\n12 bad 11 ; comment\n",
        // F5 read-only memory initialised by a bit-vector
        "1 sort bitvec 2\n2 sort bitvec 1\n3 sort array 1 1\n4 state 3 rom\n5 zero 1\n6 init 3 4 5\n7 next 3 4 4\n8 input 1\n9 read 1 4 8\n10 redor 2 9\n11 bad 10\n",
        // F6 free state, reductions, neg, not, implies, iff
        "1 sort bitvec 1\n2 sort bitvec 3\n3 state 2 free\n4 redand 1 3\n5 redxor 1 3\n6 neg 2 3\n7 not 2 6\n8 redor 1 7\n9 implies 1 4 5\n10 iff 1 9 -8\n11 constraint 10\n",
        // F7 two swapping states, ids not increasing
        "1 sort bitvec 2\n2 zero 1\n3 one 1\n4 sort bitvec 1\n10 state 1 a\n11 init 1 10 2\n20 state 1 b\n21 init 1 20 3\n22 next 1 20 10\n12 next 1 10 20\n30 ugt 4 10 20\n31 bad 30\n",
        // F8 shifts and arithmetic
        "1 sort bitvec 4\n2 input 1 x\n3 input 1 y\n4 sll 1 2 3\n5 sra 1 4 3\n6 srl 1 5 -3\n7 mul 1 6 2\n8 udiv 1 7 3\n9 srem 1 8 2\n10 sub 1 9 3\n11 urem 1 10 2\n12 output 11 res\n",
        // F9 array ite and array equality
        "1 sort bitvec 1\n2 sort array 1 1\n3 state 2 m\n4 state 2 n\n5 input 1 c\n6 ite 2 5 3 4\n7 next 2 3 6\n8 next 2 4 4\n9 eq 1 3 4\n10 bad -9\n",
        // F10, F11 tiny
        "1 sort bitvec 1\n2 input 1\n3 bad 2\n",
        "1 sort bitvec 2\n2 state 1\n3 not 1 2\n4 next 1 2 3\n5 output -3\n",
        // F13 tiny: both extensions (small enough for the huge-width mutants of the quick tier)
        "1 sort bitvec 4\n2 sort bitvec 6\n3 input 1\n4 uext 2 3 2\n5 sext 2 -3 2\n6 output 4\n7 output 5\n",
        // F12 comments, odd symbols, derived operators, signed division
        "; header comment\n1 sort bitvec 3 ; three bits\n2 input 1 $in.a[0]\n3 input 1 in/b\n4 nand 1 2 3\n5 nor 1 4 2\n6 xnor 1 5 3 named\n7 smod 1 6 2\n8 sdiv 1 7 3\n9 sort bitvec 1\n10 slte 9 8 2\n11 slt 9 2 3\n12 sgt 9 3 8\n13 ulte 9 2 7\n14 ugte 9 7 3\n15 output 10 o$1\n",
    ];
    v.iter().map(|s| s.to_string()).collect()
}

pub fn all_tags() -> Vec<&'static str> {
    let mut v: Vec<&str> = vec![];
    v.extend(btorref::UNARY);
    v.extend(btorref::EXT);
    v.extend(btorref::BOOL_BIN);
    v.extend(btorref::EQ_OPS);
    v.extend(btorref::CMP);
    v.extend(btorref::SAME_BIN);
    v.extend(btorref::OVF);
    v.extend(["concat", "read", "ite", "write"]);
    v.extend(["sort", "input", "output", "bad", "constraint", "fair", "justice", "state", "next", "init", "const", "constd", "consth", "zero", "one", "ones", "bitvec", "array"]);
    v
}

fn split_line(l: &str) -> Vec<String> {
    l.split([' ', '\t']).filter(|t| !t.is_empty()).map(|t| t.to_string()).collect()
}

fn ids_of(text: &str) -> Vec<String> {
    let mut v = vec![];
    for l in text.lines() {
        if let Some(t) = split_line(l).first()
            && t.parse::<u64>().is_ok()
            && !v.contains(t)
        {
            v.push(t.clone());
        }
    }
    v
}

pub fn hostile_menu(text: &str, reduced: bool) -> Vec<String> {
    let mut m: Vec<String> = vec![];
    for id in ids_of(text) {
        m.push(id.clone());
        m.push(format!("-{id}"));
    }
    if reduced {
        m.extend(["0", "1", "4294967295", "x", "and", "slice", "read", "write", "sort", "state", "init"].iter().map(|s| s.to_string()));
    } else {
        m.extend(["0", "-0", "1", "2147483648", "4294967295", "4294967296", "9223372036854775808", "18446744073709551616", "-", "x", "é", "1✖2"].iter().map(|s| s.to_string()));
        m.extend(all_tags().iter().map(|s| s.to_string()));
    }
    m
}

/// a mutation = (class, mutated text)
pub type Mutant = (&'static str, String);

fn join(lines: &[String]) -> String {
    let mut s = lines.join("\n");
    s.push('\n');
    s
}

pub fn single_mutations(text: &str, reduced: bool, heavy: bool) -> Vec<Mutant> {
    let lines: Vec<String> = text.lines().map(|l| l.to_string()).collect();
    let mut out: Vec<Mutant> = vec![];
    for i in 0..lines.len() {
        let mut l = lines.clone();
        l.remove(i);
        out.push(("delete-line", join(&l)));
        let mut l = lines.clone();
        l.insert(i + 1, lines[i].clone());
        out.push(("duplicate-line", join(&l)));
        if i + 1 != lines.len() {
            let mut l = lines.clone();
            l.push(lines[i].clone());
            out.push(("duplicate-line", join(&l)));
        }
        for j in (i + 1)..lines.len() {
            let mut l = lines.clone();
            l.swap(i, j);
            out.push(("swap-lines", join(&l)));
        }
    }
    let menu = hostile_menu(text, reduced);
    for i in 0..lines.len() {
        if lines[i].trim_start().starts_with(';') {
            continue;
        }
        let (body, comment) = match lines[i].find(';') {
            Some(p) => (lines[i][..p].to_string(), lines[i][p..].to_string()),
            None => (lines[i].clone(), String::new()),
        };
        let toks = split_line(&body);
        for k in 0..toks.len() {
            // delete the token
            let mut t = toks.clone();
            t.remove(k);
            let mut l = lines.clone();
            l[i] = format!("{}{}", t.join(" "), comment);
            out.push(("delete-token", join(&l)));
            for m in menu.iter() {
                if *m == toks[k] {
                    continue;
                }
                if !heavy && m == "2147483648" && k == 3 && toks[1] == "sort" {
                    continue;
                }
                let mut t = toks.clone();
                t[k] = m.clone();
                let mut l = lines.clone();
                l[i] = format!("{}{}", t.join(" "), comment);
                out.push(("replace-token", join(&l)));
            }
        }
        // targeted: slice bounds
        if toks.len() >= 6 && toks[1] == "slice" {
            let (u, lo) = (toks[4].clone(), toks[5].clone());
            for (a, b) in [(lo.clone(), u.clone()), ("4".into(), "0".into()), ("5".into(), "4".into()), ("4294967295".into(), "0".into()), ("0".into(), "4294967295".into()), ("4294967295".into(), "4294967295".into()), ("100".into(), "99".into())] {
                let mut t = toks.clone();
                t[4] = a;
                t[5] = b;
                let mut l = lines.clone();
                l[i] = t.join(" ");
                out.push(("slice-bounds", join(&l)));
            }
        }
        // targeted: extension amounts
        if toks.len() >= 5 && (toks[1] == "uext" || toks[1] == "sext") {
            for by in ["4294967295", "4294967292", "4294967290"] {
                let mut t = toks.clone();
                t[4] = by.into();
                let mut l = lines.clone();
                l[i] = t.join(" ");
                out.push(("ext-amount", join(&l)));
            }
        }
        // targeted: width 0 and huge widths
        if toks.len() >= 4 && toks[1] == "sort" && toks[2] == "bitvec" {
            let ws: &[&str] = if heavy { &["0", "4294967295", "4294967294", "2147483647"] } else { &["0", "4294967295"] };
            for w in ws.iter().copied() {
                let mut t = toks.clone();
                t[3] = w.into();
                let mut l = lines.clone();
                l[i] = t.join(" ");
                out.push(("width", join(&l)));
            }
        }
    }
    // layout-level mutations of the whole file and of single lines
    out.push(("format", lines.join("\r\n") + "\r\n"));
    out.push(("format", join(&lines.iter().map(|l| l.replace(' ', "\t")).collect::<Vec<_>>())));
    out.push(("format", lines.join("\n")));
    out.push(("format", lines.join("\n\n") + "\n\n"));
    out.push(("format", join(&lines.iter().map(|l| format!("  {l}  ")).collect::<Vec<_>>())));
    out.push(("format", String::new()));
    out.push(("format", "; only a comment\n".to_string()));
    out.push(("format", join(&lines.iter().map(|l| format!("; {l}")).collect::<Vec<_>>())));
    for i in 0..lines.len() {
        let toks = split_line(&lines[i]);
        for k in 0..toks.len() {
            // a comment starting after / inside token k
            let mut t = toks.clone();
            t[k] = format!("{};", toks[k]);
            let mut l = lines.clone();
            l[i] = t.join(" ");
            out.push(("format", join(&l)));
            let mut t = toks.clone();
            t[k] = format!(";{}", toks[k]);
            let mut l = lines.clone();
            l[i] = t.join(" ");
            out.push(("format", join(&l)));
            // a NUL byte and a very long token
            let mut t = toks.clone();
            t[k] = format!("{}\0", toks[k]);
            let mut l = lines.clone();
            l[i] = t.join(" ");
            out.push(("format", join(&l)));
            if !reduced {
                let mut t = toks.clone();
                t[k] = toks[k].repeat(3000);
                let mut l = lines.clone();
                l[i] = t.join(" ");
                out.push(("format", join(&l)));
            }
        }
    }
    // array sorts over array sorts, and states / operators over them
    let ids = ids_of(text);
    let fresh = |k: u64| format!("{}", 900 + k);
    let sort_lines: Vec<(String, bool)> = lines.iter().map(|l| split_line(l)).filter(|t| t.len() > 2 && t[1] == "sort").map(|t| (t[0].clone(), t[2] == "array")).collect();
    let bv_sort = sort_lines.iter().find(|s| !s.1).map(|s| s.0.clone());
    let arr_sort = sort_lines.iter().find(|s| s.1).map(|s| s.0.clone());
    if let Some(bvs) = bv_sort {
        let mut pre = lines.clone();
        let a = match arr_sort {
            Some(a) => a,
            None => {
                pre.push(format!("{} sort array {bvs} {bvs}", fresh(0)));
                fresh(0)
            }
        };
        for (x, y) in [(a.clone(), a.clone()), (bvs.clone(), a.clone()), (a.clone(), bvs.clone())] {
            let mut l = pre.clone();
            l.push(format!("{} sort array {x} {y}", fresh(1)));
            out.push(("array-of-array", join(&l)));
            l.push(format!("{} state {}", fresh(2), fresh(1)));
            out.push(("array-of-array", join(&l)));
        }
    }
    let _ = ids;
    out
}

/// pairs of mutations at different sites: the second mutation is enumerated on the result of the
/// first (reduced menu), so line insertions / deletions compose correctly
pub fn pair_mutations(text: &str) -> Vec<Mutant> {
    let mut out = vec![];
    let first = single_mutations(text, true, false);
    let mut seen: BTreeSet<u64> = BTreeSet::new();
    for (_, t1) in first.iter() {
        if !seen.insert(hash64(t1)) {
            continue;
        }
        for (_, t2) in single_mutations(t1, true, false) {
            out.push(("pair", t2));
        }
    }
    // the same text is reached along several paths: keep the first occurrence
    let mut seen2: BTreeSet<u64> = BTreeSet::new();
    out.retain(|m| seen2.insert(hash64(&m.1)));
    out
}

/// grammar-generated lines: operator x operand kinds x declared sort
pub fn grammar_files(full: bool) -> Vec<Mutant> {
    // declared nodes by kind
    let mut pre = Tb::new();
    let kinds: Vec<(&str, Sort)> = if full {
        vec![("bv1", Sort::Bv(1)), ("bv2", Sort::Bv(2)), ("bv3", Sort::Bv(3)), ("bv64", Sort::Bv(64)), ("arr11", Sort::Arr(1, 1)), ("arr12", Sort::Arr(1, 2)), ("arr21", Sort::Arr(2, 1)), ("arr22", Sort::Arr(2, 2))]
    } else {
        // (arr11 / arr12: two array sorts that differ in the data width only)
        vec![("bv1", Sort::Bv(1)), ("bv2", Sort::Bv(2)), ("arr12", Sort::Arr(1, 2)), ("arr21", Sort::Arr(2, 1)), ("arr11", Sort::Arr(1, 1))]
    };
    let mut operands: Vec<String> = vec![];
    let mut sort_ids: Vec<u64> = vec![];
    for (_, s) in kinds.iter() {
        let sid = pre.sort(*s);
        sort_ids.push(sid);
    }
    for (_, s) in kinds.iter() {
        let sid = pre.sort(*s);
        let n = pre.line(&format!("input {sid}"));
        operands.push(n.to_string());
        if full && matches!(s, Sort::Bv(_)) {
            operands.push(format!("-{n}"));
        }
    }
    // the first array node, negated (never admissible)
    let first_arr_input = {
        let f = btorref::parse(&pre.text()).expect("grammar preamble");
        f.symbols().iter().find(|(_, s)| matches!(s, Sort::Arr(..))).map(|(id, _)| *id).unwrap()
    };
    operands.push(format!("-{first_arr_input}"));
    if full {
        // a sort id used as an operand, an undefined id
        operands.push(sort_ids[0].to_string());
        operands.push("777".to_string());
    }
    let base = pre.text();
    let mut out = vec![];
    let tags: Vec<&str> = all_tags().into_iter().filter(|t| btorref::is_operator(t)).collect();
    for tag in tags {
        let n = btorref::arity(tag);
        let params: Vec<Vec<&str>> = match tag {
            "slice" => vec![vec!["0", "0"], vec!["1", "0"], vec!["0", "1"], vec!["2", "2"]],
            "uext" | "sext" => vec![vec!["0"], vec!["1"]],
            _ => vec![vec![]],
        };
        let combos = pvcore::terms::product(&vec![operands.clone(); n]);
        for sid in sort_ids.iter() {
            for c in combos.iter() {
                for p in params.iter() {
                    let mut l = format!("800 {tag} {sid} {}", c.join(" "));
                    for x in p {
                        l += &format!(" {x}");
                    }
                    let text = format!("{base}{l}\n801 output 800\n");
                    out.push(("grammar", text));
                }
            }
        }
    }
    // init / next with every operand kind for every state sort
    for (k, (_, s)) in kinds.iter().enumerate() {
        for o in operands.iter() {
            for sid in sort_ids.iter() {
                for tag in ["init", "next"] {
                    let text = format!("{base}800 state {}\n801 {tag} {sid} 800 {o}\n", sort_ids[k]);
                    let _ = s;
                    out.push(("grammar", text));
                }
            }
        }
    }
    // bad / constraint / output of every kind
    for o in operands.iter() {
        for tag in ["bad", "constraint", "output"] {
            out.push(("grammar", format!("{base}800 {tag} {o}\n")));
        }
    }
    out
}

/// Line ids used twice: a `state` line whose id is taken again by a later node of ANOTHER sort (input, constant,
/// operator), followed by init / next lines that name that id with the sort and a value of the old or the new
/// node. Whatever the reader makes of the file, a system it returns must be well-typed (the acceptance oracle).
pub fn id_reuse_files() -> Vec<Mutant> {
    let mut out = vec![];
    // (state sort, re-using node sort), as sort lines 1 and 2
    let sorts = [("bitvec 8", "bitvec 1"), ("bitvec 1", "bitvec 8"), ("array 2 3", "bitvec 3"), ("bitvec 3", "array 2 3"), ("array 2 3", "array 2 1")];
    for (ss, ns) in sorts {
        let pre = format!("1 sort {ss}\n2 sort {ns}\n3 sort bitvec 2\n4 sort bitvec 3\n5 sort bitvec 1\n");
        // values of either sort to attach
        let vals = format!("10 input 1 vs\n11 input 2 vn\n");
        let reusers = ["20 input 2 again".to_string(), "20 state 2 again".to_string(), if ns.starts_with("bitvec") { "20 one 2".to_string() } else { "20 ite 2 12 11 11".to_string() }, if ns.starts_with("bitvec") { "20 not 2 11".to_string() } else { "20 ite 2 -12 11 11".to_string() }];
        for reuse in reusers.iter() {
            for tag in ["init", "next"] {
                for (sort_id, val) in [(2, 11), (1, 10), (2, 10), (1, 11)] {
                    for order in 0..2 {
                        // the state line first, then (order 0) the re-using node and the attachment, or (order 1) an
                        // attachment to the state, the re-using node, and a second attachment
                        let mut t = format!("{pre}{vals}12 input 5 c\n20 state 1 counter\n");
                        if order == 1 {
                            t += &format!("30 {} 1 20 10\n", if tag == "init" { "next" } else { "init" });
                        }
                        t += &format!("{reuse}\n31 {tag} {sort_id} 20 {val}\n32 output 20\n");
                        out.push(("id-reuse", t));
                    }
                }
            }
        }
    }
    out
}

// ------------------------------------------------------------------ classification and signatures

fn norm_msg(m: &str) -> String {
    let mut s = String::new();
    let mut last_digit = false;
    for c in m.chars() {
        if c.is_ascii_digit() {
            if !last_digit {
                s.push('N');
            }
            last_digit = true;
        } else {
            last_digit = false;
            s.push(if c == '|' { '/' } else { c });
        }
    }
    let words: Vec<&str> = s.split_whitespace().take(6).collect();
    words.join("_")
}

/// tag and operand kinds (by the declared sorts of the defining lines) of line `idx`
pub fn line_shape(text: &str, idx: usize) -> (String, String) {
    let lines: Vec<&str> = text.split('\n').collect();
    let mut sorts: BTreeMap<String, String> = BTreeMap::new();
    let mut nodes: BTreeMap<String, String> = BTreeMap::new();
    for l in lines.iter().take(idx) {
        let body = l.split(';').next().unwrap_or("");
        let t = split_line(body);
        if t.len() < 3 {
            continue;
        }
        if t[1] == "sort" {
            let k = if t[2] == "bitvec" {
                match t.get(3).and_then(|w| w.parse::<u64>().ok()) {
                    Some(0) => "bv0".to_string(),
                    Some(w) if w >= (1 << 24) => "bvhuge".to_string(),
                    Some(_) => "bv".to_string(),
                    None => "?".to_string(),
                }
            } else if t[2] == "array" {
                let sub: Vec<String> = t.iter().skip(3).take(2).map(|x| sorts.get(x).cloned().unwrap_or("?".into())).collect();
                if sub.iter().any(|s| s.starts_with("arr")) { "arr-of-arr".to_string() } else { "arr".to_string() }
            } else {
                "?".to_string()
            };
            sorts.insert(t[0].clone(), k);
        } else if !["output", "bad", "constraint", "init", "next", "fair", "justice"].contains(&t[1].as_str()) {
            if let Some(k) = sorts.get(&t[2]) {
                nodes.insert(t[0].clone(), k.clone());
            }
        }
    }
    let body = lines.get(idx).map(|l| l.split(';').next().unwrap_or("")).unwrap_or("");
    let t = split_line(body);
    let tag = t.get(1).cloned().unwrap_or_default();
    let kind_of = |tok: &str| -> String {
        let (neg, id) = match tok.strip_prefix('-') {
            Some(d) => ("-", d),
            None => ("", tok),
        };
        let k = if let Some(k) = nodes.get(id) {
            k.clone()
        } else if sorts.contains_key(id) {
            "sortid".to_string()
        } else if id.parse::<u64>().is_ok() {
            "undef".to_string()
        } else {
            "nonid".to_string()
        };
        format!("{neg}{k}")
    };
    let mut kinds = vec![];
    let tagc = tag.as_str();
    if tagc == "sort" {
        kinds.push(t.get(2).cloned().unwrap_or_default());
        for x in t.iter().skip(3).take(2) {
            kinds.push(sorts.get(x).cloned().unwrap_or(if x.parse::<u64>().is_ok() { "num".into() } else { "nonid".into() }));
        }
    } else if ["output", "bad", "constraint", "fair", "justice"].contains(&tagc) {
        kinds.extend(t.get(2).map(|x| kind_of(x)));
    } else {
        let decl = t.get(2).map(|x| sorts.get(x).cloned().unwrap_or("nosort".into())).unwrap_or("missing".into());
        let n = if tagc == "init" || tagc == "next" {
            2
        } else if btorref::is_operator(tagc) {
            btorref::arity(tagc)
        } else {
            0
        };
        for x in t.iter().skip(3).take(n) {
            kinds.push(kind_of(x));
        }
        // operand kinds as a set (one defect shows up under few signatures)
        kinds.sort();
        kinds.dedup();
        if decl != "bv" && decl != "arr" {
            kinds.insert(0, format!("decl:{decl}"));
        }
    }
    (if tag.is_empty() { "<none>".into() } else { tag }, kinds.join(","))
}

/// violation class of a worker result: None = allowed
pub fn violation_class(r: &WRes) -> Option<String> {
    match r.kind {
        Kind::None => None,
        Kind::Some => r.check.as_ref().map(|c| format!("accepted|{}", c.0)),
        Kind::Panic => {
            let in_parse = r.loc.starts_with("patronus/src/btor2/parse.rs");
            if in_parse && allowed_marker(&r.msg).is_some() {
                None
            } else {
                let file = r.loc.rsplit_once(':').map(|x| x.0).unwrap_or(&r.loc);
                Some(format!("panic|{file}"))
            }
        }
        Kind::Abort => Some("abort".into()),
        Kind::Deadline => Some("deadline".into()),
    }
}

fn presig(text: &str, r: &WRes) -> Option<String> {
    let class = violation_class(r)?;
    let idx = match r.kind {
        Kind::Panic => r.fail_line.unwrap_or(text.split('\n').count().saturating_sub(1)),
        Kind::Abort | Kind::Deadline => r.fail_line.unwrap_or(usize::MAX),
        _ => usize::MAX,
    };
    let (tag, kinds) = if idx == usize::MAX { (String::new(), String::new()) } else { line_shape(text, idx) };
    let detail = match r.kind {
        Kind::Panic => format!("{}|{}", norm_msg(&r.msg), r.loc.rsplit_once(':').map(|x| x.1).unwrap_or("")),
        Kind::Some => r.check.as_ref().map(|c| c.0.clone()).unwrap_or_default(),
        _ => String::new(),
    };
    Some(format!("{class}|{tag}|{kinds}|{detail}"))
}

/// final signature + description from a (shrunk) text and its worker result
fn final_sig(text: &str, r: &WRes) -> Option<(String, String)> {
    let class = violation_class(r)?;
    let one_line = text.trim_end().replace('\n', " / ");
    match r.kind {
        Kind::Panic => {
            let idx = r.fail_line.unwrap_or(text.split('\n').count().saturating_sub(1));
            let (mut tag, kinds) = line_shape(text, idx);
            // does the panic depend on the operator at all? (e.g. a negated array operand fails
            // before the operator is looked at): try other operators of the same arity
            if btorref::is_operator(&tag) && !text.split(|c: char| !c.is_ascii_digit()).any(|t| t.len() >= 10) {
                let alts: &[&str] = match btorref::arity(&tag) {
                    1 => &["not", "neg", "redor"],
                    2 => &["and", "add", "eq", "concat"],
                    _ => &["ite", "write"],
                };
                let lines: Vec<&str> = text.split('\n').collect();
                let independent = !matches!(tag.as_str(), "slice" | "uext" | "sext")
                    && alts.iter().filter(|a| **a != tag).all(|a| {
                        let mut ls: Vec<String> = lines.iter().map(|l| l.to_string()).collect();
                        let mut toks = split_line(&ls[idx]);
                        if toks.len() > 1 {
                            toks[1] = a.to_string();
                        }
                        ls[idx] = toks.join(" ");
                        let r2 = run_one_inproc(&ls.join("\n"));
                        r2.kind == Kind::Panic && r2.loc == r.loc
                    });
                if independent {
                    tag = format!("any-op{}", btorref::arity(&tag));
                }
            }
            let sig = format!("C18|{class}|{tag}|{kinds}|{}", norm_msg(&r.msg));
            let what = format!("the reader panics instead of reporting an error on `{one_line}`: {} ({})", r.msg, r.loc);
            Some((sig, what))
        }
        Kind::Some => {
            let (c, m) = r.check.clone().unwrap();
            // the offending line kind: last line of the shrunk text
            let last = text.trim_end().split('\n').count().saturating_sub(1);
            let (tag, kinds) = line_shape(text, last);
            Some((format!("C18|{class}|{tag}|{kinds}|"), format!("the reader accepts `{one_line}` but the returned system is not well-formed ({c}): {m}")))
        }
        Kind::Abort | Kind::Deadline => {
            let last = r.fail_line.unwrap_or(text.trim_end().split('\n').count().saturating_sub(1));
            let (tag, kinds) = line_shape(text, last);
            Some((format!("C18|{class}|{tag}|{kinds}|"), format!("reading `{one_line}` does not come back cleanly: {}", r.msg)))
        }
        Kind::None => None,
    }
}

/// same failure = same class and (for panics) same location
fn same_failure(a: &WRes, b: &WRes) -> bool {
    violation_class(a) == violation_class(b) && a.loc == b.loc && a.check.as_ref().map(|c| &c.0) == b.check.as_ref().map(|c| &c.0)
}

fn shrink_case(text: &str, r: &WRes) -> (String, WRes) {
    if matches!(r.kind, Kind::Abort | Kind::Deadline) {
        // prefix up to the failing line; for aborts one pass of line deletions through the worker
        let lines: Vec<&str> = text.trim_end().split('\n').collect();
        let k = r.fail_line.unwrap_or(lines.len() - 1).min(lines.len() - 1);
        let mut keep: Vec<String> = lines[..=k].iter().map(|l| l.to_string()).collect();
        if r.kind == Kind::Abort {
            let mut i = keep.len() - 1;
            while i > 0 {
                i -= 1;
                let mut cand = keep.clone();
                cand.remove(i);
                if run_single(&format!("{}\n", cand.join("\n"))).kind == Kind::Abort {
                    keep = cand;
                }
            }
        }
        let min = format!("{}\n", keep.join("\n"));
        let mut r2 = r.clone();
        r2.fail_line = Some(keep.len() - 1);
        return (min, r2);
    }
    // in-process shrinking is safe for plain panics and rejected checks unless huge numbers occur
    let big_number = text.split(|c: char| !c.is_ascii_digit()).any(|t| t.len() >= 10);
    let fails = |t: &str| -> bool {
        let r2 = if big_number { run_single(t) } else { run_one_inproc(t) };
        same_failure(r, &r2)
    };
    let min = shrink_text(text, &fails);
    let r2 = if big_number { run_single(&min) } else { run_one_inproc(&min) };
    if same_failure(r, &r2) { (min, r2) } else { (text.to_string(), r.clone()) }
}

// ------------------------------------------------------------------ driver

fn process(texts: &[(&'static str, String)], base_order: u64, rep: &Report, budget: &Budget, pending: &mut BTreeMap<String, (u64, String, WRes)>, heavy_later: &mut Option<Vec<(u64, &'static str, String)>>) -> bool {
    // small batches keep a dying worker cheap; huge stages amortise process start-up instead
    let chunk_size: usize = if texts.len() > 100_000 { 2500 } else { 400 };
    // heavy texts run one per worker (thorough: 4 at a time), the others in chunks
    let mut normal: Vec<(usize, &(&'static str, String))> = vec![];
    let mut heavy: Vec<(usize, &(&'static str, String))> = vec![];
    for (i, t) in texts.iter().enumerate() {
        if is_heavy(&t.1) {
            match heavy_later {
                Some(sink) => sink.push((base_order + i as u64, t.0, t.1.clone())),
                None => heavy.push((i, t)),
            }
        } else {
            normal.push((i, t))
        }
    }
    let mut capped = false;
    let mut groups: Vec<Vec<Vec<(usize, &(&'static str, String))>>> = vec![];
    for g in normal.chunks(chunk_size * 16) {
        groups.push(g.chunks(chunk_size).map(|c| c.to_vec()).collect());
    }
    let heavy_par = if THOROUGH.load(Ordering::Relaxed) { 4 } else { 16 };
    for g in heavy.chunks(heavy_par) {
        groups.push(g.iter().map(|x| vec![*x]).collect());
    }
    for group in groups.iter() {
        if budget.exceeded() {
            capped = true;
            break;
        }
        let results: Vec<Vec<WRes>> = group
            .par_iter()
            .map(|ch| {
                let ts: Vec<String> = ch.iter().map(|x| x.1.1.clone()).collect();
                let mut rs = run_batch(&ts);
                for (r, t) in rs.iter_mut().zip(ts.iter()) {
                    if r.kind == Kind::Deadline && is_heavy(t) {
                        // cost proportional to a declared width of >= 2^24 bits: counted, not a verdict
                        continue;
                    }
                    if r.kind == Kind::Deadline {
                        // confirm: the same text alone must time out again
                        let again = run_single(t);
                        if again.kind != Kind::Deadline {
                            again.clone_into(r);
                            r.msg = format!("[deadline not confirmed] {}", r.msg);
                        }
                    }
                    if matches!(r.kind, Kind::Abort | Kind::Deadline) && r.fail_line.is_none() {
                        r.fail_line = Some(bisect_fail_line(t, &r.kind));
                    }
                }
                rs
            })
            .collect();
        let mut counts: BTreeMap<String, u64> = BTreeMap::new();
        let mut hashes = vec![];
        for (ch, rs) in group.iter().zip(results.iter()) {
            for ((i, (class, text)), r) in ch.iter().zip(rs.iter()) {
                let order = base_order + *i as u64;
                *counts.entry("evaluations".into()).or_insert(0) += 1;
                *counts.entry(format!("mutation:{class}")).or_insert(0) += 1;
                *counts.entry(format!("ref:{}", r.refclass)).or_insert(0) += 1;
                if r.msg.starts_with("[deadline not confirmed]") {
                    *counts.entry("deadline-not-confirmed".into()).or_insert(0) += 1;
                }
                match r.kind {
                    Kind::None => *counts.entry("outcome:none".into()).or_insert(0) += 1,
                    Kind::Some => {
                        hashes.push(hash64(text));
                        *counts.entry(if r.check.is_some() { "outcome:some-illformed".to_string() } else { "outcome:some-ok".to_string() }).or_insert(0) += 1;
                        if r.refclass != "ok" {
                            *counts.entry(format!("accepted-although-ref:{}", r.refclass)).or_insert(0) += 1;
                        }
                        if r.refclass == "illsorted" && r.check.is_none() {
                            *counts.entry("accepted-illsorted-and-passing-the-oracle".into()).or_insert(0) += 1;
                            let mut g = ACCEPTED_ILLSORTED.lock().unwrap();
                            if g.len() < 12 {
                                g.push(text.clone());
                            }
                        }
                    }
                    Kind::Panic => {
                        let m = if r.loc.starts_with("patronus/src/btor2/parse.rs") { allowed_marker(&r.msg) } else { None };
                        match m {
                            Some(m) => *counts.entry(format!("outcome:panic-marker-{m}")).or_insert(0) += 1,
                            None => *counts.entry("outcome:panic-other".into()).or_insert(0) += 1,
                        }
                    }
                    Kind::Abort => *counts.entry("outcome:abort".into()).or_insert(0) += 1,
                    Kind::Deadline if is_heavy(text) => {
                        *counts.entry("outcome:deadline-on-heavy-text(not-a-verdict)".into()).or_insert(0) += 1;
                        let mut g = SLOW_HEAVY.lock().unwrap();
                        if g.len() < 40 {
                            g.push(text.clone());
                        }
                        continue;
                    }
                    Kind::Deadline => *counts.entry("outcome:deadline".into()).or_insert(0) += 1,
                }
                if let Some(ps) = presig(text, r) {
                    match pending.get(&ps) {
                        Some(old) if old.0 <= order => {}
                        _ => {
                            pending.insert(ps, (order, text.clone(), r.clone()));
                        }
                    }
                }
            }
        }
        rep.merge_counts(&counts);
        rep.distinct_hashes(&hashes);
    }
    !capped
}

fn flush(pending: BTreeMap<String, (u64, String, WRes)>, rep: &Report) {
    let items: Vec<(String, (u64, String, WRes))> = pending.into_iter().collect();
    rep.add("distinct_failure_presignatures", items.len() as u64);
    let shrunk: Vec<(u64, String, String, WRes)> = items
        .par_iter()
        .map(|(_, (order, text, r))| {
            let (min, r2) = shrink_case(text, r);
            (*order, text.clone(), min, r2)
        })
        .collect();
    for (order, text, min, r) in shrunk {
        if let Some((sig, what)) = final_sig(&min, &r) {
            rep.violation(Violation { sig, what, case: json!({"text": min, "found_in": text}), order });
        }
    }
}

pub fn run(opts: &Opts, rep: &Report) {
    let tier = match opts.mode {
        Mode::Run(t) => t,
        _ => unreachable!(),
    };
    let thorough = tier.is_thorough();
    THOROUGH.store(thorough, Ordering::Relaxed);
    let budget = Budget::new(opts.budget_s);
    let _gag = StderrGag::new();
    let corpus = corpus();

    // ---- vacuity guards
    let mut tags_seen: BTreeSet<String> = BTreeSet::new();
    for f in corpus.iter() {
        if let Err(e) = btorref::parse(f) {
            machinery_failure(&format!("C18 corpus file is not well-formed for the reference reader: {e:?}"));
        }
        for l in f.lines() {
            if let Some(t) = split_line(l.split(';').next().unwrap_or("")).get(1) {
                tags_seen.insert(t.clone());
            }
        }
    }
    for t in all_tags() {
        let unsupported = btorref::PATRONUS_UNSUPPORTED.contains(&t) || ["fair", "justice", "bitvec", "array"].contains(&t);
        if !unsupported && !tags_seen.contains(t) {
            machinery_failure(&format!("C18 corpus never uses line kind `{t}`"));
        }
    }
    if allowed_marker("not yet implemented: Add support for bit rotates.").is_none() || allowed_marker("called `Option::unwrap()` on a `None` value").is_some() {
        machinery_failure("C18 marker table is broken");
    }

    let mut pending: BTreeMap<String, (u64, String, WRes)> = BTreeMap::new();
    // thorough: heavy texts are collected and run last, one per worker, 4 at a time
    let mut heavy_later: Option<Vec<(u64, &'static str, String)>> = if thorough { Some(vec![]) } else { None };
    let mut order = 0u64;
    // stage 0: the corpus itself must be accepted by the reference (checked above); run it too
    let base: Vec<Mutant> = corpus.iter().map(|t| ("corpus", t.clone())).collect();
    process(&base, order, rep, &budget, &mut pending, &mut heavy_later);
    order += base.len() as u64;
    // stage 1: all single mutations
    let mut singles: Vec<Mutant> = vec![];
    let mut by_size: Vec<&String> = corpus.iter().collect();
    by_size.sort_by_key(|t| (t.lines().count(), t.len()));
    let smallest3: Vec<&String> = by_size.iter().take(4).copied().collect();
    let mut dropped_heavy = 0u64;
    for f in corpus.iter() {
        let mut ms = single_mutations(f, false, thorough);
        if !thorough && !smallest3.contains(&f) {
            // quick tier: huge declared widths only on the four smallest corpus files
            let before = ms.len();
            ms.retain(|m| !is_heavy(&m.1));
            dropped_heavy += (before - ms.len()) as u64;
        }
        singles.extend(ms);
    }
    rep.add("quick-tier-dropped-heavy-texts", dropped_heavy);
    {
        let classes: BTreeSet<&str> = singles.iter().map(|m| m.0).collect();
        for c in ["delete-line", "duplicate-line", "swap-lines", "delete-token", "replace-token", "slice-bounds", "ext-amount", "width", "array-of-array", "format"] {
            if !classes.contains(c) {
                machinery_failure(&format!("C18 mutation class {c} produced nothing"));
            }
        }
        let n_ok = singles.iter().take(4000).filter(|m| btorref::parse(&m.1).is_ok()).count();
        if n_ok == 0 || n_ok == 4000 {
            machinery_failure("C18 mutants: the reference reader sees only one verdict");
        }
    }
    rep.add("heavy-texts", singles.iter().filter(|m| is_heavy(&m.1)).count() as u64);
    rep.sample(json!({"mutation": singles[singles.len() / 2].0, "text": singles[singles.len() / 2].1}));
    let n_single = singles.len();
    if !process(&singles, order, rep, &budget, &mut pending, &mut heavy_later) {
        rep.cap_hit("budget reached during single mutations");
    }
    order += n_single as u64;
    // stage 2: ill-sorted grammar
    let grammar = grammar_files(thorough);
    rep.sample(json!({"mutation": "grammar", "text": grammar[grammar.len() / 2].1}));
    let n_grammar = grammar.len();
    if !process(&grammar, order, rep, &budget, &mut pending, &mut heavy_later) {
        rep.cap_hit("budget reached during the ill-sorted grammar");
    }
    order += n_grammar as u64;
    // stage 2b: line ids used twice
    let reuse = id_reuse_files();
    let n_reuse = reuse.len();
    rep.add("id_reuse_files", n_reuse as u64);
    if !process(&reuse, order, rep, &budget, &mut pending, &mut heavy_later) {
        rep.cap_hit("budget reached during the id-reuse files");
    }
    order += n_reuse as u64;
    let mut n_heavy = 0usize;
    let mut n_heavy_run = 0usize;
    if let Some(hv) = heavy_later.take() {
        // de-duplicate (pairs repeat many heavy texts), keep the smallest order
        let mut seen: BTreeSet<u64> = BTreeSet::new();
        let mut hv: Vec<(u64, &'static str, String)> = hv.into_iter().filter(|h| seen.insert(hash64(&h.2))).collect();
        // cheapest first: texts without constant lines, then by number of constant lines
        let lit_lines = |t: &str| t.lines().filter(|l| has_literal_line(l)).count();
        hv.sort_by_key(|h| (lit_lines(&h.2), h.0));
        n_heavy = hv.len();
        let mut none: Option<Vec<(u64, &'static str, String)>> = None;
        // the heavy stage may use at most 40% of the whole budget
        let hbudget = Budget::new(opts.budget_s * 0.4);
        for h in hv.chunks(4) {
            if budget.exceeded() || hbudget.exceeded() {
                rep.cap_hit("budget reached during the heavy-width texts");
                break;
            }
            let ms: Vec<Mutant> = h.iter().map(|x| (x.1, x.2.clone())).collect();
            // orders inside a group of 4: use the first one's order as base (ties are harmless)
            process(&ms, h[0].0, rep, &budget, &mut pending, &mut none);
            n_heavy_run += ms.len();
        }
    }
    rep.add("heavy-texts-run", n_heavy_run as u64);
    let mut n_pairs = 0usize;
    if thorough {
        for f in by_size.iter().take(6) {
            if budget.exceeded() {
                rep.cap_hit("budget reached before all pair mutations were generated");
                break;
            }
            let mut pairs = pair_mutations(f);
            let before = pairs.len();
            pairs.retain(|m| !is_heavy(&m.1));
            rep.add("pair-stage-dropped-heavy-texts", (before - pairs.len()) as u64);
            n_pairs += pairs.len();
            let mut none: Option<Vec<(u64, &'static str, String)>> = None;
            if !process(&pairs, order, rep, &budget, &mut pending, &mut none) {
                rep.cap_hit("budget reached during pair mutations");
            }
            order += pairs.len() as u64;
        }
    }
    rep.note("stages", json!({"corpus": corpus.len(), "single": n_single, "grammar": n_grammar, "pairs": n_pairs, "heavy": n_heavy}));
    rep.note("accepted_illsorted_examples", json!(ACCEPTED_ILLSORTED.lock().unwrap().clone()));
    rep.note("heavy_texts_over_deadline", json!(SLOW_HEAVY.lock().unwrap().clone()));
    let t_enum = rep.elapsed();
    flush(pending, rep);
    rep.note("wall_split_s", json!({"enumeration": t_enum, "shrinking": rep.elapsed() - t_enum}));
}

pub fn replay(case: &Value, rep: &Report) {
    let _gag = StderrGag::new();
    let text = case["text"].as_str().expect("text");
    let r = run_single(text);
    if let Some((sig, what)) = final_sig(text, &r) {
        rep.violation(Violation { sig, what, case: json!({"text": text}), order: 0 });
    }
}
