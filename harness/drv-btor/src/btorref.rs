//! Reference btor2 interpreter working on TEXT only. It never sees patronus' IR and shares no code
//! with patronus' reader. Semantics follow the format definition in Niemetz, Preiner, Wolf, Biere:
//! "Btor2, BtorMC and Boolector 3.0" (CAV 2018), Fig. 1 (syntax) and Table 1 (operators), with the
//! operator meanings of SMT-LIB FixedSizeBitVectors / ArraysEx as implemented by `pvcore::bv`.
//!
//! Scope decisions (all on the strict side; a text outside this scope is reported as such and is
//! never used as a positive oracle):
//! * array sorts are bit-vector -> bit-vector only (`Unsupported` otherwise);
//! * lines are processed in file order, every id must be defined before it is used and defined
//!   only once; ids need not increase (the repository ships such files);
//! * `const` takes at most `w` binary digits, `constd`/`consth` may have leading zeros, the value
//!   must fit `w` bits; a negative `constd -m` needs `m <= 2^(w-1)` and means `2^w - m`;
//! * a negated operand `-n` is the bitwise complement of node `n` and needs a bit-vector node;
//! * `init` may assign a bit-vector of the element sort to an array state (constant array);
//! * `bad`/`constraint` need a 1-bit node, `output` takes any node;
//! * a state with neither `init` nor `next` behaves like an input.

use num_bigint::BigUint;
use num_traits::{One, Zero};
use pvcore::bv::{Arr, Bv, Val, pow2};
use std::collections::BTreeMap;

#[derive(Clone, Copy, PartialEq, Eq, Debug, Hash, PartialOrd, Ord)]
pub enum Sort {
    Bv(u32),
    Arr(u32, u32),
}

impl Sort {
    pub fn show(&self) -> String {
        match self {
            Sort::Bv(w) => format!("bv{w}"),
            Sort::Arr(i, d) => format!("arr{i}_{d}"),
        }
    }
    pub fn kind(&self) -> &'static str {
        match self {
            Sort::Bv(_) => "bv",
            Sort::Arr(..) => "arr",
        }
    }
}

/// operand: node id and whether it is negated
#[derive(Clone, Copy, Debug, PartialEq, Eq)]
pub struct Opnd {
    pub id: u64,
    pub neg: bool,
}

#[derive(Clone, Debug)]
pub enum Kind {
    Input,
    State,
    Const(Bv),
    /// operator application; `p` holds the integer parameters (slice: [u,l]; ext: [by])
    Op { op: String, args: Vec<Opnd>, p: Vec<u32> },
}

#[derive(Clone, Debug)]
pub struct Node {
    pub id: u64,
    pub sort: Sort,
    pub kind: Kind,
    pub symbol: Option<String>,
}

#[derive(Clone, Debug)]
pub struct StateInfo {
    pub id: u64,
    pub sort: Sort,
    pub symbol: Option<String>,
    /// the init value node; `lift` = a bit-vector assigned to an array state
    pub init: Option<(Opnd, bool)>,
    pub next: Option<Opnd>,
}

#[derive(Clone, Debug, Default)]
pub struct RefFile {
    /// nodes in definition order
    pub nodes: Vec<Node>,
    pub index: BTreeMap<u64, usize>,
    pub sorts: BTreeMap<u64, Sort>,
    pub inputs: Vec<u64>,
    pub states: Vec<StateInfo>,
    pub outputs: Vec<(Opnd, Option<String>)>,
    pub bads: Vec<Opnd>,
    pub constraints: Vec<Opnd>,
    /// operators used that patronus documents as not yet supported (inc, dec, rol, ror, *o)
    pub unsupported_ops: Vec<String>,
}

#[derive(Clone, Debug, PartialEq, Eq)]
pub enum RefErr {
    /// not a btor2 line at all (bad token, missing token, unknown tag, duplicate id, …)
    Syntax(String),
    /// an id that is used before / without being defined, or of the wrong category
    Undefined(String),
    /// the declared sort disagrees with the operands, or operands are of the wrong sort
    IllSorted(String),
    /// constant that does not fit its sort (kept apart: the format text is silent about it)
    ConstRange(String),
    /// valid btor2 that this reference model does not cover (nested arrays, fair, justice)
    Unsupported(String),
}

impl RefErr {
    pub fn class(&self) -> &'static str {
        match self {
            RefErr::Syntax(_) => "syntax",
            RefErr::Undefined(_) => "undefined",
            RefErr::IllSorted(_) => "illsorted",
            RefErr::ConstRange(_) => "constrange",
            RefErr::Unsupported(_) => "unsupported",
        }
    }
    pub fn msg(&self) -> &str {
        match self {
            RefErr::Syntax(m) | RefErr::Undefined(m) | RefErr::IllSorted(m) | RefErr::ConstRange(m) | RefErr::Unsupported(m) => m,
        }
    }
}

pub const UNARY: [&str; 8] = ["not", "inc", "dec", "neg", "redand", "redor", "redxor", "slice"];
pub const EXT: [&str; 2] = ["uext", "sext"];
pub const BOOL_BIN: [&str; 2] = ["iff", "implies"];
pub const EQ_OPS: [&str; 2] = ["eq", "neq"];
pub const CMP: [&str; 8] = ["sgt", "ugt", "sgte", "ugte", "slt", "ult", "slte", "ulte"];
pub const SAME_BIN: [&str; 19] = [
    "and", "nand", "nor", "or", "xnor", "xor", "rol", "ror", "sll", "sra", "srl", "add", "mul", "sdiv", "udiv", "smod", "srem", "urem", "sub",
];
pub const OVF: [&str; 8] = ["saddo", "uaddo", "sdivo", "udivo", "smulo", "umulo", "ssubo", "usubo"];
/// operators the patronus reader documents as not yet supported
pub const PATRONUS_UNSUPPORTED: [&str; 12] = ["inc", "dec", "rol", "ror", "saddo", "uaddo", "sdivo", "udivo", "smulo", "umulo", "ssubo", "usubo"];

pub fn is_operator(tag: &str) -> bool {
    UNARY.contains(&tag)
        || EXT.contains(&tag)
        || BOOL_BIN.contains(&tag)
        || EQ_OPS.contains(&tag)
        || CMP.contains(&tag)
        || SAME_BIN.contains(&tag)
        || OVF.contains(&tag)
        || ["concat", "read", "ite", "write"].contains(&tag)
}

/// number of node operands of an operator
pub fn arity(tag: &str) -> usize {
    if UNARY.contains(&tag) || EXT.contains(&tag) {
        1
    } else if tag == "ite" || tag == "write" {
        3
    } else {
        2
    }
}

fn tokens(line: &str) -> Vec<&str> {
    let body = match line.find(';') {
        Some(i) => &line[..i],
        None => line,
    };
    body.split([' ', '\t', '\r']).filter(|t| !t.is_empty()).collect()
}

fn parse_uint(t: &str) -> Option<u64> {
    if t.is_empty() || !t.bytes().all(|b| b.is_ascii_digit()) || t.len() > 18 {
        return None;
    }
    t.parse::<u64>().ok()
}

fn is_symbol(t: &str) -> bool {
    !t.is_empty()
}

/// value of a constant token in `radix`, or an error
fn const_value(tag: &str, tok: &str, w: u32) -> Result<Bv, RefErr> {
    let radix = match tag {
        "const" => 2,
        "constd" => 10,
        _ => 16,
    };
    let (neg, digits) = match tok.strip_prefix('-') {
        Some(d) if radix == 10 => (true, d),
        _ => (false, tok),
    };
    if digits.is_empty() || !digits.chars().all(|c| c.is_digit(radix)) {
        return Err(RefErr::Syntax(format!("`{tok}` is not a base-{radix} number")));
    }
    if radix == 2 && digits.len() > w as usize {
        return Err(RefErr::ConstRange(format!("binary constant `{tok}` has more than {w} digits")));
    }
    let v = BigUint::parse_bytes(digits.as_bytes(), radix).unwrap();
    if neg {
        if v > pow2(w - 1) {
            return Err(RefErr::ConstRange(format!("-{v} is not representable in {w} bits")));
        }
        if v.is_zero() {
            return Ok(Bv::zero(w));
        }
        Ok(Bv::new(w, pow2(w) - v))
    } else {
        if v.bits() > w as u64 {
            return Err(RefErr::ConstRange(format!("{v} does not fit {w} bits")));
        }
        Ok(Bv::new(w, v))
    }
}

impl RefFile {
    pub fn node(&self, id: u64) -> &Node {
        &self.nodes[self.index[&id]]
    }
    pub fn sort_of(&self, id: u64) -> Sort {
        self.node(id).sort
    }

    /// sorts of the system's inputs and states the way the property states them: inputs in file
    /// order followed by the states that have neither init nor next; then the remaining states.
    pub fn effective_inputs(&self) -> Vec<u64> {
        let mut v = self.inputs.clone();
        v.extend(self.states.iter().filter(|s| s.init.is_none() && s.next.is_none()).map(|s| s.id));
        v
    }
    pub fn effective_states(&self) -> Vec<&StateInfo> {
        self.states.iter().filter(|s| s.init.is_some() || s.next.is_some()).collect()
    }
    /// all symbols (inputs and states) in definition order
    pub fn symbols(&self) -> Vec<(u64, Sort)> {
        self.nodes.iter().filter(|n| matches!(n.kind, Kind::Input | Kind::State)).map(|n| (n.id, n.sort)).collect()
    }
}

/// Parse and sort-check a btor2 text.
pub fn parse(text: &str) -> Result<RefFile, RefErr> {
    let mut f = RefFile::default();
    for (lno, raw) in text.lines().enumerate() {
        let t = tokens(raw);
        if t.is_empty() {
            continue;
        }
        let at = |m: String| format!("line {}: {m}", lno + 1);
        let id = parse_uint(t[0]).filter(|x| *x > 0).ok_or_else(|| RefErr::Syntax(at(format!("`{}` is not a positive id", t[0]))))?;
        if f.sorts.contains_key(&id) || f.index.contains_key(&id) {
            return Err(RefErr::Syntax(at(format!("id {id} defined twice"))));
        }
        let tag = *t.get(1).ok_or_else(|| RefErr::Syntax(at("missing tag".into())))?;
        let need = |n: usize| -> Result<(), RefErr> {
            if t.len() < n { Err(RefErr::Syntax(at(format!("`{tag}` needs {n} tokens")))) } else { Ok(()) }
        };
        // at most one trailing symbol after `n` fixed tokens
        let symbol_after = |n: usize| -> Result<Option<String>, RefErr> {
            match t.len() {
                l if l == n => Ok(None),
                l if l == n + 1 && is_symbol(t[n]) => Ok(Some(t[n].to_string())),
                _ => Err(RefErr::Syntax(at(format!("unexpected tokens after `{tag}` line")))),
            }
        };
        let sort_id = |f: &RefFile, tok: &str| -> Result<Sort, RefErr> {
            let sid = parse_uint(tok).ok_or_else(|| RefErr::Syntax(at(format!("`{tok}` is not a sort id"))))?;
            f.sorts.get(&sid).copied().ok_or_else(|| RefErr::Undefined(at(format!("{sid} is not a sort"))))
        };
        let opnd = |f: &RefFile, tok: &str| -> Result<(Opnd, Sort), RefErr> {
            let (neg, d) = match tok.strip_prefix('-') {
                Some(d) => (true, d),
                None => (false, tok),
            };
            let nid = parse_uint(d).filter(|x| *x > 0).ok_or_else(|| RefErr::Syntax(at(format!("`{tok}` is not a node id"))))?;
            let ix = f.index.get(&nid).ok_or_else(|| RefErr::Undefined(at(format!("{nid} is not a node"))))?;
            let s = f.nodes[*ix].sort;
            if neg && !matches!(s, Sort::Bv(_)) {
                return Err(RefErr::IllSorted(at(format!("negated operand {tok} is an array"))));
            }
            Ok((Opnd { id: nid, neg }, s))
        };
        let param = |tok: &str| -> Result<u32, RefErr> {
            parse_uint(tok).filter(|x| *x <= u32::MAX as u64).map(|x| x as u32).ok_or_else(|| RefErr::Syntax(at(format!("`{tok}` is not an unsigned number"))))
        };
        let bvw = |s: Sort, what: &str| -> Result<u32, RefErr> {
            match s {
                Sort::Bv(w) => Ok(w),
                Sort::Arr(..) => Err(RefErr::IllSorted(at(format!("{what} must be a bit-vector")))),
            }
        };
        let mut add_node = |f: &mut RefFile, sort: Sort, kind: Kind, symbol: Option<String>| {
            f.index.insert(id, f.nodes.len());
            f.nodes.push(Node { id, sort, kind, symbol });
        };
        match tag {
            "sort" => {
                need(3)?;
                match t[2] {
                    "bitvec" => {
                        need(4)?;
                        symbol_after(4)?;
                        let w = param(t[3])?;
                        if w == 0 {
                            return Err(RefErr::Syntax(at("bit-vector width must be positive".into())));
                        }
                        f.sorts.insert(id, Sort::Bv(w));
                    }
                    "array" => {
                        need(5)?;
                        symbol_after(5)?;
                        let (i, e) = (sort_id(&f, t[3])?, sort_id(&f, t[4])?);
                        match (i, e) {
                            (Sort::Bv(iw), Sort::Bv(ew)) => {
                                f.sorts.insert(id, Sort::Arr(iw, ew));
                            }
                            _ => return Err(RefErr::Unsupported(at("array sort over array sorts".into()))),
                        }
                    }
                    o => return Err(RefErr::Syntax(at(format!("unknown sort kind `{o}`")))),
                }
            }
            "input" | "state" => {
                need(3)?;
                let s = sort_id(&f, t[2])?;
                let sym = symbol_after(3)?;
                if tag == "input" {
                    f.inputs.push(id);
                    add_node(&mut f, s, Kind::Input, sym);
                } else {
                    f.states.push(StateInfo { id, sort: s, symbol: sym.clone(), init: None, next: None });
                    add_node(&mut f, s, Kind::State, sym);
                }
            }
            "zero" | "one" | "ones" => {
                need(3)?;
                let s = sort_id(&f, t[2])?;
                let sym = symbol_after(3)?;
                let w = bvw(s, tag)?;
                let v = match tag {
                    "zero" => Bv::zero(w),
                    "one" => Bv::one(w),
                    _ => Bv::ones(w),
                };
                add_node(&mut f, s, Kind::Const(v), sym);
            }
            "const" | "constd" | "consth" => {
                need(4)?;
                let s = sort_id(&f, t[2])?;
                let sym = symbol_after(4)?;
                let w = bvw(s, tag)?;
                let v = const_value(tag, t[3], w).map_err(|e| match e {
                    RefErr::Syntax(m) => RefErr::Syntax(at(m)),
                    RefErr::ConstRange(m) => RefErr::ConstRange(at(m)),
                    o => o,
                })?;
                add_node(&mut f, s, Kind::Const(v), sym);
            }
            "init" | "next" => {
                need(5)?;
                symbol_after(5)?;
                let s = sort_id(&f, t[2])?;
                let sid = parse_uint(t[3]).ok_or_else(|| RefErr::Syntax(at(format!("`{}` is not a state id", t[3]))))?;
                let k = f.states.iter().position(|st| st.id == sid).ok_or_else(|| RefErr::Undefined(at(format!("{sid} is not a state"))))?;
                let (o, os) = opnd(&f, t[4])?;
                if f.states[k].sort != s {
                    return Err(RefErr::IllSorted(at(format!("{tag}: declared sort {} but the state is {}", s.show(), f.states[k].sort.show()))));
                }
                let lift = match (tag, s, os) {
                    (_, a, b) if a == b => false,
                    ("init", Sort::Arr(_, ew), Sort::Bv(w)) if ew == w => true,
                    _ => return Err(RefErr::IllSorted(at(format!("{tag}: value of sort {} for a state of sort {}", os.show(), s.show())))),
                };
                if tag == "init" {
                    if f.states[k].init.is_some() {
                        return Err(RefErr::Syntax(at("second init for the same state".into())));
                    }
                    f.states[k].init = Some((o, lift));
                } else {
                    if f.states[k].next.is_some() {
                        return Err(RefErr::Syntax(at("second next for the same state".into())));
                    }
                    f.states[k].next = Some(o);
                }
            }
            "output" | "bad" | "constraint" => {
                need(3)?;
                let sym = symbol_after(3)?;
                let (o, os) = opnd(&f, t[2])?;
                if tag != "output" && os != Sort::Bv(1) {
                    return Err(RefErr::IllSorted(at(format!("{tag} needs a 1-bit node, got {}", os.show()))));
                }
                match tag {
                    "output" => f.outputs.push((o, sym)),
                    "bad" => f.bads.push(o),
                    _ => f.constraints.push(o),
                }
            }
            "fair" | "justice" => return Err(RefErr::Unsupported(at(format!("`{tag}` (liveness) is outside this model")))),
            op if is_operator(op) => {
                let n = arity(op);
                let nparams = match op {
                    "slice" => 2,
                    "uext" | "sext" => 1,
                    _ => 0,
                };
                need(3 + n + nparams)?;
                let s = sort_id(&f, t[2])?;
                let sym = symbol_after(3 + n + nparams)?;
                let mut args = vec![];
                let mut asorts = vec![];
                for k in 0..n {
                    let (o, os) = opnd(&f, t[3 + k])?;
                    args.push(o);
                    asorts.push(os);
                }
                let mut p = vec![];
                for k in 0..nparams {
                    p.push(param(t[3 + n + k])?);
                }
                let ill = |m: String| RefErr::IllSorted(at(m));
                let res: Sort = match op {
                    "not" | "inc" | "dec" | "neg" => Sort::Bv(bvw(asorts[0], op)?),
                    "redand" | "redor" | "redxor" => {
                        bvw(asorts[0], op)?;
                        Sort::Bv(1)
                    }
                    "slice" => {
                        let w = bvw(asorts[0], op)?;
                        let (u, l) = (p[0], p[1]);
                        if !(u >= l && u < w) {
                            return Err(ill(format!("slice [{u}:{l}] of a {w}-bit node")));
                        }
                        Sort::Bv(u - l + 1)
                    }
                    "uext" | "sext" => {
                        let w = bvw(asorts[0], op)?;
                        match w.checked_add(p[0]) {
                            Some(r) => Sort::Bv(r),
                            None => return Err(ill("extension overflows the width range".into())),
                        }
                    }
                    "iff" | "implies" => {
                        if asorts[0] != Sort::Bv(1) || asorts[1] != Sort::Bv(1) {
                            return Err(ill(format!("{op} needs 1-bit operands")));
                        }
                        Sort::Bv(1)
                    }
                    "eq" | "neq" => {
                        if asorts[0] != asorts[1] {
                            return Err(ill(format!("{op} of {} and {}", asorts[0].show(), asorts[1].show())));
                        }
                        Sort::Bv(1)
                    }
                    "concat" => {
                        let (a, b) = (bvw(asorts[0], op)?, bvw(asorts[1], op)?);
                        match a.checked_add(b) {
                            Some(r) => Sort::Bv(r),
                            None => return Err(ill("concat overflows the width range".into())),
                        }
                    }
                    "read" => match asorts[0] {
                        Sort::Arr(iw, ew) => {
                            if asorts[1] != Sort::Bv(iw) {
                                return Err(ill(format!("read index {} for {}", asorts[1].show(), asorts[0].show())));
                            }
                            Sort::Bv(ew)
                        }
                        _ => return Err(ill("read of a bit-vector".into())),
                    },
                    "write" => match asorts[0] {
                        Sort::Arr(iw, ew) => {
                            if asorts[1] != Sort::Bv(iw) || asorts[2] != Sort::Bv(ew) {
                                return Err(ill(format!("write {} {} into {}", asorts[1].show(), asorts[2].show(), asorts[0].show())));
                            }
                            asorts[0]
                        }
                        _ => return Err(ill("write to a bit-vector".into())),
                    },
                    "ite" => {
                        if asorts[0] != Sort::Bv(1) {
                            return Err(ill("ite condition is not 1 bit".into()));
                        }
                        if asorts[1] != asorts[2] {
                            return Err(ill(format!("ite branches {} and {}", asorts[1].show(), asorts[2].show())));
                        }
                        asorts[1]
                    }
                    _ => {
                        // cmp / same-sort binary / overflow predicates
                        let (a, b) = (bvw(asorts[0], op)?, bvw(asorts[1], op)?);
                        if a != b {
                            return Err(ill(format!("{op} of widths {a} and {b}")));
                        }
                        if CMP.contains(&op) || OVF.contains(&op) { Sort::Bv(1) } else { Sort::Bv(a) }
                    }
                };
                if res != s {
                    return Err(ill(format!("{op} yields {} but the line declares {}", res.show(), s.show())));
                }
                if PATRONUS_UNSUPPORTED.contains(&op) && !f.unsupported_ops.iter().any(|o| o == op) {
                    f.unsupported_ops.push(op.to_string());
                }
                add_node(&mut f, s, Kind::Op { op: op.to_string(), args, p }, sym);
            }
            o => return Err(RefErr::Syntax(at(format!("unknown tag `{o}`")))),
        }
    }
    Ok(f)
}

fn b1(x: bool) -> Val {
    Val::B(Bv::from_bool(x))
}

fn to_signed(b: &Bv) -> num_bigint::BigInt {
    use num_bigint::BigInt;
    let v = BigInt::from(b.v.clone());
    if b.msb() { v - BigInt::from(pow2(b.w)) } else { v }
}

fn signed_fits(v: &num_bigint::BigInt, w: u32) -> bool {
    use num_bigint::BigInt;
    let lo = -BigInt::from(pow2(w - 1));
    let hi = BigInt::from(pow2(w - 1)) - BigInt::one();
    *v >= lo && *v <= hi
}

/// the btor2 operator table on reference values
pub fn apply(op: &str, a: &[Val], p: &[u32]) -> Val {
    let bv = |k: usize| a[k].bv();
    match op {
        "not" => Val::B(bv(0).not()),
        "neg" => Val::B(bv(0).neg()),
        "inc" => Val::B(bv(0).add(&Bv::one(bv(0).w))),
        "dec" => Val::B(bv(0).sub(&Bv::one(bv(0).w))),
        "redand" => b1(*bv(0) == Bv::ones(bv(0).w)),
        "redor" => b1(!bv(0).is_zero()),
        "redxor" => b1(bv(0).v.count_ones() % 2 == 1),
        "slice" => Val::B(bv(0).extract(p[0], p[1])),
        "uext" => Val::B(bv(0).zext(p[0])),
        "sext" => Val::B(bv(0).sext(p[0])),
        "iff" => b1(bv(0).to_bool() == bv(1).to_bool()),
        "implies" => b1(!bv(0).to_bool() || bv(1).to_bool()),
        "eq" => b1(a[0] == a[1]),
        "neq" => b1(a[0] != a[1]),
        "sgt" => b1(bv(0).sgt(bv(1))),
        "ugt" => b1(bv(0).ugt(bv(1))),
        "sgte" => b1(bv(0).sge(bv(1))),
        "ugte" => b1(bv(0).uge(bv(1))),
        "slt" => b1(bv(1).sgt(bv(0))),
        "ult" => b1(bv(1).ugt(bv(0))),
        "slte" => b1(bv(1).sge(bv(0))),
        "ulte" => b1(bv(1).uge(bv(0))),
        "and" => Val::B(bv(0).and(bv(1))),
        "nand" => Val::B(bv(0).and(bv(1)).not()),
        "nor" => Val::B(bv(0).or(bv(1)).not()),
        "or" => Val::B(bv(0).or(bv(1))),
        "xnor" => Val::B(bv(0).xor(bv(1)).not()),
        "xor" => Val::B(bv(0).xor(bv(1))),
        "rol" | "ror" => {
            let w = bv(0).w;
            let by = (&bv(1).v % BigUint::from(w)).to_u64_digits().first().copied().unwrap_or(0) as u32;
            let l = if op == "rol" { by } else { (w - by) % w };
            if l == 0 {
                Val::B(bv(0).clone())
            } else {
                // rotate left by l: low (w-l) bits move up, top l bits wrap around
                let hi = bv(0).extract(w - l - 1, 0);
                let lo = bv(0).extract(w - 1, w - l);
                Val::B(hi.concat(&lo))
            }
        }
        "sll" => Val::B(bv(0).shl(bv(1))),
        "sra" => Val::B(bv(0).ashr(bv(1))),
        "srl" => Val::B(bv(0).lshr(bv(1))),
        "add" => Val::B(bv(0).add(bv(1))),
        "mul" => Val::B(bv(0).mul(bv(1))),
        "sdiv" => Val::B(bv(0).sdiv(bv(1))),
        "udiv" => Val::B(bv(0).udiv(bv(1))),
        "smod" => Val::B(bv(0).smod(bv(1))),
        "srem" => Val::B(bv(0).srem(bv(1))),
        "urem" => Val::B(bv(0).urem(bv(1))),
        "sub" => Val::B(bv(0).sub(bv(1))),
        "uaddo" => b1((&bv(0).v + &bv(1).v).bits() > bv(0).w as u64),
        "saddo" => b1(!signed_fits(&(to_signed(bv(0)) + to_signed(bv(1))), bv(0).w)),
        "usubo" => b1(bv(0).v < bv(1).v),
        "ssubo" => b1(!signed_fits(&(to_signed(bv(0)) - to_signed(bv(1))), bv(0).w)),
        "umulo" => b1((&bv(0).v * &bv(1).v).bits() > bv(0).w as u64),
        "smulo" => b1(!signed_fits(&(to_signed(bv(0)) * to_signed(bv(1))), bv(0).w)),
        "udivo" => b1(false),
        "sdivo" => b1(bv(0).v == pow2(bv(0).w - 1) && *bv(1) == Bv::ones(bv(1).w)),
        "concat" => Val::B(bv(0).concat(bv(1))),
        "read" => Val::B(a[0].arr().select(bv(1))),
        "write" => Val::A(a[0].arr().store(bv(1), bv(2))),
        "ite" => {
            if bv(0).to_bool() {
                a[1].clone()
            } else {
                a[2].clone()
            }
        }
        o => panic!("btorref: no semantics for `{o}`"),
    }
}

/// Values of all nodes under a valuation of the inputs and states (by node id).
pub struct Evaluated<'a> {
    pub file: &'a RefFile,
    pub vals: BTreeMap<u64, Val>,
}

pub fn eval_all<'a>(f: &'a RefFile, valuation: &BTreeMap<u64, Val>) -> Evaluated<'a> {
    let mut vals: BTreeMap<u64, Val> = BTreeMap::new();
    for n in f.nodes.iter() {
        let v = match &n.kind {
            Kind::Input | Kind::State => valuation.get(&n.id).unwrap_or_else(|| panic!("btorref: no value for symbol {}", n.id)).clone(),
            Kind::Const(b) => Val::B(b.clone()),
            Kind::Op { op, args, p } => {
                let a: Vec<Val> = args.iter().map(|o| opnd_val(&vals, *o)).collect();
                apply(op, &a, p)
            }
        };
        vals.insert(n.id, v);
    }
    Evaluated { file: f, vals }
}

fn opnd_val(vals: &BTreeMap<u64, Val>, o: Opnd) -> Val {
    let v = &vals[&o.id];
    if o.neg { Val::B(v.bv().not()) } else { v.clone() }
}

impl<'a> Evaluated<'a> {
    pub fn opnd(&self, o: Opnd) -> Val {
        opnd_val(&self.vals, o)
    }
    /// value an `init` line assigns (constant array when a bit-vector initialises an array state)
    pub fn init_value(&self, st: &StateInfo) -> Option<Val> {
        st.init.map(|(o, lift)| {
            let v = self.opnd(o);
            if lift {
                match st.sort {
                    Sort::Arr(iw, _) => Val::A(Arr::constant(iw, v.bv())),
                    _ => unreachable!(),
                }
            } else {
                v
            }
        })
    }
    pub fn next_value(&self, st: &StateInfo) -> Option<Val> {
        st.next.map(|o| self.opnd(o))
    }
}

/// Self-test of the operator table against naive integer arithmetic at width 3 (derived
/// operators and operand orders): returns the number of comparisons. Panics on disagreement.
pub fn self_check() -> u64 {
    let w = 3u32;
    let m = 1i64 << w;
    let sx = |x: i64| if x >= m / 2 { x - m } else { x };
    let mut n = 0;
    for x in 0..m {
        let a = Val::B(Bv::from_u64(w, x as u64));
        let u = |op: &str| apply(op, std::slice::from_ref(&a), &[]).bv().to_u64().unwrap() as i64;
        assert_eq!(u("not"), (m - 1) ^ x);
        assert_eq!(u("neg"), (m - x) % m);
        assert_eq!(u("inc"), (x + 1) % m);
        assert_eq!(u("dec"), (x + m - 1) % m);
        assert_eq!(u("redand"), (x == m - 1) as i64);
        assert_eq!(u("redor"), (x != 0) as i64);
        assert_eq!(u("redxor"), (x.count_ones() % 2) as i64);
        n += 7;
        for y in 0..m {
            let b = Val::B(Bv::from_u64(w, y as u64));
            let f = |op: &str| apply(op, &[a.clone(), b.clone()], &[]).bv().to_u64().unwrap() as i64;
            assert_eq!(f("sgt"), (sx(x) > sx(y)) as i64);
            assert_eq!(f("sgte"), (sx(x) >= sx(y)) as i64);
            assert_eq!(f("slt"), (sx(x) < sx(y)) as i64);
            assert_eq!(f("slte"), (sx(x) <= sx(y)) as i64);
            assert_eq!(f("ugt"), (x > y) as i64);
            assert_eq!(f("ugte"), (x >= y) as i64);
            assert_eq!(f("ult"), (x < y) as i64);
            assert_eq!(f("ulte"), (x <= y) as i64);
            assert_eq!(f("eq"), (x == y) as i64);
            assert_eq!(f("neq"), (x != y) as i64);
            assert_eq!(f("nand"), (m - 1) ^ (x & y));
            assert_eq!(f("nor"), (m - 1) ^ (x | y));
            assert_eq!(f("xnor"), (m - 1) ^ (x ^ y));
            assert_eq!(f("sub"), (x - y).rem_euclid(m));
            assert_eq!(f("concat"), (x << w) | y);
            assert_eq!(f("uaddo"), (x + y >= m) as i64);
            assert_eq!(f("saddo"), (sx(x) + sx(y) >= m / 2 || sx(x) + sx(y) < -m / 2) as i64);
            assert_eq!(f("usubo"), (x < y) as i64);
            assert_eq!(f("umulo"), (x * y >= m) as i64);
            let rl = |v: i64, k: i64| ((v << k) | (v >> (w as i64 - k))) & (m - 1);
            assert_eq!(f("rol"), rl(x, y % w as i64));
            assert_eq!(f("ror"), rl(x, (w as i64 - y % w as i64) % w as i64));
            n += 21;
        }
    }
    // constants
    assert_eq!(const_value("constd", "-1", 3).unwrap(), Bv::from_u64(3, 7));
    assert_eq!(const_value("constd", "-4", 3).unwrap(), Bv::from_u64(3, 4));
    assert!(const_value("constd", "-5", 3).is_err());
    assert_eq!(const_value("constd", "007", 3).unwrap(), Bv::from_u64(3, 7));
    assert!(const_value("constd", "8", 3).is_err());
    assert_eq!(const_value("consth", "0fF", 8).unwrap(), Bv::from_u64(8, 255));
    assert_eq!(const_value("const", "011", 3).unwrap(), Bv::from_u64(3, 3));
    assert!(const_value("const", "0011", 3).is_err());
    n + 8
}
