//! Worker subprocess: runs patronus' real bmc / pdr against the reference solver found on PATH.
//! One JSON job per input line, one JSON result per output line. The environment variables that
//! steer the reference solver are set per job (the worker is single-threaded).

use patronus::expr::Context;
use patronus::mc::{InitValue, ModelCheckResult, Witness, bmc, pdr};
use patronus::smt::{BITWUZLA, CVC5, Solver, SmtLibSolver, YICES2, Z3};
use patronus::system::transform::simplify_expressions;
use pvcore::evalref::{baa_to_arr, baa_to_bv, baa_to_val};
use pvcore::run::{catch, install_panic_hook};
use pvcore::sysgen::SysSpec;
use serde_json::{Value, json};
use std::io::{BufRead, Write};

pub fn solver_by_name(name: &str) -> SmtLibSolver {
    match name {
        "z3" => Z3,
        "cvc5" => CVC5,
        "bitwuzla" => BITWUZLA,
        "yices-smt2" | "yices2" => YICES2,
        o => panic!("unknown persona {o}"),
    }
}

pub fn witness_to_json(w: &Witness) -> Value {
    let init: Vec<Value> = w
        .init
        .iter()
        .map(|v| match v {
            InitValue::BitVec(b) => json!({"bv": baa_to_bv(b).bit_str()}),
            InitValue::Array(a, idx) => {
                use baa::ArrayOps;
                let t = baa_to_arr(a);
                json!({
                    "arr": {"iw": a.index_width(), "dw": a.data_width(), "table": t.table().iter().map(|b| b.bit_str()).collect::<Vec<_>>()},
                    "indices": idx.iter().map(|i| baa_to_bv(i).bit_str()).collect::<Vec<_>>(),
                })
            }
            InitValue::None => Value::Null,
        })
        .collect();
    let inputs: Vec<Value> = w
        .inputs
        .iter()
        .map(|frame| {
            Value::Array(
                frame
                    .iter()
                    .map(|v| match v {
                        Some(v) => match baa_to_val(v) {
                            pvcore::bv::Val::B(b) => json!({"bv": b.bit_str()}),
                            pvcore::bv::Val::A(a) => json!({"arr": {"iw": a.iw, "dw": a.dw, "table": a.table().iter().map(|b| b.bit_str()).collect::<Vec<_>>()}}),
                        },
                        None => Value::Null,
                    })
                    .collect(),
            )
        })
        .collect();
    json!({
        "failed_safety": w.failed_safety,
        "init": init,
        "init_names": w.init_names,
        "inputs": inputs,
        "input_names": w.input_names,
    })
}

fn run_job(job: &Value, scratch: &str) -> Value {
    let t0 = std::time::Instant::now();
    let spec = match SysSpec::from_json(&job["sys"]) {
        Ok(s) => s,
        Err(e) => return json!({"verdict": "machinery", "msg": format!("bad system spec: {e}")}),
    };
    let trace = format!("{scratch}/trace");
    let log = format!("{scratch}/log");
    let smt_file = format!("{scratch}/replay.smt2");
    let _ = std::fs::remove_file(&trace);
    let _ = std::fs::remove_file(&log);
    let _ = std::fs::remove_file(&smt_file);
    // SAFETY: the worker is single threaded
    unsafe {
        for k in ["REFSMT_SCHEDULE", "REFSMT_DEFAULT", "REFSMT_COUNT", "REFSMT_FAULT", "REFSMT_LOG", "REFSMT_LEAF_CAP", "REFSMT_ARRAY_STYLE"] {
            std::env::remove_var(k);
        }
        std::env::set_var("REFSMT_TRACE", &trace);
        if let Some(env) = job["env"].as_object() {
            for (k, v) in env {
                if let Some(s) = v.as_str() {
                    std::env::set_var(k, s);
                }
            }
        }
        if job["log"].as_bool().unwrap_or(false) {
            std::env::set_var("REFSMT_LOG", &log);
        }
    }
    let engine = job["engine"].as_str().unwrap_or("bmc").to_string();
    if engine == "mc-tool" {
        let mut r = crate::mctool::run_tool_job(job, scratch);
        r["ms"] = json!(t0.elapsed().as_millis() as u64);
        return r;
    }
    let persona = job["persona"].as_str().unwrap_or("z3").to_string();
    let k = job["k"].as_u64().unwrap_or(4);
    let check_constraints = job["check_constraints"].as_bool().unwrap_or(false);
    let individually = job["individually"].as_bool().unwrap_or(false);
    let simplify = job["simplify"].as_bool().unwrap_or(false);
    let disable_cores = job["disable_cores"].as_bool().unwrap_or(false);
    let dump = job["dump_smt"].as_bool().unwrap_or(false);

    let mut ctx = Context::default();
    let built = spec.build(&mut ctx);
    let mut sys = built.sys;
    if simplify {
        if let Err(p) = catch(|| simplify_expressions(&mut ctx, &mut sys)) {
            return json!({"verdict": "panic", "msg": p.msg, "loc": p.short_loc(), "phase": "simplify"});
        }
    }
    let res = catch(|| {
        let solver = solver_by_name(&persona);
        let file = if dump { Some(std::fs::File::create(&smt_file).expect("smt dump file")) } else { None };
        let mut smt_ctx = solver.start(file)?;
        let r = match engine.as_str() {
            "bmc" => bmc(&mut ctx, &mut smt_ctx, &sys, check_constraints, individually, k),
            "pdr" => pdr(&mut ctx, &mut smt_ctx, &sys, disable_cores),
            o => panic!("unknown engine {o}"),
        };
        drop(smt_ctx);
        r
    });
    let mut out = match res {
        Ok(Ok(ModelCheckResult::Success)) => json!({"verdict": "success"}),
        Ok(Ok(ModelCheckResult::Unknown)) => json!({"verdict": "unknown"}),
        Ok(Ok(ModelCheckResult::Fail(w))) => json!({"verdict": "fail", "witness": witness_to_json(&w)}),
        Ok(Err(e)) => json!({"verdict": "err", "msg": format!("{e}"), "dbg": format!("{e:?}")}),
        Err(p) => json!({"verdict": "panic", "msg": p.msg, "loc": p.short_loc(), "file": p.file()}),
    };
    let tr = std::fs::read_to_string(&trace).unwrap_or_default();
    out["trace"] = Value::Array(tr.lines().map(|l| json!(l)).collect());
    if job["log"].as_bool().unwrap_or(false) {
        out["log"] = json!(std::fs::read_to_string(&log).unwrap_or_default());
    }
    if dump {
        out["smt"] = json!(std::fs::read_to_string(&smt_file).unwrap_or_default());
    }
    out["ms"] = json!(t0.elapsed().as_millis() as u64);
    out
}

pub fn main() {
    install_panic_hook();
    // reference solvers first on PATH
    let dir = std::env::var("PV_SOLVER_DIR").unwrap_or_else(|_| format!("{}/bin/solvers", pvcore::run::verif_root()));
    let path = std::env::var("PATH").unwrap_or_default();
    // SAFETY: single threaded at this point
    unsafe {
        std::env::set_var("PATH", format!("{dir}:{path}"));
    }
    let scratch = format!("{}/scratch/w{}", pvcore::run::verif_root(), std::process::id());
    std::fs::create_dir_all(&scratch).expect("scratch dir");
    let stdin = std::io::stdin();
    let mut out = std::io::stdout();
    for line in stdin.lock().lines() {
        let Ok(line) = line else { break };
        if line.trim().is_empty() {
            continue;
        }
        let job: Value = match serde_json::from_str(&line) {
            Ok(j) => j,
            Err(e) => {
                let _ = writeln!(out, "@@RESULT {}", json!({"verdict": "machinery", "msg": format!("bad job: {e}")}));
                continue;
            }
        };
        let r = run_job(&job, &scratch);
        let _ = writeln!(out, "@@RESULT {r}");
        let _ = out.flush();
    }
    let _ = std::fs::remove_dir_all(&scratch);
}
