//! C10 — PDR verdicts are sound and definite, whichever models and unsat cores the solver returns.
//! The real `patronus::mc::pdr` runs against the reference solver; every answer with more than one
//! legal value is a numbered choice point; schedules are explored with a deviation bound.

use crate::c02::{cfg_from_json, cfg_json, family};
use crate::common::*;
use crate::pool::run_jobs;
use crate::wit::check_witness;
use patronus::expr::Context;
use pvcore::run::*;
use pvcore::sysgen::*;
use serde_json::{Value, json};
use std::time::Duration;

pub fn meta(rep: &mut Report) {
    rep.rule = "bit-vector systems of the skeleton families (K1,K2,K4,K5,K6,K7; S1 sweeps, hand-ranked pools in quick) x personas {bitwuzla,z3,cvc5} with unsat-core generalisation on and off, yices persona (push/pop style) with generalisation off x solver-answer policies {default(min model, minimal core), all-max, min-with-ones-filling, full cores, padded cores}; for a subset of systems every single deviation from the default answer at every choice point of the recorded conversation (deviation bound 1; in thorough also bound 2 — every pair of deviations, the second taken from the first one's own conversation — for up to 12 systems with at most 80 single deviations) is run as its own session. Oracle: explicit-state reachability to a fixpoint: Success => no bad state reachable, Fail => one is reachable and the witness replays; Err/Unknown/panic/timeout on a fault-free run is a violation. distinct_nontrivial = distinct (system, config, schedule) sessions with at least 3 check-sat queries; states/transitions = reference reachability search; traces_validated_against_impl = sessions compared with the oracle".into();
    rep.assumptions = vec![
        "reference solver answers are legal by construction (models satisfy the query, cores are unsatisfiable subsets)".into(),
        "termination is observed as 'returns within the deadline, twice'".into(),
        "systems have at most 10 state bits; array states are excluded (documented todo in PDR)".into(),
    ];
}

struct Sess {
    spec: SysSpec,
    cfg: McCfg,
    env: Value,
    label: String,
    safe: bool,
    order: u64,
}

fn pdr_cfgs(thorough: bool, si: usize) -> Vec<McCfg> {
    let mk = |p: &'static str, no_cores: bool| McCfg { engine: "pdr", persona: p, k: 0, check_constraints: false, individually: false, simplify: false, disable_cores: no_cores };
    let all = vec![mk("bitwuzla", false), mk("bitwuzla", true), mk("z3", false), mk("z3", true), mk("cvc5", false), mk("cvc5", true), mk("yices-smt2", true)];
    if thorough {
        all
    } else {
        // two configurations per system, rotating
        vec![all[si % all.len()].clone(), all[(si + 3) % all.len()].clone()]
    }
}

fn policies() -> Vec<(&'static str, Value)> {
    vec![
        ("default", json!({})),
        ("all-max", json!({"REFSMT_DEFAULT": "model=1"})),
        ("min-fill-ones", json!({"REFSMT_DEFAULT": "model=2"})),
        ("full-cores", json!({"REFSMT_DEFAULT": "core=1"})),
        ("padded-cores-max", json!({"REFSMT_DEFAULT": "core=2,model=3"})),
        ("minimal-cores-reversed", json!({"REFSMT_DEFAULT": "core=3"})),
        ("minimal-cores-reversed-max", json!({"REFSMT_DEFAULT": "core=3,model=1"})),
    ]
}

fn classify(s: &Sess, res: &Value) -> Option<(String, String)> {
    let verdict = res["verdict"].as_str().unwrap_or("");
    let desc = format!("{} with {} under solver answers `{}` (oracle: {})", deviation(&s.spec), s.cfg.tag(), s.label, if s.safe { "safe" } else { "unsafe" });
    match verdict {
        "success" if !s.safe => Some(("wrong-verdict|unsound-success".into(), format!("pdr reports success although a bad state is reachable: {desc}"))),
        "fail" if s.safe => Some(("wrong-verdict|spurious-failure".into(), format!("pdr reports a failure although no bad state is reachable: {desc}"))),
        "success" => None,
        "fail" => {
            let mut ctx = Context::default();
            let b = s.spec.build(&mut ctx);
            match check_witness(&ctx, &b.sys, &res["witness"]) {
                Ok(_) => None,
                Err((c, m)) => Some((format!("bad-witness|{c}"), format!("pdr's counterexample does not replay: {m}: {desc}"))),
            }
        }
        "unknown" => Some(("indefinite|unknown".into(), format!("pdr answers Unknown on a fault-free run: {desc}"))),
        "err" => {
            let m = res["msg"].as_str().unwrap_or("");
            Some((format!("indefinite|err|{}", err_class(m)), format!("pdr returns an error on a fault-free run: {m} — {desc}")))
        }
        "panic" => Some((
            format!("indefinite|panic|{}", res["file"].as_str().unwrap_or("")),
            format!("pdr panics at {}: {} — {desc}", res["loc"].as_str().unwrap_or(""), res["msg"].as_str().unwrap_or("")),
        )),
        "timeout" => Some(("indefinite|timeout".into(), format!("pdr does not return within the deadline (twice): {desc}"))),
        "crash" => Some(("indefinite|crash".into(), format!("the process running pdr died: {} — {desc}", res["msg"].as_str().unwrap_or("")))),
        other => {
            eprintln!("MACHINERY: worker answered {other}: {res}");
            std::process::exit(2);
        }
    }
}

fn choice_points(res: &Value) -> Vec<(u64, String, usize, usize)> {
    let mut v = vec![];
    if let Some(a) = res["trace"].as_array() {
        for l in a {
            let l = l.as_str().unwrap_or("");
            if l.starts_with('#') {
                continue;
            }
            let p: Vec<&str> = l.split_whitespace().collect();
            if p.len() == 4 {
                v.push((p[0].parse().unwrap_or(0), p[1].to_string(), p[2].parse().unwrap_or(0), p[3].parse().unwrap_or(0)));
            }
        }
    }
    v
}

fn n_checks(res: &Value) -> usize {
    res["trace"].as_array().map(|a| a.iter().filter(|l| l.as_str().unwrap_or("").starts_with('#')).count()).unwrap_or(0)
}

pub fn run(opts: &Opts, rep: &Report) {
    let tier = match opts.mode {
        Mode::Run(t) => t,
        _ => unreachable!(),
    };
    let budget = Budget::new(opts.budget_s);
    let threads = crate::common::n_threads();
    // systems: bit-vector members, oracle to a fixpoint
    let mut specs: Vec<(SysSpec, bool, u64)> = vec![];
    let (mut n_safe, mut n_unsafe, mut deep) = (0u64, 0u64, 0u64);
    use rayon::prelude::*;
    let mut fam: Vec<SysSpec> = family(tier, opts.seed).into_iter().filter(|spec| !(spec.has_arrays() || spec.bads.is_empty() || spec.state_bits() > 10)).collect();
    // constant registers that guard the bad state first: PDR treats constant states specially (one symbol for all
    // steps), the BMC family reaches them anyway
    fam.sort_by_key(|s| if s.name.starts_with("X-constguard") { 0 } else { 1 });
    let reaches: Vec<pvcore::tsref::Reach> = fam.par_iter().map(|spec| oracle(spec, None, false)).collect();
    for (spec, r) in fam.into_iter().zip(reaches.into_iter()) {
        rep.add("states", r.states);
        rep.add("transitions", r.transitions);
        let safe = r.shortest.is_none();
        if safe {
            n_safe += 1;
        } else {
            n_unsafe += 1;
        }
        if r.depth >= 3 {
            deep += 1;
        }
        specs.push((spec, safe, r.depth));
    }
    rep.note("family", json!({"safe": n_safe, "unsafe": n_unsafe, "fixpoint_depth_ge_3": deep}));
    if n_safe == 0 || n_unsafe == 0 || deep == 0 {
        eprintln!("C10 vacuity guard: degenerate family safe={n_safe} unsafe={n_unsafe} deep={deep}");
        std::process::exit(2);
    }
    // pass 1: policies
    let mut sessions: Vec<Sess> = vec![];
    let mut order = 0u64;
    for (si, (spec, safe, _)) in specs.iter().enumerate() {
        for cfg in pdr_cfgs(tier.is_thorough(), si) {
            let pols = policies();
            let chosen: Vec<&(&str, Value)> = if tier.is_thorough() { pols.iter().collect() } else { vec![&pols[0], &pols[1 + si % 4]] };
            for (label, env) in chosen {
                if cfg.disable_cores && label.contains("cores") {
                    continue;
                }
                sessions.push(Sess { spec: spec.clone(), cfg: cfg.clone(), env: (*env).clone(), label: label.to_string(), safe: *safe, order });
                order += 1;
            }
        }
    }
    rep.add("policy_sessions_enumerated", sessions.len() as u64);
    let mut done = 0;
    // the policy sweep may use 60% of the budget; the deviation-bounded exploration gets the rest
    let policy_budget = Budget::new(opts.budget_s * if tier.is_thorough() { 0.4 } else { 0.6 });
    for chunk in sessions.chunks(96) {
        if policy_budget.exceeded() {
            rep.cap_hit(&format!("budget: {done}/{} policy sessions run", sessions.len()));
            break;
        }
        run_sessions(chunk, rep, threads);
        done += chunk.len();
    }
    // pass 2: deviation bound 1 over every choice point for a subset of systems
    let n_dev_systems = if tier.is_thorough() { 60 } else { 6 };
    let stride = (specs.len() / n_dev_systems).max(1);
    let mut explored = 0u64;
    let mut bound2_systems = 0u64;
    for (si, (spec, safe, _)) in specs.iter().enumerate().filter(|(i, _)| i % stride == (opts.seed as usize) % stride).take(n_dev_systems) {
        if budget.exceeded() {
            rep.cap_hit(&format!("budget: deviation-1 exploration covered {explored}/{n_dev_systems} systems"));
            break;
        }
        let cfg = pdr_cfgs(true, 0)[(si / stride) % 6].clone();
        // base run with counting to learn the choice points and their arities
        let base = run_jobs(&[job(spec, &cfg, json!({"REFSMT_COUNT": "64"}), false)], 1, Duration::from_secs(60));
        let points = choice_points(&base[0]);
        rep.add("choice_points_seen", points.len() as u64);
        let mut devs: Vec<Sess> = vec![];
        for (idx, kind, arity, taken) in points.iter() {
            let alts: Vec<usize> = if kind == "model" {
                let mut v = vec![1usize, 2, 3];
                // a few of the enumerated cubes
                v.extend((4..*arity).step_by(((*arity).saturating_sub(4) / 3).max(1)));
                v
            } else {
                (0..*arity).collect()
            };
            for a in alts {
                if a == *taken || a >= *arity {
                    continue;
                }
                let sched = format!("{idx}:{kind}:{a}");
                devs.push(Sess {
                    spec: spec.clone(),
                    cfg: cfg.clone(),
                    env: json!({"REFSMT_COUNT": "64", "REFSMT_SCHEDULE": sched}),
                    label: format!("deviation {sched}"),
                    safe: *safe,
                    order: (1 << 40) + ((si as u64) << 20) + (*idx << 8) + a as u64,
                });
            }
        }
        rep.add("deviation1_sessions", devs.len() as u64);
        let mut cut = false;
        let mut dev1_results: Vec<(String, u64, Value)> = vec![];
        for chunk in devs.chunks(96) {
            if budget.exceeded() {
                rep.cap_hit("budget: deviation-1 exploration of a system cut short");
                cut = true;
                break;
            }
            let rs = run_sessions(chunk, rep, threads);
            for (s, r) in chunk.iter().zip(rs.into_iter()) {
                let sched = s.env["REFSMT_SCHEDULE"].as_str().unwrap_or("").to_string();
                let at: u64 = sched.split(':').next().and_then(|x| x.parse().ok()).unwrap_or(0);
                dev1_results.push((sched, at, r));
            }
        }
        explored += 1;
        // deviation bound 2 (thorough): from every deviation-1 run, every alternative at every LATER choice
        // point of that run's own conversation (earlier points are covered from the run that deviates there)
        if tier.is_thorough() && !cut && bound2_systems < 12 && devs.len() <= 80 {
            let mut devs2: Vec<Sess> = vec![];
            for (sched1, at, r) in dev1_results.iter() {
                for (idx, kind, arity, taken) in choice_points(r).iter() {
                    if idx <= at {
                        continue;
                    }
                    let alts: Vec<usize> = if kind == "model" { vec![1usize, 2, 3] } else { (0..*arity).collect() };
                    for a in alts {
                        if a == *taken || a >= *arity {
                            continue;
                        }
                        let sched = format!("{sched1},{idx}:{kind}:{a}");
                        devs2.push(Sess {
                            spec: spec.clone(),
                            cfg: cfg.clone(),
                            env: json!({"REFSMT_COUNT": "64", "REFSMT_SCHEDULE": sched}),
                            label: format!("deviations {sched}"),
                            safe: *safe,
                            order: (1 << 41) + ((si as u64) << 24) + ((*at & 0xff) << 16) + ((*idx & 0xff) << 8) + a as u64,
                        });
                    }
                }
            }
            rep.add("deviation2_sessions_enumerated", devs2.len() as u64);
            let mut complete = true;
            for chunk in devs2.chunks(96) {
                if budget.exceeded() {
                    rep.cap_hit("budget: deviation-2 exploration of a system cut short");
                    complete = false;
                    break;
                }
                run_sessions(chunk, rep, threads);
                rep.add("deviation2_sessions", chunk.len() as u64);
            }
            if complete {
                bound2_systems += 1;
            }
        }
    }
    rep.add("systems_with_deviation_bound_2_completed", bound2_systems);
    rep.note("deviation_bound_completed", json!(if bound2_systems > 0 { 2 } else if explored > 0 { 1 } else { 0 }));
}

fn run_sessions(chunk: &[Sess], rep: &Report, threads: usize) -> Vec<Value> {
    let jobs: Vec<Value> = chunk.iter().map(|s| job(&s.spec, &s.cfg, s.env.clone(), false)).collect();
    let results = run_jobs(&jobs, threads, Duration::from_secs(90));
    let mut hs = vec![];
    for (s, r) in chunk.iter().zip(results.iter()) {
        rep.add("evaluations", 1);
        rep.add("traces_validated_against_impl", 1);
        rep.add(&format!("verdict:{}", r["verdict"].as_str().unwrap_or("?")), 1);
        rep.add("check_sat_queries", n_checks(r) as u64);
        rep.max("max_queries_in_one_run", n_checks(r) as u64);
        if n_checks(r) >= 3 {
            hs.push(hash64(&format!("{}|{}|{}", s.spec.to_json(), s.cfg.tag(), s.env)));
        }
        if s.order % 997 == 0 {
            rep.sample(json!({"system": s.spec.to_json(), "config": s.cfg.tag(), "answers": s.label, "verdict": r["verdict"], "queries": n_checks(r)}));
        }
        if let Some((class, what)) = classify(s, r) {
            rep.violation(Violation {
                sig: format!("C10|{}|{}", class, deviation(&s.spec)),
                what,
                case: json!({"sys": s.spec.to_json(), "cfg": cfg_json(&s.cfg), "env": s.env, "label": s.label}),
                order: s.order,
            });
        }
    }
    rep.distinct_hashes(&hs);
    results
}

pub fn replay(case: &Value, rep: &Report) {
    let spec = SysSpec::from_json(&case["sys"]).expect("system");
    let mut cfg = cfg_from_json(&case["cfg"]);
    cfg.engine = "pdr";
    let r = oracle(&spec, None, false);
    let s = Sess { spec: spec.clone(), cfg: cfg.clone(), env: case["env"].clone(), label: case["label"].as_str().unwrap_or("").to_string(), safe: r.shortest.is_none(), order: 0 };
    let j = job(&spec, &cfg, s.env.clone(), true);
    let r1 = run_jobs(&[j.clone()], 1, Duration::from_secs(120));
    let r2 = run_jobs(&[j], 1, Duration::from_secs(120));
    if r1[0]["log"] != r2[0]["log"] {
        eprintln!("MACHINERY: replay is not deterministic");
        std::process::exit(2);
    }
    println!("verdict: {} (oracle: {})", r1[0]["verdict"], if s.safe { "safe" } else { "unsafe" });
    if let Some((class, what)) = classify(&s, &r1[0]) {
        rep.violation(Violation { sig: format!("C10|{}|{}", class, deviation(&spec)), what, case: case.clone(), order: 0 });
    }
}
