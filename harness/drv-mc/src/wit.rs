//! Replay of a witness (as JSON from the worker) through the reference semantics — the C03 oracle.

use patronus::expr::Context;
use patronus::system::TransitionSystem;
use pvcore::bv::{Arr, Bv, Val};
use pvcore::tsref::Ts;
use serde_json::Value;

fn val_from_json(v: &Value) -> Option<Val> {
    if let Some(s) = v.get("bv").and_then(|x| x.as_str()) {
        return Some(Val::B(Bv::from_bit_str(s)));
    }
    if let Some(a) = v.get("arr") {
        let iw = a["iw"].as_u64()? as u32;
        let dw = a["dw"].as_u64()? as u32;
        let t: Vec<Bv> = a["table"].as_array()?.iter().map(|x| Bv::from_bit_str(x.as_str().unwrap_or("0"))).collect();
        return Some(Val::A(Arr::from_table(iw, dw, &t)));
    }
    None
}

pub struct WitCheck {
    pub steps: usize,
    pub executions_tried: u64,
}

/// Returns Ok(stats) when the witness is a genuine counterexample, Err((class, message)) otherwise.
pub fn check_witness(ctx: &Context, sys: &TransitionSystem, w: &Value) -> Result<WitCheck, (String, String)> {
    let ts = Ts::new(ctx, sys);
    let err = |c: &str, m: String| Err((c.to_string(), m));
    let init = w["init"].as_array().cloned().unwrap_or_default();
    let frames = w["inputs"].as_array().cloned().unwrap_or_default();
    let failed: Vec<usize> = w["failed_safety"].as_array().cloned().unwrap_or_default().iter().map(|x| x.as_u64().unwrap_or(u64::MAX) as usize).collect();
    // shape
    if init.len() != sys.states.len() {
        return err("shape-init-len", format!("witness has {} initial values for {} states", init.len(), sys.states.len()));
    }
    let names = |k: &str| -> Vec<Option<String>> {
        w[k].as_array().cloned().unwrap_or_default().iter().map(|x| x.as_str().map(|s| s.to_string())).collect()
    };
    let state_names: Vec<Option<String>> = sys.states.iter().map(|s| ctx.get_symbol_name(s.symbol).map(|x| x.to_string())).collect();
    let input_names: Vec<Option<String>> = sys.inputs.iter().map(|s| ctx.get_symbol_name(*s).map(|x| x.to_string())).collect();
    if names("init_names") != state_names {
        return err("shape-state-names", format!("witness state names {:?} differ from the system's {:?}", names("init_names"), state_names));
    }
    if names("input_names") != input_names {
        return err("shape-input-names", format!("witness input names {:?} differ from the system's {:?}", names("input_names"), input_names));
    }
    if frames.is_empty() {
        return err("shape-no-frames", "witness has no input frames".into());
    }
    let mut inputs: Vec<Vec<Val>> = vec![];
    for (j, f) in frames.iter().enumerate() {
        let f = f.as_array().cloned().unwrap_or_default();
        if f.len() != sys.inputs.len() {
            return err("shape-frame-len", format!("frame {j} has {} values for {} inputs", f.len(), sys.inputs.len()));
        }
        let mut vs = vec![];
        for (i, v) in f.iter().enumerate() {
            match val_from_json(v) {
                Some(v) => {
                    if pvcore::terms::Ty::from_patronus(patronus::expr::TypeCheck::get_type(&sys.inputs[i], ctx)) != val_ty(&v) {
                        return err("shape-input-type", format!("frame {j} input {i} has the wrong type"));
                    }
                    vs.push(v)
                }
                None => return err("shape-missing-input", format!("frame {j} has no value for input {i}")),
            }
        }
        inputs.push(vs);
    }
    if failed.is_empty() {
        return err("failed-empty", "witness lists no failed property".into());
    }
    if failed.iter().any(|b| *b >= sys.bad_states.len()) {
        return err("failed-out-of-range", format!("failed_safety {failed:?} mentions a bad state the system does not have"));
    }
    // initial state: recorded values; init expressions must agree
    let mut st0: Vec<Val> = vec![];
    for (k, v) in init.iter().enumerate() {
        match val_from_json(v) {
            Some(v) => {
                if ts.state_tys[k] != val_ty(&v) {
                    return err("shape-state-type", format!("initial value of state {k} has the wrong type"));
                }
                st0.push(v)
            }
            None => return err("shape-missing-init", format!("no initial value for state {k}")),
        }
    }
    for (k, s) in sys.states.iter().enumerate() {
        if let Some(init_e) = s.init {
            let mut env = pvcore::evalref::Env::default();
            for (s2, v) in sys.states.iter().zip(st0.iter()).take(k) {
                env.insert(s2.symbol, v.clone());
            }
            // an init expression may read the inputs of step 0
            for (i, v) in sys.inputs.iter().zip(inputs[0].iter()) {
                env.insert(*i, v.clone());
            }
            let expect = pvcore::evalref::eval_ref(ctx, init_e, &env);
            if expect != st0[k] {
                return err(
                    "init-mismatch",
                    format!("state {} starts at {} in the witness but its init expression gives {}", state_names[k].clone().unwrap_or_default(), st0[k].show(), expect.show()),
                );
            }
        }
    }
    // existential replay (next-less states may take any value after a step)
    let last = inputs.len() - 1;
    let mut tried = 0u64;
    let mut first_fail: Option<(String, String)> = None;
    fn go(
        ts: &Ts,
        inputs: &[Vec<Val>],
        failed: &[usize],
        j: usize,
        st: &[Val],
        last: usize,
        tried: &mut u64,
        first_fail: &mut Option<(String, String)>,
    ) -> bool {
        *tried += 1;
        if !ts.allowed(st, &inputs[j]) {
            if first_fail.is_none() {
                *first_fail = Some(("constraint-violated".into(), format!("a constraint does not hold at step {j}")));
            }
            return false;
        }
        if j == last {
            let bads = ts.bads(st, &inputs[j]);
            let holds: Vec<usize> = bads.iter().enumerate().filter(|(_, b)| **b).map(|(i, _)| i).collect();
            let mut f = failed.to_vec();
            f.sort();
            f.dedup();
            if holds.is_empty() {
                if first_fail.is_none() || first_fail.as_ref().unwrap().0 == "constraint-violated" {
                    *first_fail = Some(("no-bad-at-end".into(), format!("no bad state holds at the last step {j}")));
                }
                return false;
            }
            if holds != f {
                *first_fail = Some(("failed-set-wrong".into(), format!("bad states {holds:?} hold at the last step but the witness lists {f:?}")));
                return false;
            }
            return true;
        }
        for n in ts.successors(st, &inputs[j]) {
            if go(ts, inputs, failed, j + 1, &n, last, tried, first_fail) {
                return true;
            }
        }
        false
    }
    if go(&ts, &inputs, &failed, 0, &st0, last, &mut tried, &mut first_fail) {
        Ok(WitCheck { steps: last, executions_tried: tried })
    } else {
        let (c, m) = first_fail.unwrap_or(("no-execution".into(), "no execution of the system follows the witness".into()));
        Err((c, m))
    }
}

fn val_ty(v: &Val) -> pvcore::terms::Ty {
    match v {
        Val::B(b) => pvcore::terms::Ty::Bv(b.w),
        Val::A(a) => pvcore::terms::Ty::Arr(a.iw, a.dw),
    }
}
