//! C04 — the unrolled SMT encoding is well-formed and faithful to the system.
//! `UnrollSmtEncoding` is driven directly with an in-process recording `SolverContext` that
//! captures exactly the text `serialize_cmd` produces; the text goes through the strict reference
//! front end (acceptance) and is evaluated under every concrete execution (faithfulness).

use crate::c02::family;
use crate::common::deviation;
use patronus::expr::{Context, ExprRef, TypeCheck};
use patronus::mc::{TransitionSystemEncoding, UnrollSmtEncoding};
use patronus::smt::{CheckSatResponse, Logic, SmtCommand, SolverContext, SolverMetaData, serialize_cmd};
use patronus::system::TransitionSystem;
use pvcore::bv::Val;
use pvcore::run::*;
use pvcore::sysgen::*;
use pvcore::terms::{T, Ty, product};
use pvcore::tsref::Ts;
use rayon::prelude::*;
use serde_json::{Value, json};
use smtref::lex::read_all;
use smtref::script::{Caps, Script};
use std::collections::HashMap;

pub struct RecCtx {
    pub text: String,
    pub commands: Vec<String>,
}

impl RecCtx {
    fn push_cmd(&mut self, ctx: Option<&Context>, cmd: &SmtCommand) -> patronus::smt::Result<()> {
        let mut buf = Vec::new();
        serialize_cmd(&mut buf, ctx, cmd)?;
        let s = String::from_utf8_lossy(&buf).to_string();
        self.text.push_str(&s);
        self.commands.push(s);
        Ok(())
    }
}

impl SolverMetaData for RecCtx {
    fn name(&self) -> &str {
        "recorder"
    }
    fn supports_check_assuming(&self) -> bool {
        true
    }
    fn supports_uf(&self) -> bool {
        true
    }
    fn supports_const_array(&self) -> bool {
        true
    }
    fn supports_get_unsat_assumptions(&self) -> bool {
        true
    }
}

impl SolverContext for RecCtx {
    fn restart(&mut self) -> patronus::smt::Result<()> {
        Ok(())
    }
    fn set_logic(&mut self, option: Logic) -> patronus::smt::Result<()> {
        self.push_cmd(None, &SmtCommand::SetLogic(option))
    }
    fn assert(&mut self, ctx: &Context, e: ExprRef) -> patronus::smt::Result<()> {
        self.push_cmd(Some(ctx), &SmtCommand::Assert(e))
    }
    fn declare_const(&mut self, ctx: &Context, symbol: ExprRef) -> patronus::smt::Result<()> {
        self.push_cmd(Some(ctx), &SmtCommand::DeclareConst(symbol))
    }
    fn define_const(&mut self, ctx: &Context, symbol: ExprRef, expr: ExprRef) -> patronus::smt::Result<()> {
        self.push_cmd(Some(ctx), &SmtCommand::DefineConst(symbol, expr))
    }
    fn check_sat_assuming(&mut self, _ctx: &Context, _props: impl IntoIterator<Item = ExprRef>) -> patronus::smt::Result<CheckSatResponse> {
        Ok(CheckSatResponse::Unknown)
    }
    fn check_sat(&mut self) -> patronus::smt::Result<CheckSatResponse> {
        Ok(CheckSatResponse::Unknown)
    }
    fn push(&mut self) -> patronus::smt::Result<()> {
        self.push_cmd(None, &SmtCommand::Push(1))
    }
    fn pop(&mut self) -> patronus::smt::Result<()> {
        self.push_cmd(None, &SmtCommand::Pop(1))
    }
    fn get_value(&mut self, _ctx: &mut Context, e: ExprRef) -> patronus::smt::Result<ExprRef> {
        Ok(e)
    }
    fn get_unsat_assumptions(&mut self, _ctx: &mut Context) -> patronus::smt::Result<Vec<ExprRef>> {
        Ok(vec![])
    }
}

pub fn meta(rep: &mut Report) {
    rep.rule = "systems of the C02 family x entry point {init_at(0), init_at(1), init_at(3)} x 0..=2 (quick) / 0..=3 (thorough) unroll() calls (the X-deep systems also init_at(9)+2, init_at(10)+1, init_at(0)+11: two-digit step numbers) on the real UnrollSmtEncoding with a recording SolverContext; (a) the recorded script must be accepted by the strict SMT-LIB reference front end (every symbol declared or defined exactly once before use, every term well-sorted); (b) for every concrete execution of that length (all initial / free states x all input sequences x all values of next-less states) the declared constants are bound to the execution's values and every symbol returned by get_signal_at for states, inputs, constraints and bad states at every step must evaluate to the reference value of that signal in that step; every declared constant must be an input or a legitimately free state. distinct_nontrivial = distinct (system, entry, depth) scripts containing at least one define-fun; states = execution steps evaluated, transitions = signal values compared, traces_validated_against_impl = executions replayed against a recorded script".into();
    rep.assumptions = vec![
        "strictness follows the SMT-LIB 2.6 standard (redeclaring a name is an error even where z3 tolerates it)".into(),
        "at most 4096 executions per (system, entry, depth) are evaluated (reported as a cap when exceeded)".into(),
    ];
}

fn sym_name(ctx: &Context, e: ExprRef) -> Option<String> {
    ctx.get_symbol_name(e).map(|s| s.to_string())
}

fn smt_quote(name: &str) -> String {
    let simple = !name.is_empty()
        && !name.chars().next().unwrap().is_ascii_digit()
        && name.chars().all(|c| c.is_ascii_alphanumeric() || "~!@$%^&*_-+=<>.?/".contains(c));
    if simple { name.to_string() } else { format!("|{name}|") }
}

/// one (system, entry step, number of unrolls) check; returns Err((class, what)) on a violation
fn check_one(spec: &SysSpec, entry: u64, unrolls: u64, inc_out: bool, pre: Option<(u64, u64)>, rep: &Report) -> Result<bool, (String, String)> {
    let mut ctx = Context::default();
    let with_out;
    let spec = if inc_out {
        with_out = with_outputs(spec);
        &with_out
    } else {
        spec
    };
    let built = spec.build(&mut ctx);
    let sys: TransitionSystem = built.sys;
    let mut rec = RecCtx { text: String::new(), commands: vec![] };
    let run = catch(|| -> patronus::smt::Result<UnrollSmtEncoding> {
        let mut enc = UnrollSmtEncoding::new(&mut ctx, &sys, inc_out);
        // an earlier session of the same encoder on another solver (init_at starts a session afresh: a k-induction
        // style client runs the base case and the step case on one encoder): nothing of it may leak into the script
        // of the session under test
        if let Some((e0, u0)) = pre {
            let mut old = RecCtx { text: String::new(), commands: vec![] };
            enc.define_header(&mut old)?;
            enc.init_at(&mut ctx, &mut old, e0)?;
            for _ in 0..u0 {
                enc.unroll(&mut ctx, &mut old)?;
            }
        }
        enc.define_header(&mut rec)?;
        enc.init_at(&mut ctx, &mut rec, entry)?;
        for _ in 0..unrolls {
            enc.unroll(&mut ctx, &mut rec)?;
        }
        Ok(enc)
    });
    let enc = match run {
        Ok(Ok(e)) => e,
        Ok(Err(e)) => return Err(("encode-error".into(), format!("encoding returned an error: {e}"))),
        Err(p) => return Err((format!("panic|{}", p.file()), format!("encoding panicked at {}: {}", p.short_loc(), p.msg))),
    };
    // (a) strict acceptance
    let mut script = Script::new(Caps::all());
    let cmds = read_all(&rec.text).map_err(|e| ("lex-error".to_string(), format!("recorded script does not lex: {e}")))?;
    for (i, c) in cmds.iter().enumerate() {
        if let Err(e) = script.exec(c) {
            let class = if e.contains("already declared") {
                "declared-twice"
            } else if e.contains("unknown constant") {
                "used-before-declaration"
            } else if e.contains("applied to") || e.contains("sort") {
                "ill-sorted"
            } else {
                "rejected"
            };
            return Err((format!("script-{class}"), format!("command {} `{}` is rejected by a standard-conforming front end: {e}", i + 1, c.show())));
        }
    }
    let has_define = rec.text.contains("(define-fun");
    // (b) faithfulness
    let ts = Ts::new(&ctx, &sys);
    let last = entry + unrolls;
    // expected free constants: name -> (is_state, index, step)
    let mut expected: HashMap<String, (bool, usize, u64)> = HashMap::new();
    for j in entry..=last {
        for (k, _) in sys.inputs.iter().enumerate() {
            let s = enc.get_signal_at(&ctx, sys.inputs[k], j);
            expected.insert(sym_name(&ctx, s).unwrap_or_default(), (false, k, j));
        }
        for (k, st) in sys.states.iter().enumerate() {
            let free = if j == entry { entry > 0 || st.init.is_none() } else { st.next.is_none() };
            if free {
                let s = enc.get_signal_at(&ctx, st.symbol, j);
                let name = sym_name(&ctx, s).unwrap_or_default();
                // a constant state is one symbol for all steps: keep its first (entry) binding
                expected.entry(name).or_insert((true, k, j));
            }
        }
    }
    for s in script.syms.iter() {
        if s.def.is_none() && !expected.contains_key(&s.name) {
            return Err(("unexpected-free-constant".into(), format!("the script declares `{}` as a free constant although it is neither an input nor a free state of any step", s.name)));
        }
    }
    // executions: state at the entry step, inputs per step, values of next-less states per later step
    // (an initial state may be coupled with only some inputs of step 0: init expressions reading inputs)
    let start_states: Vec<(Vec<Val>, Option<Vec<Vec<Val>>>)> = if entry == 0 {
        ts.initial_configs()
    } else {
        let alph: Vec<Vec<Val>> = ts.state_tys.iter().map(|t| Ts::all_values(*t)).collect();
        product(&alph).into_iter().map(|s| (s, None)).collect()
    };
    let inputs = ts.input_space();
    let mut n_exec = 0u64;
    // depth-first over executions
    struct Frame {
        st: Vec<Val>,
        inp: Vec<Val>,
    }
    fn rec_exec(
        ts: &Ts,
        inputs: &[Vec<Val>],
        first: Option<&[Vec<Val>]>,
        trace: &mut Vec<Frame>,
        st: Vec<Val>,
        remaining: u64,
        n_exec: &mut u64,
        cap: u64,
        f: &mut dyn FnMut(&[Frame]) -> Result<(), (String, String)>,
    ) -> Result<(), (String, String)> {
        for i in first.unwrap_or(inputs).iter() {
            if *n_exec >= cap {
                return Ok(());
            }
            trace.push(Frame { st: st.clone(), inp: i.clone() });
            if remaining == 0 {
                *n_exec += 1;
                f(trace)?;
            } else {
                for n in ts.successors(&st, i) {
                    rec_exec(ts, inputs, None, trace, n, remaining - 1, n_exec, cap, f)?;
                }
            }
            trace.pop();
        }
        Ok(())
    }
    let cap = 4096u64;
    let mut compared = 0u64;
    let mut steps = 0u64;
    let (mut outputs_compared, mut outputs_skipped) = (0u64, 0u64);
    let out_ok: Vec<bool> = if inc_out { sys.outputs.iter().map(|o| catch(|| enc.get_signal_at(&ctx, o.expr, entry)).is_ok()).collect() } else { vec![] };
    let mut checker = |trace: &[Frame]| -> Result<(), (String, String)> {
        // bind declared constants
        let mut bind: HashMap<&str, Val> = HashMap::new();
        for (name, (is_state, k, j)) in expected.iter() {
            let fr = &trace[(*j - entry) as usize];
            bind.insert(name.as_str(), if *is_state { fr.st[*k].clone() } else { fr.inp[*k].clone() });
        }
        let mut scr_eval = |e: ExprRef, want: &Val, what: &str, j: u64| -> Result<(), (String, String)> {
            let s = enc.get_signal_at(&ctx, e, j);
            let got = if let Some(v) = pvcore::evalref::lit_value(&ctx, s) {
                Val::B(v)
            } else {
                let name = sym_name(&ctx, s).unwrap_or_default();
                let term = match scr_term(&script, &name) {
                    Some(t) => t,
                    None => return Err(("symbol-missing".into(), format!("get_signal_at returns `{name}` for {what} at step {j}, which the script neither declares nor defines"))),
                };
                match script.eval_with(&term, &|n| bind.get(n).cloned()) {
                    Some(v) => v,
                    None => return Err(("symbol-undetermined".into(), format!("`{name}` ({what} at step {j}) is not determined by the execution's inputs and free states"))),
                }
            };
            if &got != want {
                return Err((
                    format!("unfaithful-{}", what.split(' ').next().unwrap_or("")),
                    format!("{what} at step {j}: the script's symbol evaluates to {} but the system's semantics gives {}", got.show(), want.show()),
                ));
            }
            Ok(())
        };
        for (idx, fr) in trace.iter().enumerate() {
            let j = entry + idx as u64;
            steps += 1;
            for (k, st) in sys.states.iter().enumerate() {
                scr_eval(st.symbol, &fr.st[k], &format!("state {}", sym_name(&ctx, st.symbol).unwrap_or_default()), j)?;
                compared += 1;
            }
            for (k, i) in sys.inputs.iter().enumerate() {
                scr_eval(*i, &fr.inp[k], &format!("input {}", sym_name(&ctx, *i).unwrap_or_default()), j)?;
                compared += 1;
            }
            for (k, c) in sys.constraints.iter().enumerate() {
                let want = ts.eval(*c, &fr.st, &fr.inp);
                scr_eval(*c, &want, &format!("constraint {k}"), j)?;
                compared += 1;
            }
            for (k, b) in sys.bad_states.iter().enumerate() {
                let want = ts.eval(*b, &fr.st, &fr.inp);
                scr_eval(*b, &want, &format!("bad {k}"), j)?;
                compared += 1;
            }
            // outputs are signals of the encoding only when it was built with include_outputs
            if inc_out {
                // (get_signal_at documents access to inputs, states, constraints and bad states only: an output
                // for which it has no symbol - a literal also used elsewhere - is skipped, not reported)
                for (k, o) in sys.outputs.iter().enumerate() {
                    if !out_ok[k] {
                        outputs_skipped += 1;
                        continue;
                    }
                    let want = ts.eval(o.expr, &fr.st, &fr.inp);
                    scr_eval(o.expr, &want, &format!("output {k}"), j)?;
                    compared += 1;
                    outputs_compared += 1;
                }
            }
        }
        Ok(())
    };
    let mut trace = vec![];
    for (s0, first) in start_states {
        rec_exec(&ts, &inputs, first.as_deref(), &mut trace, s0, unrolls, &mut n_exec, cap, &mut checker)?;
    }
    if n_exec >= cap {
        rep.cap_hit("more than 4096 executions for some (system, entry, depth): only the first 4096 evaluated");
    }
    rep.add("traces_validated_against_impl", n_exec);
    rep.add("output_symbols_compared", outputs_compared);
    rep.add("output_symbols_skipped_no_symbol", outputs_skipped);
    rep.add("states", steps);
    rep.add("transitions", compared);
    Ok(has_define)
}

/// The family's systems mostly have no outputs. For the `include_outputs` encoding every system gets outputs
/// that alias what the other roots already use (hash-consing makes them the same nodes): the first next and
/// init expressions, the first bad state and constraint, a bare state, a bare input, and a literal. Existing
/// outputs are kept.
pub fn with_outputs(spec: &SysSpec) -> SysSpec {
    let mut sp = spec.clone();
    let mut add = |sp: &mut SysSpec, t: T| {
        if matches!(t.ty(), Ty::Bv(_)) {
            let n = format!("vo{}", sp.outputs.len());
            sp.outputs.push((n, t));
        }
    };
    if let Some(t) = spec.states.iter().find_map(|s| s.next.clone()) {
        add(&mut sp, t);
    }
    if let Some(t) = spec.bads.first().cloned() {
        add(&mut sp, t);
    }
    if let Some(s) = spec.states.first() {
        add(&mut sp, T::Sym(s.name.clone(), s.ty));
    }
    if let Some((n, ty)) = spec.inputs.first() {
        add(&mut sp, T::Sym(n.clone(), *ty));
    }
    if let Some(t) = spec.states.iter().find_map(|s| s.init.clone()) {
        add(&mut sp, t);
    }
    if let Some(t) = spec.constraints.first().cloned() {
        add(&mut sp, t);
    }
    sp
}

fn scr_term(script: &Script, name: &str) -> Option<std::rc::Rc<smtref::ast::Term>> {
    // a throw-away parse against the script's symbol table (ids beyond n_terms are fine for eval_with
    // because the evaluator sizes its memo from the script's counter, so parse on a clone-free path)
    let sym = script.lookup(name)?;
    let idx = script.syms.iter().position(|s| s.name == name)?;
    Some(std::rc::Rc::new(smtref::ast::Term { tm: smtref::ast::Tm::Var(idx), sort: sym.sort.clone(), id: 0 }))
}

pub fn run(opts: &Opts, rep: &Report) {
    let tier = match opts.mode {
        Mode::Run(t) => t,
        _ => unreachable!(),
    };
    let budget = Budget::new(opts.budget_s);
    let specs = family(tier, opts.seed);
    let max_unroll = if tier.is_thorough() { 3 } else { 2 };
    let mut work: Vec<(usize, u64, u64, bool, Option<(u64, u64)>)> = vec![];
    for (i, _) in specs.iter().enumerate() {
        // the encoding with and without the outputs as signals (what bmc uses is `false`); without outputs
        // in the system the two are the same encoding
        for inc_out in [false, true] {
            for entry in [0u64, 1, 3] {
                for u in 0..=max_unroll {
                    work.push((i, entry, u, inc_out, None));
                }
            }
            // two-digit step numbers: entry at 9 and 10, and a long unrolling from the initial state
            if specs[i].name.starts_with("X-deep") {
                work.extend([(i, 9, 2, inc_out, None), (i, 10, 1, inc_out, None), (i, 0, 11, inc_out, None)]);
            }
        }
    }
    // second sessions: every system, session under test {init_at(0)+1, init_at(1)+1, init_at(2)+0} after an earlier
    // session {init_at(0)+2, init_at(1)+1} with overlapping step numbers
    for (i, _) in specs.iter().enumerate() {
        for pre in [(0u64, 2u64), (1, 1)] {
            for (entry, u) in [(0u64, 1u64), (1, 1), (2, 0)] {
                work.push((i, entry, u, false, Some(pre)));
            }
        }
    }
    rep.add("cases_second_session", work.iter().filter(|w| w.4.is_some()).count() as u64);
    rep.add("cases_with_outputs_included", work.iter().filter(|w| w.3).count() as u64);
    rep.add("cases_enumerated", work.len() as u64);
    let stop = std::sync::atomic::AtomicBool::new(false);
    work.par_iter().enumerate().for_each(|(order, (i, entry, u, inc_out, pre))| {
        if stop.load(std::sync::atomic::Ordering::Relaxed) {
            return;
        }
        if budget.exceeded() {
            stop.store(true, std::sync::atomic::Ordering::Relaxed);
            return;
        }
        let spec = &specs[*i];
        rep.add("evaluations", 1);
        match check_one(spec, *entry, *u, *inc_out, *pre, rep) {
            Ok(nontrivial) => {
                if nontrivial {
                    rep.distinct_hashes(&[hash64(&format!("{}|{entry}|{u}|{inc_out}|{pre:?}", spec.to_json()))]);
                }
                if order % 5003 == 0 {
                    rep.sample(json!({"system": spec.to_json(), "entry": entry, "unrolls": u, "include_outputs": inc_out}));
                }
            }
            Err((class, what)) => {
                let entry_class = if *entry == 0 { "from-init" } else { "from-free-state" };
                rep.violation(Violation {
                    sig: format!("C04|{}|{}|{}", class, entry_class, deviation(spec)),
                    what: format!("{} [init_at({entry}) + {u} unroll(s){}{}] {what}", deviation(spec), if *inc_out { ", outputs included" } else { "" }, match pre { Some((e0, u0)) => format!(", second session of an encoder that ran init_at({e0}) + {u0} unroll(s) before"), None => String::new() }),
                    case: json!({"sys": spec.to_json(), "entry": entry, "unrolls": u, "include_outputs": inc_out, "pre": pre.map(|(a, b)| vec![a, b])}),
                    order: order as u64,
                });
            }
        }
    });
    if stop.load(std::sync::atomic::Ordering::Relaxed) {
        rep.cap_hit("budget exhausted before all (system, entry, depth) cases were run");
    }
}

pub fn replay(case: &Value, rep: &Report) {
    let spec = SysSpec::from_json(&case["sys"]).expect("system");
    let entry = case["entry"].as_u64().unwrap_or(0);
    let u = case["unrolls"].as_u64().unwrap_or(0);
    let inc_out = case["include_outputs"].as_bool().unwrap_or(false);
    let pre = case["pre"].as_array().map(|a| (a[0].as_u64().unwrap_or(0), a[1].as_u64().unwrap_or(0)));
    // print the recorded script for the reader
    {
        let mut ctx = Context::default();
        let built = spec.build(&mut ctx);
        let mut rec = RecCtx { text: String::new(), commands: vec![] };
        let _ = catch(|| {
            let mut enc = UnrollSmtEncoding::new(&mut ctx, &built.sys, inc_out);
            let _ = enc.init_at(&mut ctx, &mut rec, entry);
            for _ in 0..u {
                let _ = enc.unroll(&mut ctx, &mut rec);
            }
        });
        println!("--- recorded script ---\n{}", rec.text);
    }
    if let Err((class, what)) = check_one(&spec, entry, u, inc_out, pre, rep) {
        let entry_class = if entry == 0 { "from-init" } else { "from-free-state" };
        rep.violation(Violation { sig: format!("C04|{}|{}|{}", class, entry_class, deviation(&spec)), what, case: case.clone(), order: 0 });
    }
}

#[allow(dead_code)]
fn _t(e: ExprRef, c: &Context) -> patronus::expr::Type {
    e.get_type(c)
}
#[allow(dead_code)]
fn _q(n: &str) -> String {
    smt_quote(n)
}
