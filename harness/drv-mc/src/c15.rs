//! C15 — solver faults surface as errors, never as verdicts or hangs.
//! Fault enumeration: every response-bearing point of recorded BMC / PDR conversations x every
//! fault kind, one fault per run (deviation 1); thorough adds pairs of faults (deviation 2).

use crate::c02::{cfg_from_json, cfg_json};
use crate::common::*;
use crate::pool::run_jobs;
use pvcore::run::*;
use pvcore::sysgen::*;
use serde_json::{Value, json};
use std::time::Duration;

pub fn meta(rep: &mut Report) {
    rep.rule = "base conversations: BMC (bad states jointly / individually) and PDR (unsat-core generalisation on / off) on six systems (safe, failing at step 0, failing at step 3, with arrays, with constraints, stateless) x personas; for every response-bearing command n of the fault-free conversation (check-sat, check-sat-assuming, get-value, get-unsat-assumptions, numbered across PDR's solver restart) x every fault kind (error reply with message lengths 0,1,5,6,7,8,40 and with quotes / balanced / unbalanced parentheses, solver staying alive or exiting; unknown; empty line; unbalanced prefix of the correct reply then exit; exit 0 without reply; exit 1 with stderr text; balanced garbage; unbalanced garbage then exit; an unsolicited `unsupported` / `success` line in front of the intact reply) one run is made with that fault injected by the reference solver. Oracle: the call returns Err or Ok(Unknown) - never Ok(Success|Fail) (for the unsolicited-line faults: never a verdict other than the fault-free one), never a panic, always within the deadline (twice) - and for error replies the returned error text contains the solver's message verbatim. distinct_nontrivial = distinct fault situations (conversation, kind of command at the fault point, fault kind and parameter) in which the fault was actually delivered (the solver logged it); evaluations counts every fault position separately".into();
    rep.assumptions = vec![
        "faults are injected only at response-bearing commands; every answer in these conversations is load-bearing for the verdict".into(),
        "termination is observed as 'returns within the deadline, twice'".into(),
    ];
}

fn base_systems() -> Vec<(&'static str, SysSpec)> {
    let k1 = skeleton("K1").base;
    let mut safe = k1.clone();
    safe.bads = vec![pvcore::terms::T::bin(
        pvcore::terms::Bin::And,
        pvcore::terms::T::bin(pvcore::terms::Bin::Eq, pvcore::terms::T::sym("a2", pvcore::terms::Ty::Bv(2)), pvcore::terms::T::lit(2, 3)),
        pvcore::terms::T::bin(pvcore::terms::Bin::Eq, pvcore::terms::T::sym("a2", pvcore::terms::Ty::Bv(2)), pvcore::terms::T::lit(2, 0)),
    )];
    safe.name = "K1-safe".into();
    let mut step0 = k1.clone();
    step0.bads = vec![pvcore::terms::T::bin(pvcore::terms::Bin::Eq, pvcore::terms::T::sym("a2", pvcore::terms::Ty::Bv(2)), pvcore::terms::T::lit(2, 0))];
    step0.name = "K1-fail0".into();
    let mut cons = k1.clone();
    cons.constraints = vec![pvcore::terms::T::not(pvcore::terms::T::bin(pvcore::terms::Bin::Eq, pvcore::terms::T::sym("b2", pvcore::terms::Ty::Bv(2)), pvcore::terms::T::lit(2, 3)))];
    cons.name = "K1-constrained".into();
    vec![
        ("safe", safe),
        ("fail-at-0", step0),
        ("fail-at-3", k1),
        ("arrays", skeleton("K3").base),
        ("constraints", cons),
        ("stateless", skeleton("K4").base),
    ]
}

fn fault_menu(thorough: bool) -> Vec<(String, String)> {
    let mut v: Vec<(String, String)> = vec![];
    let msgs: Vec<String> = vec![
        "".into(),
        "x".into(),
        "12345".into(),
        "123456".into(),
        "1234567".into(),
        "12345678".into(),
        "line 3 column 7: something went wrong (1234)".into(),
        "unbalanced ( inside".into(),
        "a \"\"quoted\"\" word".into(),
        // real solvers print multi-line messages (z3 on unknown options, cvc5 parse errors)
        "first line\nsecond line".into(),
        "option (a\nb) is unknown".into(),
        // backslashes are ordinary characters of an SMT-LIB 2.6 string literal, also right before the closing quote
        "cannot open C:\\models\\lib\\".into(),
        "mid\\dle (".into(),
        "\\".into(),
    ];
    for m in msgs.iter() {
        v.push(("error".into(), m.clone()));
    }
    for m in msgs.iter().take(if thorough { 11 } else { 4 }) {
        v.push(("error-exit".into(), m.clone()));
    }
    v.push(("unknown".into(), "".into()));
    v.push(("empty".into(), "".into()));
    v.push(("truncate".into(), "1".into()));
    v.push(("truncate".into(), "3".into()));
    v.push(("exit0".into(), "".into()));
    v.push(("exit1".into(), "fatal: out of memory".into()));
    v.push(("garbage".into(), "(foo bar)".into()));
    v.push(("garbage".into(), "sat unsat".into()));
    v.push(("garbage-unbalanced".into(), "".into()));
    // an unsolicited general response in front of the intact reply (e.g. the late `unsupported` for an option
    // set at start-up): every later reply is shifted by one unless the reader stops or resynchronises
    v.push(("prefix".into(), "unsupported".into()));
    v.push(("prefix".into(), "success".into()));
    // the late error reply to a command whose reply is never read (assert, declare-fun, push, ...)
    v.push(("prefix".into(), "(error \"late reply to an earlier command\")".into()));
    v
}

struct Run {
    sys_label: &'static str,
    spec: SysSpec,
    cfg: McCfg,
    point: u64,
    cmd: String,
    kind: String,
    param: String,
    order: u64,
    /// verdict of the fault-free conversation
    base_verdict: String,
}

fn responses(res: &Value) -> Vec<(u64, String)> {
    let mut v = vec![];
    if let Some(a) = res["trace"].as_array() {
        for l in a {
            let l = l.as_str().unwrap_or("");
            if let Some(r) = l.strip_prefix("# ") {
                let p: Vec<&str> = r.split_whitespace().collect();
                if p.len() == 2 {
                    v.push((p[0].parse().unwrap_or(0), p[1].to_string()));
                }
            }
        }
    }
    v
}

fn classify(r: &Run, res: &Value) -> Option<(String, String)> {
    let verdict = res["verdict"].as_str().unwrap_or("");
    let desc = format!(
        "fault `{}`{} at response {} ({}) of {} on system `{}`",
        r.kind,
        if r.param.is_empty() { String::new() } else { format!(" [{}]", r.param) },
        r.point,
        r.cmd,
        r.cfg.tag(),
        r.sys_label
    );
    let kind_class = if r.kind.starts_with("error") { format!("{}:len{}", r.kind, msg_len_class(&r.param)) } else { r.kind.clone() };
    match verdict {
        // noise in front of an intact reply: a reader that skips it and still reports the right verdict has
        // received every answer intact; a different verdict rests on a shifted conversation
        "success" | "fail" if r.kind == "prefix" && verdict == r.base_verdict => None,
        "success" | "fail" if r.kind == "prefix" => Some((
            format!("wrong-verdict-after-noise|prefix:{}|{}", r.param, r.cmd),
            format!("the engine reports `{verdict}` (the fault-free run reports `{}`) after an unsolicited `{}` line in front of an intact reply: {desc}", r.base_verdict, r.param),
        )),
        "success" | "fail" => Some((format!("verdict-despite-fault|{kind_class}|{}", r.cmd), format!("the engine reports `{verdict}` although a solver answer it rests on was not received intact: {desc}"))),
        "unknown" => None,
        "err" => {
            if r.kind.starts_with("error") && !r.param.is_empty() {
                // the reader joins the lines of a reply with a blank: compare modulo whitespace runs
                let norm = |x: &str| x.split_whitespace().collect::<Vec<_>>().join(" ");
                let m = norm(res["msg"].as_str().unwrap_or(""));
                let want = norm(&r.param.replace("\"\"", "\""));
                if !m.contains(&norm(&r.param)) && !m.contains(&want) {
                    return Some((
                        format!("message-mangled|{kind_class}"),
                        format!("the solver's error message `{}` is not carried verbatim in the returned error `{}`: {desc}", r.param, m.replace('\n', " ")),
                    ));
                }
            }
            None
        }
        "panic" => Some((
            format!("panic|{}|{kind_class}", res["file"].as_str().unwrap_or("")),
            format!("panic at {}: {} — {desc}", res["loc"].as_str().unwrap_or(""), res["msg"].as_str().unwrap_or("")),
        )),
        "timeout" => Some((format!("hang|{kind_class}|{}", r.cmd), format!("the call does not return within the deadline (twice): {desc}"))),
        "crash" => Some((format!("crash|{kind_class}"), format!("the process died: {} — {desc}", res["msg"].as_str().unwrap_or("")))),
        other => {
            eprintln!("MACHINERY: worker answered {other}: {res}");
            std::process::exit(2);
        }
    }
}

fn msg_len_class(m: &str) -> String {
    let n = m.chars().count();
    let special = if m.contains('\n') {
        "+multiline"
    } else if m.contains('(') && !m.contains(')') {
        "+unbalanced-paren"
    } else if m.contains('"') {
        "+quote"
    } else {
        ""
    };
    format!("{}{}", if n > 8 { "9+".to_string() } else { n.to_string() }, special)
}

pub fn run(opts: &Opts, rep: &Report) {
    let tier = match opts.mode {
        Mode::Run(t) => t,
        _ => unreachable!(),
    };
    let budget = Budget::new(opts.budget_s);
    let threads = crate::common::n_threads();
    let mk = |engine: &'static str, p: &'static str, ind: bool, no_cores: bool| McCfg { engine, persona: p, k: 4, check_constraints: false, individually: ind, simplify: false, disable_cores: no_cores };
    let mut bases: Vec<(&'static str, SysSpec, McCfg)> = vec![];
    for (i, (label, spec)) in base_systems().into_iter().enumerate() {
        let personas = ["z3", "cvc5", "bitwuzla", "yices-smt2"];
        let arrays = spec.has_arrays();
        let p1 = personas[i % 3];
        bases.push((label, spec.clone(), mk("bmc", p1, false, false)));
        bases.push((label, spec.clone(), mk("bmc", personas[(i + 1) % 3], true, false)));
        if !arrays {
            bases.push((label, spec.clone(), mk("bmc", "yices-smt2", false, false)));
        }
        if !arrays && !spec.states.is_empty() {
            bases.push((label, spec.clone(), mk("pdr", personas[(i + 2) % 3], false, false)));
            bases.push((label, spec.clone(), mk("pdr", p1, false, true)));
            if tier.is_thorough() {
                bases.push((label, spec.clone(), mk("pdr", "yices-smt2", false, true)));
            }
        }
    }
    // fault-free conversations
    let jobs: Vec<Value> = bases.iter().map(|(_, s, c)| job(s, c, json!({}), false)).collect();
    let base_res = run_jobs(&jobs, threads, Duration::from_secs(120));
    let menu = fault_menu(tier.is_thorough());
    let mut runs: Vec<Run> = vec![];
    let mut order = 0u64;
    let mut kinds_seen: std::collections::BTreeSet<String> = Default::default();
    for ((label, spec, cfg), r) in bases.iter().zip(base_res.iter()) {
        let v = r["verdict"].as_str().unwrap_or("");
        if v != "success" && v != "fail" {
            // a fault-free run must give a verdict; anything else is C02/C10's finding, and the
            // conversation is unusable as a base
            rep.add("unusable_base_conversations", 1);
            continue;
        }
        let resp = responses(r);
        rep.add("response_points", resp.len() as u64);
        // quick: all points of short conversations, strided points of long ones
        let stride = if tier.is_thorough() || resp.len() <= 24 { 1 } else { resp.len().div_ceil(24) };
        for (pi, (n, cmd)) in resp.iter().enumerate() {
            if pi % stride != 0 && pi + 1 != resp.len() {
                continue;
            }
            kinds_seen.insert(cmd.clone());
            for (kind, param) in menu.iter() {
                runs.push(Run { sys_label: label, spec: spec.clone(), cfg: cfg.clone(), point: *n, cmd: cmd.clone(), kind: kind.clone(), param: param.clone(), order, base_verdict: v.to_string() });
                order += 1;
            }
        }
    }
    rep.note("response_kinds_seen", json!(kinds_seen));
    for need in ["check-sat-assuming", "check-sat", "get-value", "get-unsat-assumptions"] {
        if !kinds_seen.contains(need) {
            eprintln!("C15 vacuity guard: no fault point at a `{need}` response");
            std::process::exit(2);
        }
    }
    rep.add("fault_runs_enumerated", runs.len() as u64);
    let mut done = 0;
    for chunk in runs.chunks(256) {
        if budget.exceeded() {
            rep.cap_hit(&format!("budget: {done}/{} fault runs executed", runs.len()));
            break;
        }
        let jobs: Vec<Value> = chunk
            .iter()
            .map(|r| job(&r.spec, &r.cfg, json!({"REFSMT_FAULT": format!("{}:{}:{}", r.point, r.kind, r.param)}), true))
            .collect();
        let results = run_jobs(&jobs, threads, Duration::from_secs(8));
        let mut hs = vec![];
        for (r, res) in chunk.iter().zip(results.iter()) {
            rep.add("evaluations", 1);
            rep.add(&format!("outcome:{}", res["verdict"].as_str().unwrap_or("?")), 1);
            let delivered = res["log"].as_str().map(|l| l.contains("! fault")).unwrap_or(false) || res["verdict"] == "timeout" || res["verdict"] == "crash";
            if delivered {
                hs.push(hash64(&format!("{}|{}|{}|{}|{}", r.sys_label, r.cfg.tag(), r.cmd, r.kind, r.param)));
            } else {
                rep.add("fault_not_delivered", 1);
            }
            if r.order % 499 == 0 {
                rep.sample(json!({"system": r.sys_label, "config": r.cfg.tag(), "fault_at": r.point, "command": r.cmd, "fault": r.kind, "param": r.param, "outcome": res["verdict"], "msg": res["msg"]}));
            }
            if let Some((class, what)) = classify(r, res) {
                rep.violation(Violation {
                    sig: format!("C15|{}|{}", class, r.cfg.engine),
                    what,
                    case: json!({"sys": r.spec.to_json(), "cfg": cfg_json(&r.cfg), "fault": format!("{}:{}:{}", r.point, r.kind, r.param), "label": r.sys_label, "cmd": r.cmd}),
                    order: r.order,
                });
            }
        }
        rep.distinct_hashes(&hs);
        done += chunk.len();
    }
}

pub fn replay(case: &Value, rep: &Report) {
    let spec = SysSpec::from_json(&case["sys"]).expect("system");
    let cfg = cfg_from_json(&case["cfg"]);
    let fault = case["fault"].as_str().unwrap_or("").to_string();
    let p: Vec<&str> = fault.splitn(3, ':').collect();
    let base = run_jobs(&[job(&spec, &cfg, json!({}), false)], 1, Duration::from_secs(120));
    let r = Run {
        base_verdict: base[0]["verdict"].as_str().unwrap_or("").to_string(),
        sys_label: "replay",
        spec: spec.clone(),
        cfg: cfg.clone(),
        point: p[0].parse().unwrap_or(0),
        cmd: case["cmd"].as_str().unwrap_or("").to_string(),
        kind: p.get(1).unwrap_or(&"").to_string(),
        param: p.get(2).unwrap_or(&"").to_string(),
        order: 0,
    };
    let res = run_jobs(&[job(&spec, &cfg, json!({"REFSMT_FAULT": fault}), true)], 1, Duration::from_secs(10));
    println!("outcome: {} {}", res[0]["verdict"], res[0]["msg"]);
    if let Some(l) = res[0]["log"].as_str() {
        let tail: Vec<&str> = l.lines().rev().take(6).collect();
        println!("--- end of transcript ---");
        for t in tail.iter().rev() {
            println!("{t}");
        }
    }
    if let Some((class, what)) = classify(&r, &res[0]) {
        rep.violation(Violation { sig: format!("C15|{}|{}", class, cfg.engine), what, case: case.clone(), order: 0 });
    }
}
