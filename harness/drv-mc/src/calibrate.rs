//! Calibration of the reference solver against real z3 / cvc5 (when installed): the command
//! script of a recorded session is replayed through the real solver and every check-sat answer
//! (and the absence of errors) must agree. A disagreement is a machinery failure, never a verdict.

use std::io::Write;
use std::process::{Command, Stdio};

pub const REAL_Z3: &str = "/usr/bin/z3";
pub const REAL_CVC5: &str = "/usr/bin/cvc5";

fn answers(out: &str) -> (Vec<String>, Vec<String>) {
    let mut a = vec![];
    let mut errs = vec![];
    for l in out.lines() {
        let t = l.trim();
        if t == "sat" || t == "unsat" || t == "unknown" {
            a.push(t.to_string());
        } else if t.starts_with("(error") {
            errs.push(t.to_string());
        }
    }
    (a, errs)
}

fn run_real(bin: &str, args: &[&str], script: &str) -> Option<String> {
    if !std::path::Path::new(bin).exists() {
        return None;
    }
    let mut child = Command::new(bin).args(args).stdin(Stdio::piped()).stdout(Stdio::piped()).stderr(Stdio::null()).spawn().ok()?;
    child.stdin.take()?.write_all(script.as_bytes()).ok()?;
    let out = child.wait_with_output().ok()?;
    Some(String::from_utf8_lossy(&out.stdout).to_string())
}

/// Returns Ok(number of check-sat answers compared) or Err(description of the disagreement).
/// `transcript` is a REFSMT_LOG: lines "> command" and "< reply".
pub fn cross_check(transcript: &str) -> Result<u64, String> {
    let mut script = String::new();
    let mut ours = String::new();
    for l in transcript.lines() {
        if let Some(c) = l.strip_prefix("> ") {
            // options and logics are persona specific: keep only what every real solver knows
            if c.starts_with("(set-option") && !c.contains(":produce-unsat-assumptions") && !c.contains(":produce-models") {
                continue;
            }
            if c.starts_with("(set-logic") {
                script.push_str("(set-logic ALL)\n");
                continue;
            }
            script.push_str(c);
            script.push('\n');
        } else if let Some(r) = l.strip_prefix("< ") {
            ours.push_str(r);
            ours.push('\n');
        }
    }
    let (mine, my_errs) = answers(&ours);
    if !my_errs.is_empty() {
        // sessions with solver errors are not calibration material
        return Ok(0);
    }
    let mut compared = 0;
    for (bin, args) in [(REAL_Z3, vec!["-in"]), (REAL_CVC5, vec!["--incremental", "--produce-models"])] {
        // yices-style scripts have no logic restrictions that matter to z3/cvc5
        let Some(out) = run_real(bin, &args, &script) else { continue };
        let (theirs, errs) = answers(&out);
        // cvc5 1.0 wants a VALUE as the fill of `((as const ..) fill)`; z3 takes any term, and so does the reference
        // solver. A script with a non-literal fill is therefore no calibration material for cvc5 (a capability
        // difference between real solvers, like yices' missing `as const`; see DESIGN.md 10.6).
        if bin == REAL_CVC5 && errs.iter().any(|e| e.contains("expected a value") || e.contains("expected a constant") || e.contains("for 'val'")) {
            continue;
        }
        if !errs.is_empty() {
            return Err(format!("{bin} reports an error on a script the reference solver accepted: {}\nscript:\n{script}", errs[0]));
        }
        if theirs != mine {
            return Err(format!("{bin} answers {theirs:?} where the reference solver answers {mine:?}\nscript:\n{script}"));
        }
        compared += mine.len() as u64;
    }
    Ok(compared)
}
