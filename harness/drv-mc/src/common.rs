//! Shared helpers for the solver-backed drivers.

use patronus::expr::Context;
use pvcore::sysgen::*;
use pvcore::terms::T;
use pvcore::tsref::{Reach, Ts};
use serde_json::{Value, json};

pub const PERSONAS: [&str; 4] = ["bitwuzla", "z3", "cvc5", "yices-smt2"];

pub fn spec_uses_const_array(s: &SysSpec) -> bool {
    fn has(t: &T) -> bool {
        matches!(t, T::AConst(..)) || t.kids().iter().any(|k| has(k))
    }
    s.all_terms().iter().any(|t| has(t))
}

pub fn oracle(spec: &SysSpec, k: Option<u64>, stop: bool) -> Reach {
    let mut ctx = Context::default();
    let b = spec.build(&mut ctx);
    let ts = Ts::new(&ctx, &b.sys);
    ts.reach(k, stop)
}

#[derive(Clone, Debug)]
pub struct McCfg {
    pub engine: &'static str,
    pub persona: &'static str,
    pub k: u64,
    pub check_constraints: bool,
    pub individually: bool,
    pub simplify: bool,
    pub disable_cores: bool,
}

impl McCfg {
    pub fn bmc(persona: &'static str, k: u64, individually: bool, simplify: bool) -> McCfg {
        McCfg { engine: "bmc", persona, k, check_constraints: false, individually, simplify, disable_cores: false }
    }
    pub fn tag(&self) -> String {
        format!(
            "{}/{}{}{}{}{}",
            self.engine,
            self.persona,
            if self.individually { "/individually" } else { "/jointly" },
            if self.simplify { "/simplified" } else { "/raw" },
            if self.check_constraints { "/check-constraints" } else { "" },
            if self.disable_cores { "/no-cores" } else { "" }
        )
    }
}

pub fn job(spec: &SysSpec, cfg: &McCfg, env: Value, log: bool) -> Value {
    json!({
        "sys": spec.to_json(),
        "engine": cfg.engine,
        "persona": cfg.persona,
        "k": cfg.k,
        "check_constraints": cfg.check_constraints,
        "individually": cfg.individually,
        "simplify": cfg.simplify,
        "disable_cores": cfg.disable_cores,
        "env": env,
        "log": log,
    })
}

/// coarse class of an error text coming back from the engine
pub fn err_class(msg: &str) -> String {
    let m = msg.to_lowercase();
    if m.contains("already declared") || m.contains("already d") || m.contains("previously declared") {
        "solver-error:symbol-declared-twice".into()
    } else if m.contains("unknown constant") || m.contains("not declared") {
        "solver-error:symbol-used-before-declaration".into()
    } else if m.contains("unsupported") {
        "solver-error:unsupported".into()
    } else if m.contains("reported an error") {
        "solver-error:other".into()
    } else if m.contains("unexpected response") {
        "unexpected-response".into()
    } else if m.contains("i/o") || m.contains("unreachable") || m.contains("died") {
        "solver-dead".into()
    } else if m.contains("parse") {
        "response-parse-error".into()
    } else {
        "other".into()
    }
}

/// which slots of the skeleton's default a spec deviates from (names only; for signatures)
pub fn deviation(spec: &SysSpec) -> String {
    let name = spec.name.split('-').next().unwrap_or("").to_string();
    let Some(sk) = skeletons().into_iter().find(|k| k.name == name) else {
        return format!("custom:{}", spec.name);
    };
    let base = &sk.base;
    let mut d = vec![];
    for (i, (a, b)) in spec.states.iter().zip(base.states.iter()).enumerate() {
        if a.init != b.init {
            d.push(format!("init{i}"));
        }
        if a.next != b.next {
            d.push(format!("next{i}"));
        }
    }
    if spec.bads != base.bads {
        d.push("bad".into());
    }
    if spec.constraints != base.constraints {
        d.push("constraint".into());
    }
    if spec.outputs != base.outputs {
        d.push("output".into());
    }
    format!("{}:{}", name, if d.is_empty() { "default".to_string() } else { d.join("+") })
}

/// number of worker processes (PV_THREADS overrides the number of cores)
pub fn n_threads() -> usize {
    std::env::var("PV_THREADS").ok().and_then(|s| s.parse().ok()).unwrap_or_else(|| std::thread::available_parallelism().map(|n| n.get()).unwrap_or(8))
}
