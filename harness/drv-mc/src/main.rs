//! Solver-backed drivers: C02, C03, C04, C10, C15. `drv-mc worker` is the worker subprocess.
mod c02;
mod c03;
mod common;
mod pool;
mod wit;
mod worker;

use pvcore::run::*;

fn main() {
    if std::env::args().nth(1).as_deref() == Some("worker") {
        worker::main();
        return;
    }
    main_with(&[
        Entry { id: "C03", level: "model_checking", meta: c03::meta, run: c03::run, replay: c03::replay },
        Entry { id: "C02", level: "model_checking", meta: c02::meta, run: c02::run, replay: c02::replay }])
}
