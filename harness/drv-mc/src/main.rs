//! Solver-backed drivers: C02, C03, C04, C10, C15. `drv-mc worker` is the worker subprocess.
mod c02;
mod c03;
mod c04;
mod c10;
mod c15;
mod calibrate;
mod common;
mod mctool;
mod pool;
mod wit;
mod worker;

use pvcore::run::*;

fn main() {
    if std::env::args().nth(1).as_deref() == Some("worker") {
        worker::main();
        return;
    }
    main_with(&[
        Entry { id: "C15", level: "fault_enumeration", meta: c15::meta, run: c15::run, replay: c15::replay },
        Entry { id: "C10", level: "model_checking", meta: c10::meta, run: c10::run, replay: c10::replay },
        Entry { id: "C04", level: "model_checking", meta: c04::meta, run: c04::run, replay: c04::replay },
        Entry { id: "C03", level: "model_checking", meta: c03::meta, run: c03::run, replay: c03::replay },
        Entry { id: "C02", level: "model_checking", meta: c02::meta, run: c02::run, replay: c02::replay }])
}
