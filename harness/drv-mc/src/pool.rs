//! Pool of worker subprocesses with a per-job wall deadline. A job that exceeds the deadline has
//! its worker's whole process group killed, is retried once on a fresh worker, and is reported as
//! `{"verdict":"timeout"}` only if it times out twice and a third time when run alone with five times
//! the deadline.

use serde_json::{Value, json};
use std::io::{BufRead, BufReader, Write};
use std::os::unix::process::CommandExt;
use std::process::{Child, Command, Stdio};
use std::sync::atomic::{AtomicUsize, Ordering};
use std::sync::mpsc::{Receiver, channel};
use std::sync::{Arc, Mutex};
use std::time::Duration;

struct Worker {
    child: Child,
    stdin: std::process::ChildStdin,
    rx: Receiver<String>,
}

fn spawn_worker() -> Worker {
    let exe = std::env::current_exe().expect("current exe");
    let mut child = Command::new(exe)
        .arg("worker")
        .stdin(Stdio::piped())
        .stdout(Stdio::piped())
        .stderr(Stdio::null())
        .process_group(0)
        .spawn()
        .expect("spawn worker");
    let stdin = child.stdin.take().unwrap();
    let stdout = child.stdout.take().unwrap();
    let (tx, rx) = channel();
    std::thread::spawn(move || {
        let r = BufReader::new(stdout);
        for line in r.lines() {
            match line {
                Ok(l) => {
                    // the subject prints warnings to stdout: only marked lines are results
                    if let Some(r) = l.strip_prefix("@@RESULT ")
                        && tx.send(r.to_string()).is_err()
                    {
                        break;
                    }
                }
                Err(_) => break,
            }
        }
    });
    Worker { child, stdin, rx }
}

fn kill_worker(w: &mut Worker) {
    let pid = w.child.id() as i32;
    unsafe {
        libc::kill(-pid, libc::SIGKILL);
    }
    let _ = w.child.kill();
    let _ = w.child.wait();
    let _ = std::fs::remove_dir_all(format!("{}/scratch/w{pid}", pvcore::run::verif_root()));
}

fn run_one(w: &mut Option<Worker>, job: &Value, deadline: Duration) -> Option<Value> {
    if w.is_none() {
        *w = Some(spawn_worker());
    }
    let wk = w.as_mut().unwrap();
    let line = format!("{job}\n");
    if wk.stdin.write_all(line.as_bytes()).is_err() || wk.stdin.flush().is_err() {
        kill_worker(wk);
        *w = None;
        return Some(json!({"verdict": "machinery", "msg": "worker died before accepting the job"}));
    }
    match wk.rx.recv_timeout(deadline) {
        Ok(l) => Some(serde_json::from_str(&l).unwrap_or_else(|e| json!({"verdict": "machinery", "msg": format!("bad worker output: {e}: {l}")}))),
        Err(std::sync::mpsc::RecvTimeoutError::Timeout) => {
            kill_worker(wk);
            *w = None;
            None
        }
        Err(std::sync::mpsc::RecvTimeoutError::Disconnected) => {
            // the worker process died (abort, stack overflow, OOM kill): report as a crash
            let status = wk.child.wait().ok().map(|s| format!("{s}")).unwrap_or_default();
            kill_worker(wk);
            *w = None;
            Some(json!({"verdict": "crash", "msg": format!("worker process died: {status}")}))
        }
    }
}

/// Run all jobs; results are returned in job order.
pub fn run_jobs(jobs: &[Value], threads: usize, deadline: Duration) -> Vec<Value> {
    let results: Arc<Mutex<Vec<Option<Value>>>> = Arc::new(Mutex::new(vec![None; jobs.len()]));
    let next = Arc::new(AtomicUsize::new(0));
    std::thread::scope(|s| {
        for _ in 0..threads.min(jobs.len().max(1)) {
            let results = results.clone();
            let next = next.clone();
            s.spawn(move || {
                let mut w: Option<Worker> = None;
                loop {
                    let i = next.fetch_add(1, Ordering::SeqCst);
                    if i >= jobs.len() {
                        break;
                    }
                    let r = match run_one(&mut w, &jobs[i], deadline) {
                        Some(r) => r,
                        None => match run_one(&mut w, &jobs[i], deadline) {
                            Some(mut r) => {
                                r["first_attempt_timed_out"] = json!(true);
                                r
                            }
                            None => json!({"verdict": "timeout", "msg": format!("no answer within {:?} (twice)", deadline)}),
                        },
                    };
                    results.lock().unwrap()[i] = Some(r);
                }
                if let Some(mut wk) = w {
                    drop(wk.stdin);
                    let _ = wk.child.wait();
                }
            });
        }
    });
    // a job that timed out twice while the machine was busy with the other jobs gets a last attempt alone,
    // with five times the deadline: only a job that does not answer then either is reported as a timeout
    // (a genuine hang fails all three attempts; a slow machine does not raise an alarm)
    let mut r = results.lock().unwrap();
    let mut confirmed_hangs = 0;
    for (i, x) in r.iter_mut().enumerate() {
        // once two hangs are confirmed the machine is not the explanation: the rest keep their verdict
        if confirmed_hangs < 2 && x.as_ref().map(|v| v["verdict"] == "timeout").unwrap_or(false) {
            let mut w: Option<Worker> = None;
            if let Some(mut again) = run_one(&mut w, &jobs[i], deadline * 5) {
                again["first_attempt_timed_out"] = json!(true);
                again["answered_only_when_run_alone"] = json!(true);
                *x = Some(again);
            } else if let Some(v) = x.as_mut() {
                confirmed_hangs += 1;
                v["msg"] = json!(format!("no answer within {:?} (twice) nor within {:?} when run alone", deadline, deadline * 5));
            }
            if let Some(mut wk) = w {
                drop(wk.stdin);
                let _ = wk.child.wait();
            }
        }
    }
    r.iter().map(|x| x.clone().unwrap_or_else(|| json!({"verdict": "machinery", "msg": "job not run"}))).collect()
}
