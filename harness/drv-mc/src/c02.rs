//! C02 — BMC verdict is exact up to the bound (explicit-state reachability oracle vs the real
//! `patronus::mc::bmc` talking to the reference solver through the real pipe protocol).
//! C03 — every reported counterexample is real (witness replay; all models of the final query).

use crate::common::*;
use crate::pool::run_jobs;
use crate::wit::check_witness;
use patronus::expr::Context;
use pvcore::run::*;
use pvcore::sysgen::*;
use serde_json::{Value, json};
use std::time::Duration;

pub const KMAX_ORACLE: u64 = 5;

/// deep systems are followed to two-digit step numbers
pub fn kmax_of(spec: &SysSpec) -> u64 {
    if spec.name.starts_with("X-deep") { 12 } else { KMAX_ORACLE }
}

pub fn meta(rep: &mut Report) {
    rep.rule = "systems: skeleton families K1..K7 (DESIGN §3.5), sweeps S1 (every slot x every pool element), S3 (full product over the first pool elements), thorough adds S2 (all slot pairs); each system x solver persona x bad-state mode x simplification (orthogonal assignment in quick, full matrix in thorough) x the two boundary bounds L-1 and L around the oracle's shortest counterexample (k=4 when none); the real bmc() runs against the reference solver (decision by exhaustive enumeration) over the real pipe protocol; the verdict must be Fail iff the explicit-state oracle finds a bad state within k steps. distinct_nontrivial = distinct (system, config, bound) sessions in which the engine issued at least two check-sat queries (the transition relation was actually unrolled); states/transitions = reference states / transitions visited by the oracle's breadth-first searches; traces_validated_against_impl = sessions whose verdict was compared with the oracle".into();
    rep.assumptions = vec![
        "reference solver refsmt decides by exhaustive enumeration over the cone of each query (calibrated against real z3/cvc5 at development time)".into(),
        "init expressions read only earlier states; yices persona x systems that contain constant arrays: an error is tolerated (missing feature: no `as const` in yices, no lowering in patronus), a verdict is judged".into(),
        "systems have at most 3 state variables / 10 state bits; bounds up to 6".into(),
    ];
}

pub struct Case {
    pub spec: SysSpec,
    pub cfg: McCfg,
    pub expect_fail: bool,
    pub l: Option<u64>,
    pub order: u64,
}

pub fn family(tier: Tier, seed: u64) -> Vec<SysSpec> {
    // hand-built dead-end systems first (the sweeps reach them only at deviation 3)
    let mut out = corner_extras();
    // the 16-state lookup-table systems cost PDR hundreds of queries per session: thorough tier only
    if !tier.is_thorough() {
        out.retain(|s| !s.name.starts_with("X-table"));
    }
    out.extend(dead_end_extras());
    let quick_sk = ["K1", "K2", "K3", "K5", "K7", "K4", "K6"];
    for name in quick_sk {
        let sk = skeleton_generated(name, false);
        if tier.is_thorough() {
            out.extend(sk.s1());
            out.extend(sk.s3(3));
            out.extend(sk.s2(5));
        } else {
            // hand-ranked pools completely, generated pool elements thinned by the seed
            let hand = skeleton(name);
            out.extend(hand.s1());
            let all = sk.s1();
            let stride = 6usize;
            let off = (seed as usize) % stride;
            out.extend(all.into_iter().enumerate().filter(|(i, _)| i % stride == off).map(|(_, s)| s));
            out.extend(hand.s3(2));
        }
    }
    // dedup
    let mut seen = std::collections::HashSet::new();
    out.retain(|s| seen.insert(s.to_json().to_string()));
    // interleave the skeleton families (round robin) so that budget-capped runs cover all of them
    let mut rank: std::collections::HashMap<String, usize> = Default::default();
    let mut keyed: Vec<(usize, usize, SysSpec)> = out
        .into_iter()
        .enumerate()
        .map(|(i, s)| {
            // the hand-built corner systems come first, all of them; the other families are interleaved
            if s.name.starts_with("X-") {
                return (0, i, s);
            }
            let sk = if s.name.contains("-deadend") { "deadend".to_string() } else { s.name.split('-').next().unwrap_or("").to_string() };
            let r = rank.entry(sk).or_insert(0);
            *r += 1;
            (*r, i, s)
        })
        .collect();
    keyed.sort_by_key(|(r, i, _)| (*r, *i));
    keyed.into_iter().map(|(_, _, s)| s).collect()
}

pub fn cases(tier: Tier, seed: u64, rep: &Report) -> Vec<Case> {
    let t0 = std::time::Instant::now();
    let specs = family(tier, seed);
    if std::env::var("PV_PROFILE").is_ok() {
        eprintln!("family: {} systems in {:?}", specs.len(), t0.elapsed());
    }
    let mut out = vec![];
    let mut order = 0u64;
    let mut l_hist: std::collections::BTreeMap<String, u64> = Default::default();
    // the explicit-state oracle for every system, in parallel
    use rayon::prelude::*;
    let reaches: Vec<Option<pvcore::tsref::Reach>> =
        specs.par_iter().map(|spec| if spec.bads.is_empty() { None } else { Some(oracle(spec, Some(kmax_of(spec)), true)) }).collect();
    if std::env::var("PV_PROFILE").is_ok() {
        eprintln!("oracle done at {:?}", t0.elapsed());
    }
    for (si, spec) in specs.iter().enumerate() {
        let Some(r) = reaches[si].clone() else { continue };
        rep.add("states", r.states);
        rep.add("transitions", r.transitions);
        *l_hist.entry(format!("{:?}", r.shortest)).or_insert(0) += 1;
        let bounds: Vec<(u64, bool)> = match r.shortest {
            None => vec![(4, false)],
            Some(0) => vec![(0, true)],
            Some(l) => vec![(l - 1, false), (l, true)],
        };
        let no_yices = spec_uses_const_array(spec);
        let cfgs: Vec<(&'static str, bool, bool)> = if tier.is_thorough() {
            let mut v = vec![];
            for p in PERSONAS {
                for ind in [false, true] {
                    for simp in [false, true] {
                        v.push((p, ind, simp));
                    }
                }
            }
            v
        } else {
            // orthogonal assignment rotating with the system index
            let rot = si % 4;
            (0..4)
                .map(|j| {
                    let p = PERSONAS[(j + rot) % 4];
                    let ind = (j + si / 4) % 2 == 1;
                    let simp = (j / 2 + si / 8) % 2 == 1;
                    (p, ind, simp)
                })
                .collect()
        };
        for (k, expect_fail) in bounds {
            for (p, ind, simp) in cfgs.iter() {
                // (yices persona x constant arrays: real yices has no `(as const ..)` and patronus has no lowering, so
                // an error there is a missing feature; the session still runs and a VERDICT is judged like any other)
                if no_yices && *p == "yices-smt2" {
                    rep.add("yices-const-array-sessions(error tolerated, verdict judged)", 1);
                }
                out.push(Case { spec: spec.clone(), cfg: McCfg::bmc(p, k, *ind, *simp), expect_fail, l: r.shortest, order });
                order += 1;
            }
            // check_constraints = true is only defined when the constraints are satisfiable along
            // some execution up to the step at which bmc stops (otherwise bmc asserts by design)
            if tier.is_thorough() || si % 5 == 0 {
                let mut ctx = patronus::expr::Context::default();
                let b = spec.build(&mut ctx);
                let ts = pvcore::tsref::Ts::new(&ctx, &b.sys);
                let stop_at = if expect_fail { r.shortest.unwrap_or(k) } else { k };
                if ts.constraints_satisfiable_to(stop_at) == Some(stop_at) {
                    let p = if no_yices { "z3" } else { PERSONAS[si % 4] };
                    let mut cfg = McCfg::bmc(p, k, si % 2 == 0, false);
                    cfg.check_constraints = true;
                    out.push(Case { spec: spec.clone(), cfg, expect_fail, l: r.shortest, order });
                    order += 1;
                    rep.add("check_constraints_sessions", 1);
                } else {
                    rep.add("skipped:constraints-unsatisfiable-for-check_constraints", 1);
                }
            }
        }
    }
    // interleave the skeleton families so that a budget-capped run covers all of them
    let mut rank: std::collections::HashMap<String, u64> = Default::default();
    let mut keyed: Vec<(u64, Case)> = out
        .into_iter()
        .map(|c| {
            if c.spec.name.starts_with("X-") {
                return (0, c);
            }
            let sk = if c.spec.name.contains("-deadend") { "deadend".to_string() } else { c.spec.name.split('-').next().unwrap_or("").to_string() };
            let r = rank.entry(sk).or_insert(0);
            *r += 1;
            (*r, c)
        })
        .collect();
    keyed.sort_by_key(|(r, c)| (*r, c.order));
    let mut out: Vec<Case> = keyed.into_iter().map(|(_, c)| c).collect();
    for (i, c) in out.iter_mut().enumerate() {
        c.order = i as u64;
    }
    if std::env::var("PV_PROFILE").is_ok() {
        eprintln!("cases built at {:?}", t0.elapsed());
    }
    rep.note("shortest_counterexample_histogram", json!(l_hist));
    // vacuity guard (oracle side): both verdicts and several counterexample lengths
    let lens: Vec<&String> = l_hist.keys().collect();
    if !l_hist.contains_key("None") || lens.len() < 4 {
        eprintln!("C02 vacuity guard: degenerate system family {l_hist:?}");
        std::process::exit(2);
    }
    out
}

fn classify(case: &Case, res: &Value) -> Option<(String, String)> {
    let verdict = res["verdict"].as_str().unwrap_or("");
    let desc = format!("{} with {} at k={} (oracle: shortest counterexample {:?})", deviation(&case.spec), case.cfg.tag(), case.cfg.k, case.l);
    match verdict {
        "success" if case.expect_fail => Some(("wrong-verdict|missed-counterexample".into(), format!("bmc reports success on {desc}"))),
        "fail" if !case.expect_fail => Some(("wrong-verdict|spurious-failure".into(), format!("bmc reports a failure on {desc}"))),
        "success" | "fail" => None,
        "unknown" => Some(("unknown".into(), format!("bmc answers Unknown on a fault-free run: {desc}"))),
        "err" | "panic" if case.cfg.persona == "yices-smt2" && spec_uses_const_array(&case.spec) => None,
        "err" => {
            let m = res["msg"].as_str().unwrap_or("");
            Some((format!("err|{}", err_class(m)), format!("bmc returns an error on a fault-free run: {m} — {desc}")))
        }
        "panic" => Some((
            format!("panic|{}", res["file"].as_str().unwrap_or("")),
            format!("bmc panics at {}: {} — {desc}", res["loc"].as_str().unwrap_or(""), res["msg"].as_str().unwrap_or("")),
        )),
        "timeout" => Some(("timeout".into(), format!("bmc does not return within the deadline (twice): {desc}"))),
        "crash" => Some(("crash".into(), format!("the process running bmc died: {} — {desc}", res["msg"].as_str().unwrap_or("")))),
        other => {
            eprintln!("MACHINERY: worker answered {other}: {res}");
            std::process::exit(2);
        }
    }
}

fn n_checks(res: &Value) -> usize {
    res["trace"].as_array().map(|a| a.iter().filter(|l| l.as_str().unwrap_or("").starts_with('#')).count()).unwrap_or(0)
}

pub fn run(opts: &Opts, rep: &Report) {
    let tier = match opts.mode {
        Mode::Run(t) => t,
        _ => unreachable!(),
    };
    // the repository's own command-line tool first, end to end (a fifth of the budget at most)
    crate::mctool::stage("C02", tier, opts.seed, &Budget::new(opts.budget_s * 0.2), rep);
    let budget = Budget::new(opts.budget_s);
    let all = cases(tier, opts.seed, rep);
    rep.add("cases_enumerated", all.len() as u64);
    let threads = crate::common::n_threads();
    // process in slices so that the budget can stop the run between slices
    let mut done = 0usize;
    for chunk in all.chunks(256) {
        if budget.exceeded() {
            rep.cap_hit(&format!("budget: {done}/{} sessions run", all.len()));
            break;
        }
        let jobs: Vec<Value> = chunk.iter().map(|c| job(&c.spec, &c.cfg, json!({}), false)).collect();
        let results = run_jobs(&jobs, threads, Duration::from_secs(20));
        let mut hs = vec![];
        for (c, r) in chunk.iter().zip(results.iter()) {
            rep.add("evaluations", 1);
            rep.add("traces_validated_against_impl", 1);
            rep.add(&format!("verdict:{}", r["verdict"].as_str().unwrap_or("?")), 1);
            rep.add("worker_ms_total", r["ms"].as_u64().unwrap_or(0));
            if n_checks(r) >= 2 {
                hs.push(hash64(&format!("{}|{}|{}", c.spec.to_json(), c.cfg.tag(), c.cfg.k)));
            }
            if c.order % 4001 == 0 {
                rep.sample(json!({"system": c.spec.to_json(), "config": c.cfg.tag(), "k": c.cfg.k, "oracle_shortest": c.l, "verdict": r["verdict"]}));
            }
            if let Some((class, what)) = classify(c, r) {
                let sig = format!("C02|{}|{}", class, deviation(&c.spec));
                rep.violation(Violation {
                    sig,
                    what,
                    case: json!({"sys": c.spec.to_json(), "cfg": cfg_json(&c.cfg), "expect_fail": c.expect_fail, "l": c.l}),
                    order: c.order,
                });
            }
        }
        rep.distinct_hashes(&hs);
        done += chunk.len();
    }
    // calibration of the reference solver against real solvers on a slice of the sessions
    let n_cal = if tier.is_thorough() { 400 } else { 12 };
    let stride = (all.len() / n_cal).max(1);
    let sample: Vec<&Case> = all.iter().step_by(stride).take(n_cal).collect();
    let jobs: Vec<Value> = sample.iter().map(|c| job(&c.spec, &c.cfg, json!({}), true)).collect();
    let results = run_jobs(&jobs, threads, Duration::from_secs(30));
    {
        use rayon::prelude::*;
        results.par_iter().for_each(|r| {
            if let Some(log) = r["log"].as_str() {
                match crate::calibrate::cross_check(log) {
                    Ok(n) => rep.add("check_sat_answers_confirmed_by_real_solvers", n),
                    Err(e) => {
                        eprintln!("MACHINERY: calibration disagreement: {e}");
                        std::process::exit(2);
                    }
                }
            }
        });
    }
}

pub fn cfg_json(c: &McCfg) -> Value {
    json!({"engine": c.engine, "persona": c.persona, "k": c.k, "check_constraints": c.check_constraints, "individually": c.individually, "simplify": c.simplify, "disable_cores": c.disable_cores})
}

pub fn cfg_from_json(v: &Value) -> McCfg {
    let persona = PERSONAS.iter().find(|p| Some(**p) == v["persona"].as_str()).copied().unwrap_or("z3");
    McCfg {
        engine: if v["engine"] == "pdr" { "pdr" } else { "bmc" },
        persona,
        k: v["k"].as_u64().unwrap_or(4),
        check_constraints: v["check_constraints"].as_bool().unwrap_or(false),
        individually: v["individually"].as_bool().unwrap_or(false),
        simplify: v["simplify"].as_bool().unwrap_or(false),
        disable_cores: v["disable_cores"].as_bool().unwrap_or(false),
    }
}

pub fn replay(case: &Value, rep: &Report) {
    if crate::mctool::replay("C02", case, rep) {
        return;
    }
    let spec = SysSpec::from_json(&case["sys"]).expect("system");
    let cfg = cfg_from_json(&case["cfg"]);
    let r = oracle(&spec, Some(kmax_of(&spec).max(cfg.k)), true);
    let expect_fail = r.shortest.map(|l| l <= cfg.k).unwrap_or(false);
    let c = Case { spec: spec.clone(), cfg: cfg.clone(), expect_fail, l: r.shortest, order: 0 };
    let res = run_jobs(&[job(&spec, &cfg, json!({}), true)], 1, Duration::from_secs(30));
    println!("verdict: {} (oracle expects {})", res[0]["verdict"], if expect_fail { "fail" } else { "success" });
    if let Some(l) = res[0]["log"].as_str() {
        println!("--- solver transcript ---\n{l}");
    }
    if let Some((class, what)) = classify(&c, &res[0]) {
        rep.violation(Violation { sig: format!("C02|{}|{}", class, deviation(&spec)), what, case: case.clone(), order: 0 });
    }
}

#[allow(dead_code)]
pub fn witness_ok(spec: &SysSpec, w: &Value) -> Result<(), (String, String)> {
    let mut ctx = Context::default();
    let b = spec.build(&mut ctx);
    check_witness(&ctx, &b.sys, w).map(|_| ())
}
