//! C03 — every reported counterexample is a real execution that hits a bad state.
//! Failing members of the C02 space x all models the solver may legally return for the final
//! satisfiable query (enumerated as numbered alternatives of the reference solver's model choice
//! point) x personas; plus failures reported by PDR (built by its BMC fallback).

use crate::c02::{cases, cfg_from_json, cfg_json};
use crate::common::*;
use crate::pool::run_jobs;
use crate::wit::check_witness;
use patronus::expr::Context;
use pvcore::run::*;
use pvcore::sysgen::*;
use serde_json::{Value, json};
use std::time::Duration;

pub fn meta(rep: &mut Report) {
    rep.rule = "every failing (system, config, bound=L) session of the C02 family is run with the reference solver counting the satisfying cubes of the final query (cap 256); then one session per alternative model (min, max, both don't-care fillings, every cube) is run by steering the model choice point; PDR is run on the bit-vector members (its failures come from the BMC fallback); every returned witness is replayed through the reference semantics: shape (names, order, one frame per step, a value for every input), init values agree with init expressions, every constraint holds at every step, failed_safety is exactly the non-empty set of bad states holding at the last step (existential over values of next-less states). distinct_nontrivial = distinct witnesses (by content) checked; states/transitions = replay steps / executions tried by the replay search; traces_validated_against_impl = witnesses replayed".into();
    rep.assumptions = vec![
        "a witness records no values for next-less states after step 0, so the replay is existential for those".into(),
        "above 256 satisfying cubes only min/max and the two don't-care fillings are explored (reported as a cap)".into(),
    ];
}

fn last_model_point(res: &Value) -> Option<(u64, usize)> {
    let mut out = None;
    for l in res["trace"].as_array()?.iter() {
        let l = l.as_str()?;
        if l.starts_with('#') {
            continue;
        }
        let p: Vec<&str> = l.split_whitespace().collect();
        if p.len() == 4 && p[1] == "model" {
            out = Some((p[0].parse().ok()?, p[2].parse().ok()?));
        }
    }
    out
}

fn check(spec: &SysSpec, cfg: &McCfg, res: &Value, schedule: &str, rep: &Report, order: u64, hs: &mut Vec<u64>) {
    rep.add("evaluations", 1);
    match res["verdict"].as_str().unwrap_or("") {
        "fail" => {
            let mut ctx = Context::default();
            let b = spec.build(&mut ctx);
            rep.add("traces_validated_against_impl", 1);
            hs.push(hash64(&format!("{}|{}", spec.to_json(), res["witness"])));
            match check_witness(&ctx, &b.sys, &res["witness"]) {
                Ok(st) => {
                    rep.add("states", st.steps as u64 + 1);
                    rep.add("transitions", st.executions_tried);
                }
                Err((class, msg)) => {
                    rep.violation(Violation {
                        sig: format!("C03|{}|{}|{}", class, cfg.engine, deviation(spec)),
                        what: format!("witness returned by {} on {} (solver answers: {}) is not a counterexample: {msg}; witness = {}", cfg.tag(), deviation(spec), if schedule.is_empty() { "default" } else { schedule }, res["witness"]),
                        case: json!({"sys": spec.to_json(), "cfg": cfg_json(cfg), "schedule": schedule}),
                        order,
                    });
                }
            }
        }
        "machinery" => {
            eprintln!("MACHINERY: {res}");
            std::process::exit(2);
        }
        // wrong verdicts, errors, panics on these sessions are C02's / C10's business
        other => rep.add(&format!("not-a-failure:{other}"), 1),
    }
}

pub fn run(opts: &Opts, rep: &Report) {
    let tier = match opts.mode {
        Mode::Run(t) => t,
        _ => unreachable!(),
    };
    // witnesses printed by the repository's own command-line tool (a fifth of the budget at most)
    crate::mctool::stage("C03", tier, opts.seed, &Budget::new(opts.budget_s * 0.2), rep);
    let budget = Budget::new(opts.budget_s);
    let scratch = Report::new("C03", tier, opts.seed, "model_checking");
    // the sessions the oracle expects to fail, plus every session of the corner systems (a counterexample reported
    // where none exists cannot replay: it is judged here as a witness, and in C02 as a verdict)
    let all: Vec<_> = cases(tier, opts.seed, &scratch).into_iter().filter(|c| c.expect_fail || c.spec.name.starts_with("X-")).collect();
    rep.add("failing_sessions_enumerated", all.len() as u64);
    let threads = crate::common::n_threads();
    let alt_cap = if tier.is_thorough() { 260 } else { 24 };
    let mut done = 0usize;
    for chunk in all.chunks(128) {
        if budget.exceeded() {
            rep.cap_hit(&format!("budget: {done}/{} failing sessions explored", all.len()));
            break;
        }
        // pass 1: default answers, counting cubes
        let jobs: Vec<Value> = chunk.iter().map(|c| job(&c.spec, &c.cfg, json!({"REFSMT_COUNT": "256"}), false)).collect();
        let results = run_jobs(&jobs, threads, Duration::from_secs(30));
        let mut hs = vec![];
        let mut alt_jobs = vec![];
        let mut alt_meta = vec![];
        for (c, r) in chunk.iter().zip(results.iter()) {
            check(&c.spec, &c.cfg, r, "", rep, c.order << 12, &mut hs);
            if r["verdict"] != "fail" {
                continue;
            }
            if let Some((idx, arity)) = last_model_point(r) {
                rep.max("max_model_alternatives", arity as u64);
                let alts: Vec<usize> = if arity <= alt_cap {
                    (1..arity).collect()
                } else {
                    rep.cap_hit("more model alternatives than the per-session cap: strided");
                    let stride = arity.div_ceil(alt_cap);
                    let mut v: Vec<usize> = vec![1, 2, 3];
                    v.extend((4..arity).step_by(stride));
                    v
                };
                for a in alts {
                    let sched = format!("{idx}:model:{a}");
                    alt_jobs.push(job(&c.spec, &c.cfg, json!({"REFSMT_COUNT": "256", "REFSMT_SCHEDULE": sched}), false));
                    alt_meta.push((c, sched, a));
                }
            }
        }
        // systems with arrays: the same sessions with the solver spelling array values differently (shadowed
        // stores, descending store order) - legal answers a witness extraction must read the same way
        for (c, r) in chunk.iter().zip(results.iter()) {
            if r["verdict"] == "fail" && c.spec.has_arrays() {
                for style in ["shadowed", "descending"] {
                    alt_jobs.push(job(&c.spec, &c.cfg, json!({"REFSMT_COUNT": "256", "REFSMT_ARRAY_STYLE": style}), false));
                    alt_meta.push((c, format!("array-style:{style}"), 4000 + style.len()));
                    rep.add("array_style_sessions", 1);
                }
            }
        }
        let alt_results = run_jobs(&alt_jobs, threads, Duration::from_secs(30));
        for ((c, sched, a), r) in alt_meta.iter().zip(alt_results.iter()) {
            check(&c.spec, &c.cfg, r, sched, rep, (c.order << 12) + *a as u64, &mut hs);
        }
        rep.distinct_hashes(&hs);
        if done == 0 && !chunk.is_empty() {
            rep.sample(json!({"system": chunk[0].spec.to_json(), "config": chunk[0].cfg.tag(), "witness": results[0]["witness"]}));
        }
        done += chunk.len();
    }
    // PDR failures (bit-vector systems only)
    if !budget.exceeded() {
        let mut jobs = vec![];
        let mut meta = vec![];
        for c in all.iter().filter(|c| !c.spec.has_arrays() && c.cfg.persona != "yices-smt2").step_by(if tier.is_thorough() { 1 } else { 7 }) {
            let mut cfg = c.cfg.clone();
            cfg.engine = "pdr";
            jobs.push(job(&c.spec, &cfg, json!({}), false));
            meta.push((c, cfg));
        }
        let results = run_jobs(&jobs, threads, Duration::from_secs(60));
        let mut hs = vec![];
        for ((c, cfg), r) in meta.iter().zip(results.iter()) {
            rep.add("pdr_sessions", 1);
            check(&c.spec, cfg, r, "", rep, (c.order << 12) + 4095, &mut hs);
        }
        rep.distinct_hashes(&hs);
    } else {
        rep.cap_hit("budget: PDR witnesses not explored");
    }
}

pub fn replay(case: &Value, rep: &Report) {
    if crate::mctool::replay("C03", case, rep) {
        return;
    }
    let spec = SysSpec::from_json(&case["sys"]).expect("system");
    let cfg = cfg_from_json(&case["cfg"]);
    let sched = case["schedule"].as_str().unwrap_or("").to_string();
    let mut env = json!({"REFSMT_COUNT": "256"});
    if let Some(style) = sched.strip_prefix("array-style:") {
        env["REFSMT_ARRAY_STYLE"] = json!(style);
    } else if !sched.is_empty() {
        env["REFSMT_SCHEDULE"] = json!(sched);
    }
    let j = job(&spec, &cfg, env, true);
    // replay twice: the transcript must be identical before the failure is trusted
    let r1 = run_jobs(&[j.clone()], 1, Duration::from_secs(60));
    let r2 = run_jobs(&[j], 1, Duration::from_secs(60));
    if r1[0]["log"] != r2[0]["log"] {
        eprintln!("MACHINERY: replay is not deterministic");
        std::process::exit(2);
    }
    println!("verdict: {}", r1[0]["verdict"]);
    println!("witness: {}", r1[0]["witness"]);
    let mut hs = vec![];
    check(&spec, &cfg, &r1[0], &sched, rep, 0, &mut hs);
}
