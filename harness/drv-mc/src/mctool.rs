//! End-to-end stage over the repository's own `mc` command-line tool (`tools/mc`, an anchor of C02/C03):
//! a system of the family is written as btor2 text, the text is read back (the oracle works on exactly the
//! system the tool reads), the real `mc` binary runs on the file against the reference solver found on PATH,
//! and what it prints is compared with the explicit-state oracle: `unsat` iff no bad state is reachable within
//! the bound it was given (bmc; a stateless design is checked at step 0 only) or at all (pdr); a printed
//! witness must replay (bit-vector systems; the text format does not carry array defaults).
//!
//! Worker side: `run_tool_job` (one process per session, killed with the worker's process group on a
//! deadline). Driver side: `stage`.

use crate::common::*;
use crate::pool::run_jobs;
use patronus::expr::Context;
use pvcore::run::*;
use pvcore::sysgen::*;
use pvcore::tsref::Ts;
use serde_json::{Value, json};
use std::time::Duration;

pub fn mc_binary() -> Option<String> {
    let p = std::env::var("PV_MC_BIN").unwrap_or_else(|_| format!("{}/harness/target-mc/debug/mc", verif_root()));
    if std::path::Path::new(&p).exists() { Some(p) } else { None }
}

/// solver flag of the tool for a persona
fn solver_flag(persona: &str) -> &'static str {
    match persona {
        "z3" => "z3",
        "cvc5" => "cvc5",
        "bitwuzla" => "bitwuzla",
        _ => "yices2",
    }
}

/// tolerant reader of the witness text the tool prints (bit-vector states only): names are taken from the
/// system (the text round trip of names is C16's business), values by index
fn witness_json_from_text(text: &str, ctx: &Context, sys: &patronus::system::TransitionSystem) -> Result<Value, String> {
    let mut lines = text.lines().map(|l| l.trim()).filter(|l| !l.is_empty() && !l.starts_with(';'));
    if lines.next() != Some("sat") {
        return Err("no `sat` header".into());
    }
    let props = lines.next().ok_or("no property line")?;
    let mut failed = vec![];
    for t in props.split_whitespace() {
        let n: u64 = t.strip_prefix('b').and_then(|x| x.parse().ok()).ok_or(format!("bad property token {t}"))?;
        failed.push(n);
    }
    let mut init: Vec<Value> = vec![Value::Null; sys.states.len()];
    let mut frames: Vec<Vec<Value>> = vec![];
    enum Mode {
        None,
        State(u64),
        Input,
    }
    let mut mode = Mode::None;
    let mut ended = false;
    for l in lines {
        if l == "." {
            ended = true;
            break;
        }
        if let Some(n) = l.strip_prefix('#') {
            mode = Mode::State(n.parse().map_err(|_| format!("bad frame line {l}"))?);
            continue;
        }
        if let Some(n) = l.strip_prefix('@') {
            let k: usize = n.parse().map_err(|_| format!("bad frame line {l}"))?;
            if k != frames.len() {
                return Err(format!("input frame @{k} out of order"));
            }
            frames.push(vec![Value::Null; sys.inputs.len()]);
            mode = Mode::Input;
            continue;
        }
        let toks: Vec<&str> = l.split_whitespace().collect();
        if toks.len() < 2 {
            return Err(format!("bad assignment line {l}"));
        }
        let idx: usize = toks[0].parse().map_err(|_| format!("bad index in {l}"))?;
        if toks[1].starts_with('[') {
            return Err("array assignment".into());
        }
        if !toks[1].chars().all(|c| c == '0' || c == '1') {
            return Err(format!("bad value in {l}"));
        }
        match mode {
            Mode::State(0) => {
                if idx >= init.len() {
                    return Err(format!("state index {idx} out of range"));
                }
                init[idx] = json!({"bv": toks[1]});
            }
            Mode::State(_) => {}
            Mode::Input => {
                let f = frames.last_mut().unwrap();
                if idx >= f.len() {
                    return Err(format!("input index {idx} out of range"));
                }
                f[idx] = json!({"bv": toks[1]});
            }
            Mode::None => return Err(format!("assignment outside a frame: {l}")),
        }
    }
    if !ended {
        return Err("no terminating `.`".into());
    }
    let names = |v: Vec<patronus::expr::ExprRef>| -> Vec<Value> { v.iter().map(|s| ctx.get_symbol_name(*s).map(|x| json!(x)).unwrap_or(Value::Null)).collect() };
    Ok(json!({
        "failed_safety": failed,
        "init": init,
        "init_names": names(sys.states.iter().map(|s| s.symbol).collect()),
        "inputs": frames,
        "input_names": names(sys.inputs.clone()),
    }))
}

/// worker side: one session of the tool
pub fn run_tool_job(job: &Value, scratch: &str) -> Value {
    let spec = match SysSpec::from_json(&job["sys"]) {
        Ok(s) => s,
        Err(e) => return json!({"verdict": "machinery", "msg": format!("bad system spec: {e}")}),
    };
    let Some(bin) = mc_binary() else {
        return json!({"verdict": "machinery", "msg": "mc binary not built"});
    };
    let mut ctx = Context::default();
    let built = spec.build(&mut ctx);
    // the text the tool reads; writer problems are C09's business: such systems are skipped
    let text = match catch(|| patronus::btor2::serialize_to_str(&ctx, &built.sys)) {
        Ok(t) => t,
        Err(_) => return json!({"verdict": "skip", "why": "writer-panic"}),
    };
    let mut ctx2 = Context::default();
    let sys2 = match catch(|| patronus::btor2::parse_str(&mut ctx2, &text, Some("m"))) {
        Ok(Some(s)) => s,
        _ => return json!({"verdict": "skip", "why": "text-not-read-back"}),
    };
    let engine = job["tool_engine"].as_str().unwrap_or("bmc").to_string();
    let kmax = job["k"].as_u64().unwrap_or(4);
    let ts = Ts::new(&ctx2, &sys2);
    // what the tool is supposed to answer
    let eff_k = if sys2.states.is_empty() { 0 } else { kmax };
    let r = if engine == "pdr" { ts.reach(None, true) } else { ts.reach(Some(eff_k), true) };
    let expect_fail = r.shortest.is_some();
    if engine == "bmc" {
        // the tool runs bmc with check_constraints = true, which is only defined while the constraints are satisfiable
        let stop_at = r.shortest.unwrap_or(eff_k);
        if ts.constraints_satisfiable_to(stop_at) != Some(stop_at) {
            return json!({"verdict": "skip", "why": "constraints-unsatisfiable"});
        }
    }
    let file = format!("{scratch}/tool.btor");
    if std::fs::write(&file, &text).is_err() {
        return json!({"verdict": "machinery", "msg": "cannot write the btor2 file"});
    }
    let mut cmd = std::process::Command::new(&bin);
    cmd.arg("--solver").arg(solver_flag(job["persona"].as_str().unwrap_or("z3"))).arg("--engine").arg(&engine);
    if engine == "bmc" {
        cmd.arg("--kmax").arg(format!("{kmax}"));
    }
    if job["skip_simplify"].as_bool().unwrap_or(false) {
        cmd.arg("--skip-simplify");
    }
    if engine == "pdr" && job["disable_cores"].as_bool().unwrap_or(false) {
        cmd.arg("--disable-unsat-cores");
    }
    cmd.arg(&file).current_dir(scratch).stdin(std::process::Stdio::null());
    let out = match cmd.output() {
        Ok(o) => o,
        Err(e) => return json!({"verdict": "machinery", "msg": format!("cannot run {bin}: {e}")}),
    };
    let stdout = String::from_utf8_lossy(&out.stdout).to_string();
    let stderr = String::from_utf8_lossy(&out.stderr).to_string();
    let code = out.status.code();
    let body: Vec<&str> = stdout.lines().filter(|l| !l.starts_with("[warn]")).collect();
    let first = body.iter().map(|l| l.trim()).find(|l| !l.is_empty()).unwrap_or("");
    let mut res = json!({"expect_fail": expect_fail, "oracle_shortest": r.shortest, "states": r.states, "transitions": r.transitions, "btor": text, "exit": code, "arrays": spec.has_arrays()});
    if code == Some(0) && first == "unsat" {
        res["verdict"] = json!("success");
    } else if code == Some(0) && first == "unknown" {
        res["verdict"] = json!("unknown");
    } else if code == Some(0) && first == "sat" {
        res["verdict"] = json!("fail");
        let wtext = body.join("\n");
        if !spec.has_arrays() {
            match witness_json_from_text(&wtext, &ctx2, &sys2) {
                Ok(w) => match crate::wit::check_witness(&ctx2, &sys2, &w) {
                    Ok(_) => res["witness_ok"] = json!(true),
                    Err((c, m)) => {
                        res["witness_ok"] = json!(false);
                        res["witness_class"] = json!(c);
                        res["witness_msg"] = json!(m);
                    }
                },
                Err(m) => {
                    res["witness_ok"] = json!(false);
                    res["witness_class"] = json!("unreadable");
                    res["witness_msg"] = json!(m);
                }
            }
        }
        res["witness_text"] = json!(wtext);
    } else if code == Some(2) {
        res["verdict"] = json!("err");
        res["msg"] = json!(stderr.trim().chars().take(400).collect::<String>());
    } else {
        // 101: panic; a signal: abort
        res["verdict"] = json!("panic");
        let loc = stderr.lines().find(|l| l.contains("panicked at")).unwrap_or("").to_string();
        res["msg"] = json!(stderr.trim().chars().take(600).collect::<String>());
        res["loc"] = json!(loc);
        res["stdout"] = json!(stdout.chars().take(200).collect::<String>());
    }
    res
}

struct ToolCase {
    spec: SysSpec,
    persona: &'static str,
    engine: &'static str,
    k: u64,
    skip_simplify: bool,
    disable_cores: bool,
}

impl ToolCase {
    fn tag(&self) -> String {
        format!("mc --solver {} --engine {}{}{}{}", solver_flag(self.persona), self.engine, if self.engine == "bmc" { format!(" --kmax {}", self.k) } else { String::new() }, if self.skip_simplify { " --skip-simplify" } else { "" }, if self.disable_cores { " --disable-unsat-cores" } else { "" })
    }
    fn job(&self) -> Value {
        json!({"engine": "mc-tool", "sys": self.spec.to_json(), "persona": self.persona, "tool_engine": self.engine, "k": self.k, "skip_simplify": self.skip_simplify, "disable_cores": self.disable_cores, "env": {}})
    }
    fn to_json(&self) -> Value {
        json!({"tool": true, "sys": self.spec.to_json(), "persona": self.persona, "tool_engine": self.engine, "k": self.k, "skip_simplify": self.skip_simplify, "disable_cores": self.disable_cores})
    }
}

fn tool_case_from_json(v: &Value) -> Option<ToolCase> {
    Some(ToolCase {
        spec: SysSpec::from_json(&v["sys"]).ok()?,
        persona: PERSONAS.iter().find(|p| Some(**p) == v["persona"].as_str()).copied().unwrap_or("z3"),
        engine: if v["tool_engine"] == "pdr" { "pdr" } else { "bmc" },
        k: v["k"].as_u64().unwrap_or(4),
        skip_simplify: v["skip_simplify"].as_bool().unwrap_or(false),
        disable_cores: v["disable_cores"].as_bool().unwrap_or(false),
    })
}

fn tool_cases(tier: Tier, seed: u64) -> Vec<ToolCase> {
    let fam = crate::c02::family(tier, seed);
    // corner systems all; of the rest a slice (the library-level sessions cover the family; this stage is about the tool)
    let stride = if tier.is_thorough() { 3 } else { 23 };
    let mut out = vec![];
    let mut n = 0usize;
    for (i, spec) in fam.iter().enumerate() {
        let corner = spec.name.starts_with("X-") || spec.name.starts_with("K4");
        if !(corner || i % stride == (seed as usize) % stride) {
            continue;
        }
        if spec.bads.is_empty() {
            continue;
        }
        n += 1;
        let persona = PERSONAS[n % 4];
        if spec_uses_const_array(spec) && persona == "yices-smt2" {
            continue;
        }
        let r = oracle(spec, Some(crate::c02::kmax_of(spec)), true);
        let bounds: Vec<u64> = match r.shortest {
            None => vec![4],
            Some(0) => vec![0, 3],
            Some(l) => vec![l - 1, l],
        };
        for (bi, k) in bounds.into_iter().enumerate() {
            out.push(ToolCase { spec: spec.clone(), persona, engine: "bmc", k, skip_simplify: (n + bi) % 2 == 0, disable_cores: false });
        }
        if !spec.has_arrays() && spec.state_bits() <= 10 && (tier.is_thorough() || n % 3 == 0) {
            out.push(ToolCase { spec: spec.clone(), persona, engine: "pdr", k: 0, skip_simplify: n % 2 == 1, disable_cores: n % 4 == 1 });
        }
    }
    out
}

/// what is wrong with a session, if anything: (property, class, message)
fn classify(c: &ToolCase, r: &Value) -> Vec<(&'static str, String, String)> {
    let desc = format!("`{}` on {} (oracle: shortest counterexample {})", c.tag(), deviation(&c.spec), r["oracle_shortest"]);
    let expect_fail = r["expect_fail"].as_bool().unwrap_or(false);
    let mut out = vec![];
    match r["verdict"].as_str().unwrap_or("") {
        "skip" => {}
        "success" if expect_fail => out.push(("C02", "tool|wrong-verdict|missed-counterexample".to_string(), format!("the mc tool prints unsat: {desc}"))),
        "fail" if !expect_fail => out.push(("C02", "tool|wrong-verdict|spurious-failure".to_string(), format!("the mc tool prints a witness: {desc}"))),
        "success" => {}
        "fail" => {
            if r["witness_ok"] == json!(false) {
                out.push(("C03", format!("tool|{}", r["witness_class"].as_str().unwrap_or("")), format!("the witness printed by the mc tool is not a counterexample: {}: {desc}; text = {}", r["witness_msg"].as_str().unwrap_or(""), r["witness_text"])));
            }
        }
        "unknown" => out.push(("C02", "tool|unknown".to_string(), format!("the mc tool prints unknown on a fault-free run: {desc}"))),
        "err" => out.push(("C02", format!("tool|err|{}", err_class(r["msg"].as_str().unwrap_or(""))), format!("the mc tool reports a failure of the model checker: {} — {desc}", r["msg"].as_str().unwrap_or("")))),
        "panic" => {
            let loc = r["loc"].as_str().unwrap_or("");
            let file = loc.split("panicked at ").nth(1).unwrap_or("").split(':').next().unwrap_or("").to_string();
            let file = file.rsplit("/repo/").next().unwrap_or(&file).to_string();
            out.push(("C02", format!("tool|panic|{file}"), format!("the mc tool crashes (exit {}): {} — {desc}", r["exit"], r["msg"].as_str().unwrap_or(""))))
        }
        "timeout" => out.push(("C02", "tool|timeout".to_string(), format!("the mc tool does not return within the deadline: {desc}"))),
        "crash" => out.push(("C02", "tool|crash".to_string(), format!("the process running the mc tool died: {desc}"))),
        other => {
            eprintln!("MACHINERY: mc-tool worker answered {other}: {r}");
            std::process::exit(2);
        }
    }
    out
}

/// Runs the stage for property `prop` (C02: verdicts, errors, crashes; C03: printed witnesses).
pub fn stage(prop: &str, tier: Tier, seed: u64, budget: &Budget, rep: &Report) {
    if mc_binary().is_none() {
        eprintln!("MACHINERY: the mc tool binary was not built (./check builds it into harness/target-mc)");
        std::process::exit(2);
    }
    let all = tool_cases(tier, seed);
    rep.add("tool_sessions_enumerated", all.len() as u64);
    let threads = n_threads();
    let mut done = 0usize;
    let (mut n_fail, mut n_succ) = (0u64, 0u64);
    for chunk in all.chunks(64) {
        if budget.exceeded() {
            rep.cap_hit(&format!("budget: {done}/{} sessions of the mc tool run", all.len()));
            break;
        }
        let jobs: Vec<Value> = chunk.iter().map(|c| c.job()).collect();
        let results = run_jobs(&jobs, threads, Duration::from_secs(60));
        let mut hs = vec![];
        for (i, (c, r)) in chunk.iter().zip(results.iter()).enumerate() {
            if r["verdict"] == "machinery" {
                eprintln!("MACHINERY: {r}");
                std::process::exit(2);
            }
            rep.add("evaluations", 1);
            rep.add(&format!("tool_verdict:{}", r["verdict"].as_str().unwrap_or("?")), 1);
            if r["verdict"] == "skip" {
                rep.add(&format!("tool_skipped:{}", r["why"].as_str().unwrap_or("")), 1);
                continue;
            }
            rep.add("traces_validated_against_impl", 1);
            rep.add("tool_sessions_compared", 1);
            rep.add("states", r["states"].as_u64().unwrap_or(0));
            rep.add("transitions", r["transitions"].as_u64().unwrap_or(0));
            if r["expect_fail"] == json!(true) {
                n_fail += 1
            } else {
                n_succ += 1
            }
            hs.push(hash64(&format!("tool|{}|{}", c.spec.to_json(), c.tag())));
            if done + i == 0 {
                rep.sample(json!({"tool_session": c.tag(), "system": c.spec.to_json(), "verdict": r["verdict"], "oracle_shortest": r["oracle_shortest"]}));
            }
            for (p, class, what) in classify(c, r) {
                if p == prop {
                    rep.violation(Violation { sig: format!("{prop}|{class}|{}", deviation(&c.spec)), what, case: c.to_json(), order: (1u64 << 40) + (done + i) as u64 });
                }
            }
        }
        rep.distinct_hashes(&hs);
        done += chunk.len();
    }
    rep.note("tool_oracle_split", json!({"expect_fail": n_fail, "expect_unsat": n_succ}));
}

pub fn replay(prop: &str, case: &Value, rep: &Report) -> bool {
    if case["tool"] != json!(true) {
        return false;
    }
    let Some(c) = tool_case_from_json(case) else {
        eprintln!("MACHINERY: bad tool case");
        std::process::exit(2);
    };
    let r = run_jobs(&[c.job()], 1, Duration::from_secs(120));
    println!("session: {}\nverdict: {} exit={} oracle_shortest={}", c.tag(), r[0]["verdict"], r[0]["exit"], r[0]["oracle_shortest"]);
    println!("--- btor2 ---\n{}", r[0]["btor"].as_str().unwrap_or(""));
    if let Some(w) = r[0]["witness_text"].as_str() {
        println!("--- witness ---\n{w}");
    }
    for (p, class, what) in classify(&c, &r[0]) {
        if p == prop {
            rep.violation(Violation { sig: format!("{prop}|{class}|{}", deviation(&c.spec)), what, case: case.clone(), order: 0 });
        }
    }
    true
}
