//! Sorts, typed terms, strict sort checking and (three-valued) evaluation.

use crate::lex::{Sx, Tok};
use num_bigint::BigUint;
use pvcore::bv::{Arr, Bv, Val};
use std::collections::HashMap;
use std::rc::Rc;

#[derive(Clone, Debug, PartialEq, Eq, Hash)]
pub enum Sort {
    Bool,
    Bv(u32),
    Arr(Box<Sort>, Box<Sort>),
}

impl Sort {
    pub fn show(&self) -> String {
        match self {
            Sort::Bool => "Bool".into(),
            Sort::Bv(w) => format!("(_ BitVec {w})"),
            Sort::Arr(i, e) => format!("(Array {} {})", i.show(), e.show()),
        }
    }
    /// width of the value representation (Bool is represented as a 1-bit vector)
    pub fn width(&self) -> Option<u32> {
        match self {
            Sort::Bool => Some(1),
            Sort::Bv(w) => Some(*w),
            Sort::Arr(..) => None,
        }
    }
    /// number of bits of information in a value of this sort (None if huge)
    pub fn bits(&self) -> Option<u64> {
        match self {
            Sort::Bool => Some(1),
            Sort::Bv(w) => Some(*w as u64),
            Sort::Arr(i, e) => {
                let iw = i.width()?;
                let ew = e.width()?;
                if iw > 16 { None } else { Some((ew as u64) << iw) }
            }
        }
    }
}

#[derive(Clone, Copy, Debug, PartialEq, Eq, Hash)]
pub enum Op {
    Not, And, Or, Xor, Implies, Eq, Distinct, Ite,
    BvNot, BvNeg, BvAnd, BvOr, BvXor, BvNand, BvNor, BvXnor, BvComp,
    BvAdd, BvSub, BvMul, BvUdiv, BvUrem, BvSdiv, BvSrem, BvSmod,
    BvShl, BvLshr, BvAshr,
    BvUlt, BvUle, BvUgt, BvUge, BvSlt, BvSle, BvSgt, BvSge,
    Concat, Extract(u32, u32), ZeroExt(u32), SignExt(u32), RotL(u32), RotR(u32), Repeat(u32),
    Select, Store, ConstArr,
}

#[derive(Debug)]
pub enum Tm {
    Const(Val),
    /// index into the script's symbol table
    Var(usize),
    App(Op, Vec<Rc<Term>>),
}

#[derive(Debug)]
pub struct Term {
    pub tm: Tm,
    pub sort: Sort,
    pub id: usize,
}

/// symbol environment seen by the term checker
pub trait SymEnv {
    fn lookup(&self, name: &str) -> Option<(usize, Sort)>;
    fn fresh_id(&mut self) -> usize;
}

pub fn parse_sort(sx: &Sx) -> Result<Sort, String> {
    match sx {
        Sx::T(Tok::Sym(s)) if s == "Bool" => Ok(Sort::Bool),
        Sx::L(l) => {
            if l.len() == 3 && l[0].simple_sym() == Some("_") && l[1].simple_sym() == Some("BitVec") {
                let w = l[2].num().ok_or("BitVec width must be a numeral")?;
                if w == 0 {
                    return Err("(_ BitVec 0) is not a sort".into());
                }
                Ok(Sort::Bv(w as u32))
            } else if l.len() == 3 && l[0].simple_sym() == Some("Array") {
                let i = parse_sort(&l[1])?;
                let e = parse_sort(&l[2])?;
                Ok(Sort::Arr(Box::new(i), Box::new(e)))
            } else {
                Err(format!("unknown sort {}", sx.show()))
            }
        }
        _ => Err(format!("unknown sort {}", sx.show())),
    }
}

pub struct Checker<'a, E: SymEnv> {
    pub env: &'a mut E,
    lets: Vec<HashMap<String, Rc<Term>>>,
}

fn mk<E: SymEnv>(env: &mut E, tm: Tm, sort: Sort) -> Rc<Term> {
    let id = env.fresh_id();
    Rc::new(Term { tm, sort, id })
}

impl<'a, E: SymEnv> Checker<'a, E> {
    pub fn new(env: &'a mut E) -> Self {
        Checker { env, lets: vec![] }
    }

    fn bool_const(&mut self, b: bool) -> Rc<Term> {
        mk(self.env, Tm::Const(Val::B(Bv::from_bool(b))), Sort::Bool)
    }

    pub fn term(&mut self, sx: &Sx) -> Result<Rc<Term>, String> {
        match sx {
            Sx::T(Tok::Bin(s)) => {
                let b = Bv::from_bit_str(s);
                Ok(mk(self.env, Tm::Const(Val::B(b.clone())), Sort::Bv(b.w)))
            }
            Sx::T(Tok::Hex(s)) => {
                let w = 4 * s.len() as u32;
                let v = BigUint::parse_bytes(s.as_bytes(), 16).ok_or("bad hex")?;
                Ok(mk(self.env, Tm::Const(Val::B(Bv::new(w, v))), Sort::Bv(w)))
            }
            Sx::T(Tok::Sym(s)) if s == "true" && self.lookup_let(s).is_none() => Ok(self.bool_const(true)),
            Sx::T(Tok::Sym(s)) if s == "false" && self.lookup_let(s).is_none() => Ok(self.bool_const(false)),
            Sx::T(Tok::Sym(s)) | Sx::T(Tok::QSym(s)) => {
                if let Some(t) = self.lookup_let(s) {
                    return Ok(t);
                }
                match self.env.lookup(s) {
                    Some((idx, sort)) => Ok(mk(self.env, Tm::Var(idx), sort)),
                    None => Err(format!("unknown constant {}", sx.show())),
                }
            }
            Sx::T(t) => Err(format!("unexpected token {t:?} in term")),
            Sx::L(l) => {
                if l.is_empty() {
                    return Err("empty term".into());
                }
                // let
                if l[0].simple_sym() == Some("let") {
                    if l.len() != 3 {
                        return Err("malformed let".into());
                    }
                    let binds = l[1].list().ok_or("malformed let bindings")?;
                    if binds.is_empty() {
                        return Err("let without bindings".into());
                    }
                    let mut scope = HashMap::new();
                    for b in binds {
                        let b = b.list().ok_or("malformed let binding")?;
                        if b.len() != 2 {
                            return Err("malformed let binding".into());
                        }
                        let name = b[0].sym().ok_or("let binding name")?.to_string();
                        // parallel let: right-hand sides see the OUTER scope
                        let t = self.term(&b[1])?;
                        if scope.insert(name, t).is_some() {
                            return Err("duplicate variable in let".into());
                        }
                    }
                    self.lets.push(scope);
                    let r = self.term(&l[2]);
                    self.lets.pop();
                    return r;
                }
                // ((as const SORT) v)
                if let Some(h) = l[0].list()
                    && h.len() == 3
                    && h[0].simple_sym() == Some("as")
                    && h[1].simple_sym() == Some("const")
                {
                    let sort = parse_sort(&h[2])?;
                    let Sort::Arr(_, e) = &sort else {
                        return Err("(as const) needs an array sort".into());
                    };
                    if l.len() != 2 {
                        return Err("(as const) takes one argument".into());
                    }
                    let v = self.term(&l[1])?;
                    if v.sort != **e {
                        return Err(format!("(as const {}) applied to a {}", sort.show(), v.sort.show()));
                    }
                    return Ok(mk(self.env, Tm::App(Op::ConstArr, vec![v]), sort));
                }
                // indexed operators ((_ extract i j) x) etc.
                if let Some(h) = l[0].list() {
                    if h.len() >= 2 && h[0].simple_sym() == Some("_") {
                        let name = h[1].simple_sym().ok_or("indexed identifier")?;
                        let idx: Vec<u64> = h[2..].iter().map(|x| x.num().ok_or("index must be a numeral".to_string())).collect::<Result<_, _>>()?;
                        let args: Vec<Rc<Term>> = l[1..].iter().map(|a| self.term(a)).collect::<Result<_, _>>()?;
                        return self.indexed(name, &idx, args);
                    }
                    return Err(format!("cannot apply {}", l[0].show()));
                }
                let head = match &l[0] {
                    Sx::T(Tok::Sym(s)) => s.clone(),
                    Sx::T(Tok::QSym(s)) => {
                        return Err(format!("application of constant |{s}|"));
                    }
                    o => return Err(format!("bad head {}", o.show())),
                };
                if self.lookup_let(&head).is_some() || self.env.lookup(&head).is_some() {
                    return Err(format!("{head} is a constant, not a function"));
                }
                let args: Vec<Rc<Term>> = l[1..].iter().map(|a| self.term(a)).collect::<Result<_, _>>()?;
                self.apply(&head, args)
            }
        }
    }

    fn lookup_let(&self, name: &str) -> Option<Rc<Term>> {
        for s in self.lets.iter().rev() {
            if let Some(t) = s.get(name) {
                return Some(t.clone());
            }
        }
        None
    }

    fn indexed(&mut self, name: &str, idx: &[u64], args: Vec<Rc<Term>>) -> Result<Rc<Term>, String> {
        let one_bv = |args: &Vec<Rc<Term>>| -> Result<u32, String> {
            if args.len() != 1 {
                return Err(format!("{name} takes one argument"));
            }
            match args[0].sort {
                Sort::Bv(w) => Ok(w),
                _ => Err(format!("{name} needs a bit-vector argument, got {}", args[0].sort.show())),
            }
        };
        match (name, idx.len()) {
            ("extract", 2) => {
                let w = one_bv(&args)?;
                let (hi, lo) = (idx[0] as u32, idx[1] as u32);
                if hi < lo || hi >= w {
                    return Err(format!("extract [{hi}:{lo}] of width {w}"));
                }
                Ok(mk(self.env, Tm::App(Op::Extract(hi, lo), args), Sort::Bv(hi - lo + 1)))
            }
            ("zero_extend", 1) | ("sign_extend", 1) => {
                let w = one_bv(&args)?;
                let by = idx[0] as u32;
                let op = if name == "zero_extend" { Op::ZeroExt(by) } else { Op::SignExt(by) };
                Ok(mk(self.env, Tm::App(op, args), Sort::Bv(w + by)))
            }
            ("rotate_left", 1) | ("rotate_right", 1) => {
                let w = one_bv(&args)?;
                let by = idx[0] as u32;
                let op = if name == "rotate_left" { Op::RotL(by) } else { Op::RotR(by) };
                Ok(mk(self.env, Tm::App(op, args), Sort::Bv(w)))
            }
            ("repeat", 1) => {
                let w = one_bv(&args)?;
                let n = idx[0] as u32;
                if n == 0 {
                    return Err("repeat 0".into());
                }
                Ok(mk(self.env, Tm::App(Op::Repeat(n), args), Sort::Bv(w * n)))
            }
            _ => Err(format!("unknown indexed operator {name}")),
        }
    }

    fn apply(&mut self, head: &str, args: Vec<Rc<Term>>) -> Result<Rc<Term>, String> {
        let all_bool = |a: &Vec<Rc<Term>>| a.iter().all(|t| t.sort == Sort::Bool);
        let bvw = |t: &Rc<Term>| match t.sort {
            Sort::Bv(w) => Some(w),
            _ => None,
        };
        let err_sorts = |a: &Vec<Rc<Term>>| format!("{head} applied to ({})", a.iter().map(|t| t.sort.show()).collect::<Vec<_>>().join(" "));
        match head {
            "not" => {
                if args.len() != 1 || !all_bool(&args) {
                    return Err(err_sorts(&args));
                }
                Ok(mk(self.env, Tm::App(Op::Not, args), Sort::Bool))
            }
            "and" | "or" | "xor" | "=>" => {
                if args.len() < 2 || !all_bool(&args) {
                    return Err(err_sorts(&args));
                }
                let op = match head {
                    "and" => Op::And,
                    "or" => Op::Or,
                    "xor" => Op::Xor,
                    _ => Op::Implies,
                };
                Ok(mk(self.env, Tm::App(op, args), Sort::Bool))
            }
            "=" | "distinct" => {
                if args.len() < 2 || !args.iter().all(|t| t.sort == args[0].sort) {
                    return Err(err_sorts(&args));
                }
                let op = if head == "=" { Op::Eq } else { Op::Distinct };
                Ok(mk(self.env, Tm::App(op, args), Sort::Bool))
            }
            "ite" => {
                if args.len() != 3 || args[0].sort != Sort::Bool || args[1].sort != args[2].sort {
                    return Err(err_sorts(&args));
                }
                let s = args[1].sort.clone();
                Ok(mk(self.env, Tm::App(Op::Ite, args), s))
            }
            "bvnot" | "bvneg" => {
                if args.len() != 1 || bvw(&args[0]).is_none() {
                    return Err(err_sorts(&args));
                }
                let s = args[0].sort.clone();
                let op = if head == "bvnot" { Op::BvNot } else { Op::BvNeg };
                Ok(mk(self.env, Tm::App(op, args), s))
            }
            "bvand" | "bvor" | "bvxor" | "bvadd" | "bvmul" => {
                // left-associative, n-ary
                if args.len() < 2 || bvw(&args[0]).is_none() || !args.iter().all(|t| t.sort == args[0].sort) {
                    return Err(err_sorts(&args));
                }
                let op = match head {
                    "bvand" => Op::BvAnd,
                    "bvor" => Op::BvOr,
                    "bvxor" => Op::BvXor,
                    "bvadd" => Op::BvAdd,
                    _ => Op::BvMul,
                };
                let s = args[0].sort.clone();
                Ok(mk(self.env, Tm::App(op, args), s))
            }
            "bvnand" | "bvnor" | "bvxnor" | "bvsub" | "bvudiv" | "bvurem" | "bvsdiv" | "bvsrem" | "bvsmod" | "bvshl"
            | "bvlshr" | "bvashr" => {
                if args.len() != 2 || bvw(&args[0]).is_none() || args[0].sort != args[1].sort {
                    return Err(err_sorts(&args));
                }
                let op = match head {
                    "bvnand" => Op::BvNand,
                    "bvnor" => Op::BvNor,
                    "bvxnor" => Op::BvXnor,
                    "bvsub" => Op::BvSub,
                    "bvudiv" => Op::BvUdiv,
                    "bvurem" => Op::BvUrem,
                    "bvsdiv" => Op::BvSdiv,
                    "bvsrem" => Op::BvSrem,
                    "bvsmod" => Op::BvSmod,
                    "bvshl" => Op::BvShl,
                    "bvlshr" => Op::BvLshr,
                    _ => Op::BvAshr,
                };
                let s = args[0].sort.clone();
                Ok(mk(self.env, Tm::App(op, args), s))
            }
            "bvcomp" => {
                if args.len() != 2 || bvw(&args[0]).is_none() || args[0].sort != args[1].sort {
                    return Err(err_sorts(&args));
                }
                Ok(mk(self.env, Tm::App(Op::BvComp, args), Sort::Bv(1)))
            }
            "bvult" | "bvule" | "bvugt" | "bvuge" | "bvslt" | "bvsle" | "bvsgt" | "bvsge" => {
                if args.len() != 2 || bvw(&args[0]).is_none() || args[0].sort != args[1].sort {
                    return Err(err_sorts(&args));
                }
                let op = match head {
                    "bvult" => Op::BvUlt,
                    "bvule" => Op::BvUle,
                    "bvugt" => Op::BvUgt,
                    "bvuge" => Op::BvUge,
                    "bvslt" => Op::BvSlt,
                    "bvsle" => Op::BvSle,
                    "bvsgt" => Op::BvSgt,
                    _ => Op::BvSge,
                };
                Ok(mk(self.env, Tm::App(op, args), Sort::Bool))
            }
            "concat" => {
                if args.len() != 2 || bvw(&args[0]).is_none() || bvw(&args[1]).is_none() {
                    return Err(err_sorts(&args));
                }
                let w = bvw(&args[0]).unwrap() + bvw(&args[1]).unwrap();
                Ok(mk(self.env, Tm::App(Op::Concat, args), Sort::Bv(w)))
            }
            "select" => {
                if args.len() != 2 {
                    return Err(err_sorts(&args));
                }
                let Sort::Arr(i, e) = args[0].sort.clone() else {
                    return Err(err_sorts(&args));
                };
                if args[1].sort != *i {
                    return Err(err_sorts(&args));
                }
                Ok(mk(self.env, Tm::App(Op::Select, args), *e))
            }
            "store" => {
                if args.len() != 3 {
                    return Err(err_sorts(&args));
                }
                let Sort::Arr(i, e) = args[0].sort.clone() else {
                    return Err(err_sorts(&args));
                };
                if args[1].sort != *i || args[2].sort != *e {
                    return Err(err_sorts(&args));
                }
                let s = args[0].sort.clone();
                Ok(mk(self.env, Tm::App(Op::Store, args), s))
            }
            _ => Err(format!("unknown function {head}")),
        }
    }
}

// ------------------------------------------------------------------ evaluation

fn fold(args: &[Val], f: impl Fn(&Bv, &Bv) -> Bv) -> Val {
    let mut acc = args[0].bv().clone();
    for a in &args[1..] {
        acc = f(&acc, a.bv());
    }
    Val::B(acc)
}

fn b(x: bool) -> Val {
    Val::B(Bv::from_bool(x))
}

/// apply an operator to fully known argument values
pub fn apply_op(op: Op, sort: &Sort, a: &[Val]) -> Val {
    use Op::*;
    match op {
        Not => b(!a[0].bv().to_bool()),
        And => b(a.iter().all(|x| x.bv().to_bool())),
        Or => b(a.iter().any(|x| x.bv().to_bool())),
        Xor => b(a.iter().fold(false, |acc, x| acc ^ x.bv().to_bool())),
        Implies => {
            // right associative: a => (b => c)
            let mut acc = a[a.len() - 1].bv().to_bool();
            for x in a[..a.len() - 1].iter().rev() {
                acc = !x.bv().to_bool() || acc;
            }
            b(acc)
        }
        Eq => b(a.windows(2).all(|w| w[0] == w[1])),
        Distinct => {
            let mut ok = true;
            for i in 0..a.len() {
                for j in (i + 1)..a.len() {
                    if a[i] == a[j] {
                        ok = false;
                    }
                }
            }
            b(ok)
        }
        Ite => {
            if a[0].bv().to_bool() { a[1].clone() } else { a[2].clone() }
        }
        BvNot => Val::B(a[0].bv().not()),
        BvNeg => Val::B(a[0].bv().neg()),
        BvAnd => fold(a, |x, y| x.and(y)),
        BvOr => fold(a, |x, y| x.or(y)),
        BvXor => fold(a, |x, y| x.xor(y)),
        BvAdd => fold(a, |x, y| x.add(y)),
        BvMul => fold(a, |x, y| x.mul(y)),
        BvNand => Val::B(a[0].bv().and(a[1].bv()).not()),
        BvNor => Val::B(a[0].bv().or(a[1].bv()).not()),
        BvXnor => Val::B(a[0].bv().xor(a[1].bv()).not()),
        BvComp => Val::B(Bv::from_bool(a[0].bv() == a[1].bv())),
        BvSub => Val::B(a[0].bv().sub(a[1].bv())),
        BvUdiv => Val::B(a[0].bv().udiv(a[1].bv())),
        BvUrem => Val::B(a[0].bv().urem(a[1].bv())),
        BvSdiv => Val::B(a[0].bv().sdiv(a[1].bv())),
        BvSrem => Val::B(a[0].bv().srem(a[1].bv())),
        BvSmod => Val::B(a[0].bv().smod(a[1].bv())),
        BvShl => Val::B(a[0].bv().shl(a[1].bv())),
        BvLshr => Val::B(a[0].bv().lshr(a[1].bv())),
        BvAshr => Val::B(a[0].bv().ashr(a[1].bv())),
        BvUlt => b(a[1].bv().ugt(a[0].bv())),
        BvUle => b(a[1].bv().uge(a[0].bv())),
        BvUgt => b(a[0].bv().ugt(a[1].bv())),
        BvUge => b(a[0].bv().uge(a[1].bv())),
        BvSlt => b(a[1].bv().sgt(a[0].bv())),
        BvSle => b(a[1].bv().sge(a[0].bv())),
        BvSgt => b(a[0].bv().sgt(a[1].bv())),
        BvSge => b(a[0].bv().sge(a[1].bv())),
        Concat => Val::B(a[0].bv().concat(a[1].bv())),
        Extract(hi, lo) => Val::B(a[0].bv().extract(hi, lo)),
        ZeroExt(by) => Val::B(a[0].bv().zext(by)),
        SignExt(by) => Val::B(a[0].bv().sext(by)),
        RotL(n) => {
            let x = a[0].bv();
            let n = n % x.w;
            if n == 0 { Val::B(x.clone()) } else { Val::B(x.extract(x.w - n - 1, 0).concat(&x.extract(x.w - 1, x.w - n))) }
        }
        RotR(n) => {
            let x = a[0].bv();
            let n = n % x.w;
            if n == 0 { Val::B(x.clone()) } else { Val::B(x.extract(n - 1, 0).concat(&x.extract(x.w - 1, n))) }
        }
        Repeat(n) => {
            let mut acc = a[0].bv().clone();
            for _ in 1..n {
                acc = acc.concat(a[0].bv());
            }
            Val::B(acc)
        }
        Select => Val::B(a[0].arr().select(a[1].bv())),
        Store => Val::A(a[0].arr().store(a[1].bv(), a[2].bv())),
        ConstArr => {
            let Sort::Arr(i, _) = sort else { panic!("const array sort") };
            Val::A(Arr::constant(i.width().unwrap(), a[0].bv()))
        }
    }
}

/// Three-valued evaluator with a generation-stamped memo table (one slot per term id).
pub struct Evaluator {
    memo: Vec<(u64, Option<Val>)>,
    generation: u64,
}

impl Evaluator {
    pub fn new(n_terms: usize) -> Evaluator {
        Evaluator { memo: vec![(0, None); n_terms + 1], generation: 0 }
    }
    pub fn next_gen(&mut self, n_terms: usize) {
        self.generation += 1;
        if self.memo.len() < n_terms + 1 {
            self.memo.resize(n_terms + 1, (0, None));
        }
    }

    /// `var(i)`: Some(Ok(value)) for an assigned free constant, Some(Err(def)) for a defined
    /// symbol (evaluate its definition), None for an unassigned free constant.
    pub fn eval(&mut self, t: &Rc<Term>, var: &dyn Fn(usize) -> VarBinding) -> Option<Val> {
        if self.memo[t.id].0 == self.generation {
            return self.memo[t.id].1.clone();
        }
        let out = match &t.tm {
            Tm::Const(v) => Some(v.clone()),
            Tm::Var(i) => match var(*i) {
                VarBinding::Value(v) => Some(v),
                VarBinding::Def(d) => self.eval(&d, var),
                VarBinding::Unknown => None,
            },
            Tm::App(op, args) => self.eval_app(*op, &t.sort, args, var),
        };
        self.memo[t.id] = (self.generation, out.clone());
        out
    }

    fn eval_app(&mut self, op: Op, sort: &Sort, args: &[Rc<Term>], var: &dyn Fn(usize) -> VarBinding) -> Option<Val> {
        match op {
            Op::And | Op::Or => {
                let absorbing = op == Op::Or;
                let mut unknown = false;
                for a in args {
                    match self.eval(a, var) {
                        Some(v) => {
                            if v.bv().to_bool() == absorbing {
                                return Some(b(absorbing));
                            }
                        }
                        None => unknown = true,
                    }
                }
                if unknown { None } else { Some(b(!absorbing)) }
            }
            Op::Implies if args.len() == 2 => {
                let a = self.eval(&args[0], var);
                if let Some(v) = &a
                    && !v.bv().to_bool()
                {
                    return Some(b(true));
                }
                let c = self.eval(&args[1], var);
                if let Some(v) = &c
                    && v.bv().to_bool()
                {
                    return Some(b(true));
                }
                match (a, c) {
                    (Some(_), Some(_)) => Some(b(false)),
                    _ => None,
                }
            }
            Op::Ite => match self.eval(&args[0], var) {
                Some(c) => {
                    if c.bv().to_bool() {
                        self.eval(&args[1], var)
                    } else {
                        self.eval(&args[2], var)
                    }
                }
                None => {
                    let x = self.eval(&args[1], var);
                    let y = self.eval(&args[2], var);
                    match (x, y) {
                        (Some(x), Some(y)) if x == y => Some(x),
                        _ => None,
                    }
                }
            },
            _ => {
                let mut vals = Vec::with_capacity(args.len());
                for a in args {
                    vals.push(self.eval(a, var)?);
                }
                Some(apply_op(op, sort, &vals))
            }
        }
    }
}

pub enum VarBinding {
    Value(Val),
    Def(Rc<Term>),
    Unknown,
}

/// print a value of a given sort in standard syntax
pub fn show_value(v: &Val, sort: &Sort, hex_when_possible: bool) -> String {
    match (v, sort) {
        (Val::B(x), Sort::Bool) => (if x.to_bool() { "true" } else { "false" }).to_string(),
        (Val::B(x), Sort::Bv(w)) => {
            if hex_when_possible && w % 4 == 0 {
                let s = x.v.to_str_radix(16);
                format!("#x{}{}", "0".repeat((*w as usize / 4).saturating_sub(s.len())), s)
            } else {
                format!("#b{}", x.bit_str())
            }
        }
        (Val::A(a), Sort::Arr(i, e)) => {
            let mut s = format!("((as const {}) {})", sort.show(), show_value(&Val::B(Bv::new(a.dw, a.default.clone())), e, hex_when_possible));
            // REFSMT_ARRAY_STYLE: legal spellings of the same array value a solver may choose.
            //   shadowed   - every index of the first four (and every stored index) is first written with the
            //                complemented data and then with its real value, also where that is the default
            //   descending - stores in descending index order
            let style = std::env::var("REFSMT_ARRAY_STYLE").unwrap_or_default();
            if style == "shadowed" {
                let mask = (num_bigint::BigUint::from(1u8) << (a.dw as usize)) - num_bigint::BigUint::from(1u8);
                let mut idxs: Vec<num_bigint::BigUint> = (0u32..4).map(num_bigint::BigUint::from).filter(|k| a.iw >= 32 || *k < (num_bigint::BigUint::from(1u8) << (a.iw as usize))).collect();
                for k in a.map.keys() {
                    if !idxs.contains(k) {
                        idxs.push(k.clone());
                    }
                }
                for k in idxs.iter() {
                    let d = a.map.get(k).cloned().unwrap_or_else(|| a.default.clone());
                    let junk = &mask ^ &d;
                    let ks = show_value(&Val::B(Bv::new(a.iw, k.clone())), i, hex_when_possible);
                    s = format!("(store (store {} {} {}) {} {})", s, ks, show_value(&Val::B(Bv::new(a.dw, junk)), e, hex_when_possible), ks, show_value(&Val::B(Bv::new(a.dw, d)), e, hex_when_possible));
                }
                return s;
            }
            if style == "descending" {
                for (k, d) in a.map.iter().rev() {
                    s = format!("(store {} {} {})", s, show_value(&Val::B(Bv::new(a.iw, k.clone())), i, hex_when_possible), show_value(&Val::B(Bv::new(a.dw, d.clone())), e, hex_when_possible));
                }
                return s;
            }
            for (k, d) in a.map.iter() {
                s = format!(
                    "(store {} {} {})",
                    s,
                    show_value(&Val::B(Bv::new(a.iw, k.clone())), i, hex_when_possible),
                    show_value(&Val::B(Bv::new(a.dw, d.clone())), e, hex_when_possible)
                );
            }
            s
        }
        _ => panic!("value/sort mismatch"),
    }
}
