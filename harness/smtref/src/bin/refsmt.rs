//! Reference SMT solver behind stdin/stdout, impersonating z3 / cvc5 / bitwuzla / yices-smt2
//! (selected by argv[0]). Every answer with more than one legal value is a numbered choice point,
//! logged to REFSMT_TRACE and steered by REFSMT_SCHEDULE; faults are injected by REFSMT_FAULT.
//!
//! environment:
//!   REFSMT_TRACE=<file>     append one line per choice point: "<idx> <kind> <arity> <alt>"
//!                           and one line per response-bearing command: "# <n> <command-name>"
//!   REFSMT_SCHEDULE=<spec>  comma separated "<idx>:<kind>:<alt>" (kind is checked: divergence
//!                           is a hard error, exit 97)
//!   REFSMT_DEFAULT=<spec>   default alternative per kind, e.g. "model=1,core=1"
//!   REFSMT_COUNT=<cap>      count satisfying cubes up to cap (arity of model choice points)
//!   REFSMT_FAULT=<n>:<kind>[:<param>]   inject a fault at the n-th response-bearing command
//!   REFSMT_LOG=<file>       transcript of commands and replies
use smtref::lex::{paren_balance, read_all};
use smtref::script::{Caps, LastCheck, Response, Script};
use smtref::solve::{CoreChoice, ModelChoice};
use std::collections::HashMap;
use std::io::{BufRead, Write};

#[derive(Clone, Copy, PartialEq, Eq, Debug)]
enum Persona {
    Z3,
    Cvc5,
    Bitwuzla,
    Yices,
}

struct Ctl {
    trace: Option<String>,
    log: Option<std::fs::File>,
    schedule: HashMap<u64, (String, usize)>,
    defaults: HashMap<String, usize>,
    next_choice: u64,
    next_resp: u64,
    fault: Option<(u64, String, String)>,
}

impl Ctl {
    fn from_env() -> Ctl {
        let trace = std::env::var("REFSMT_TRACE").ok();
        let mut next_choice = 0;
        let mut next_resp = 0;
        if let Some(p) = &trace
            && let Ok(s) = std::fs::read_to_string(p)
        {
            for l in s.lines() {
                if l.starts_with('#') {
                    next_resp += 1;
                } else if !l.trim().is_empty() {
                    next_choice += 1;
                }
            }
        }
        let mut schedule = HashMap::new();
        if let Ok(s) = std::env::var("REFSMT_SCHEDULE") {
            for e in s.split(',').filter(|e| !e.is_empty()) {
                let p: Vec<&str> = e.split(':').collect();
                if p.len() == 3 {
                    schedule.insert(p[0].parse().unwrap_or(u64::MAX), (p[1].to_string(), p[2].parse().unwrap_or(0)));
                }
            }
        }
        let mut defaults = HashMap::new();
        if let Ok(s) = std::env::var("REFSMT_DEFAULT") {
            for e in s.split(',').filter(|e| !e.is_empty()) {
                if let Some((k, v)) = e.split_once('=') {
                    defaults.insert(k.to_string(), v.parse().unwrap_or(0));
                }
            }
        }
        let fault = std::env::var("REFSMT_FAULT").ok().and_then(|s| {
            let p: Vec<&str> = s.splitn(3, ':').collect();
            if p.len() >= 2 { Some((p[0].parse().ok()?, p[1].to_string(), p.get(2).unwrap_or(&"").to_string())) } else { None }
        });
        let log = std::env::var("REFSMT_LOG").ok().and_then(|p| std::fs::OpenOptions::new().create(true).append(true).open(p).ok());
        Ctl { trace, log, schedule, defaults, next_choice, next_resp, fault }
    }
    fn append_trace(&self, line: &str) {
        if let Some(p) = &self.trace
            && let Ok(mut f) = std::fs::OpenOptions::new().create(true).append(true).open(p)
        {
            let _ = writeln!(f, "{line}");
        }
    }
    /// alternative to take at the next choice point of `kind` (does not consume it)
    fn peek(&self, kind: &str) -> usize {
        // a check-sat peeks for a `model` alternative before it is known whether the answer is sat
        // (only then is the choice point consumed): a scheduled entry of another kind is not for us
        match self.schedule.get(&self.next_choice) {
            Some((k, alt)) if k == kind => *alt,
            _ => *self.defaults.get(kind).unwrap_or(&0),
        }
    }
    fn consume(&mut self, kind: &str, arity: usize, alt: usize) {
        if let Some((k, _)) = self.schedule.get(&self.next_choice)
            && k != kind
        {
            eprintln!("DIVERGENCE: choice point {} is of kind {kind}, schedule expected {k}", self.next_choice);
            std::process::exit(97);
        }
        self.append_trace(&format!("{} {} {} {}", self.next_choice, kind, arity, alt));
        self.next_choice += 1;
    }
    fn log(&mut self, dir: &str, s: &str) {
        if let Some(f) = self.log.as_mut() {
            let _ = writeln!(f, "{dir} {}", s.trim_end());
        }
    }
}

fn model_alt(alt: usize) -> (ModelChoice, bool) {
    match alt {
        0 => (ModelChoice::Min, false),
        1 => (ModelChoice::Max, true),
        2 => (ModelChoice::Min, true),
        3 => (ModelChoice::Max, false),
        n => (ModelChoice::Nth(n - 3), false),
    }
}

fn main() {
    let argv: Vec<String> = std::env::args().collect();
    let base = std::path::Path::new(&argv[0]).file_name().map(|s| s.to_string_lossy().to_string()).unwrap_or_default();
    let persona = match base.as_str() {
        "z3" => Persona::Z3,
        "cvc5" => Persona::Cvc5,
        "bitwuzla" => Persona::Bitwuzla,
        "yices-smt2" => Persona::Yices,
        _ => match std::env::var("REFSMT_PERSONA").as_deref() {
            Ok("cvc5") => Persona::Cvc5,
            Ok("bitwuzla") => Persona::Bitwuzla,
            Ok("yices-smt2") => Persona::Yices,
            _ => Persona::Z3,
        },
    };
    // command-line arguments each real solver is started with by patronus
    for a in argv[1..].iter() {
        let ok = match persona {
            Persona::Z3 => a == "-in" || a.starts_with("pp."),
            Persona::Cvc5 => a == "--incremental" || a == "--produce-models",
            Persona::Bitwuzla => false,
            Persona::Yices => a == "--incremental",
        };
        if !ok {
            eprintln!("{base}: unknown option {a}");
            std::process::exit(1);
        }
    }
    let mut caps = Caps::all();
    match persona {
        Persona::Yices => {
            // real yices has no `(as const ...)`; patronus' capability flags also say no
            // check-sat-assuming / get-unsat-assumptions for it
            caps.const_arrays = false;
            caps.unsat_assumptions = false;
            caps.options = vec!["produce-models", "print-success"];
        }
        Persona::Bitwuzla => {
            caps.options = vec!["incremental", "produce-models", "produce-unsat-assumptions", "produce-unsat-cores", "print-success"];
        }
        _ => {}
    }
    let dies_on_error = matches!(persona, Persona::Cvc5 | Persona::Bitwuzla);
    let mut ctl = Ctl::from_env();
    let mut script = Script::new(caps);
    script.solve_cfg.hex_values = persona == Persona::Z3;
    script.solve_cfg.model_cap = std::env::var("REFSMT_COUNT").ok().and_then(|s| s.parse().ok()).unwrap_or(0);
    if let Some(cap) = std::env::var("REFSMT_LEAF_CAP").ok().and_then(|s| s.parse().ok()) {
        script.solve_cfg.leaf_cap = cap;
    }

    let stdin = std::io::stdin();
    let mut out = std::io::stdout();
    let mut buf = String::new();
    let mut line_no = 0u64;
    let mut cmd_line = 1u64;
    let mut scripted: Option<std::vec::IntoIter<String>> = None;
    for line in stdin.lock().lines() {
        let Ok(line) = line else { break };
        line_no += 1;
        if buf.trim().is_empty() {
            cmd_line = line_no;
            buf.clear();
        }
        buf.push_str(&line);
        buf.push('\n');
        if paren_balance(&buf) > 0 {
            continue;
        }
        let text = std::mem::take(&mut buf);
        if text.trim().is_empty() {
            continue;
        }
        ctl.log(">", &text);
        let cmds = match read_all(&text) {
            Ok(c) => c,
            Err(e) => {
                reply_error(&mut out, &mut ctl, persona, cmd_line, &e);
                if dies_on_error {
                    std::process::exit(1);
                }
                continue;
            }
        };
        for cmd in cmds.iter() {
            let name = cmd.list().and_then(|l| l.first()).and_then(|h| h.simple_sym()).unwrap_or("").to_string();
            // scripted-reply mode (C14): `(declare-const |@@scripted:<file>| Bool)` switches it on; from
            // then on the reply to every get-value is the next line of <file>, verbatim (`\n` is a
            // line break; a trailing `@@EXIT` means: write without newline and exit)
            if name == "declare-const"
                && let Some(n) = cmd.list().and_then(|l| l.get(1)).and_then(|x| x.sym())
                && let Some(path) = n.strip_prefix("@@scripted:")
            {
                let text = std::fs::read_to_string(path).unwrap_or_default();
                scripted = Some(text.lines().map(|l| l.to_string()).collect::<Vec<_>>().into_iter());
                continue;
            }
            if name == "get-value"
                && let Some(it) = scripted.as_mut()
            {
                let line = it.next().unwrap_or_default().replace("\\n", "\n");
                if let Some(cut) = line.strip_suffix("@@EXIT") {
                    ctl.log("<", cut);
                    let _ = write!(out, "{cut}");
                    let _ = out.flush();
                    std::process::exit(0);
                }
                say(&mut out, &mut ctl, &line);
                continue;
            }
            let bearing = matches!(name.as_str(), "check-sat" | "check-sat-assuming" | "get-value" | "get-unsat-assumptions");
            // choose alternatives before executing
            if name == "check-sat" || name == "check-sat-assuming" {
                let alt = ctl.peek("model");
                let (m, fill) = model_alt(alt);
                script.solve_cfg.model = m;
                script.solve_cfg.fill_ones = fill;
            }
            if name == "get-unsat-assumptions" {
                let alt = ctl.peek("core");
                script.solve_cfg.core = match alt {
                    1 => CoreChoice::Full,
                    2 => CoreChoice::Padded,
                    3 => CoreChoice::MinimalRev,
                    _ => CoreChoice::Minimal,
                };
            }
            let r = script.exec(cmd);
            // log consumed choice points
            if (name == "check-sat" || name == "check-sat-assuming") && matches!(r, Ok(Response::Sat)) {
                let alt = ctl.peek("model");
                let arity = match &script.last {
                    LastCheck::Sat(m) => match m.n_cubes {
                        Some(n) if script.solve_cfg.model_cap > 0 && n <= script.solve_cfg.model_cap => 4 + n.saturating_sub(1),
                        _ => 4,
                    },
                    _ => 4,
                };
                ctl.consume("model", arity, alt);
            }
            if name == "get-unsat-assumptions" && r.is_ok() {
                let alt = ctl.peek("core");
                ctl.consume("core", 4, alt);
            }
            if bearing {
                let n = ctl.next_resp;
                ctl.append_trace(&format!("# {n} {name}"));
                ctl.next_resp += 1;
                if let Some((fn_, kind, param)) = ctl.fault.clone()
                    && fn_ == n
                {
                    let correct = match &r {
                        Ok(Response::Sat) => "sat".to_string(),
                        Ok(Response::Unsat) => "unsat".to_string(),
                        Ok(Response::Unknown) => "unknown".to_string(),
                        Ok(Response::Text(t)) => t.clone(),
                        Ok(_) => String::new(),
                        Err(e) => format!("(error \"{e}\")"),
                    };
                    inject_fault(&mut out, &mut ctl, &kind, &param, &correct);
                    continue;
                }
            }
            match r {
                Ok(Response::Silent) => {}
                Ok(Response::Sat) => say(&mut out, &mut ctl, "sat"),
                Ok(Response::Unsat) => say(&mut out, &mut ctl, "unsat"),
                Ok(Response::Unknown) => say(&mut out, &mut ctl, "unknown"),
                Ok(Response::Text(t)) => say(&mut out, &mut ctl, &t),
                Ok(Response::Exit) => {
                    let _ = out.flush();
                    std::process::exit(0);
                }
                Err(e) => {
                    if e.starts_with("refsmt:") {
                        // the reference solver itself cannot decide this query: machinery, not a verdict
                        eprintln!("{e}");
                        say(&mut out, &mut ctl, &format!("(error \"{e}\")"));
                        let _ = out.flush();
                        std::process::exit(98);
                    }
                    reply_error(&mut out, &mut ctl, persona, cmd_line, &e);
                    if dies_on_error {
                        let _ = out.flush();
                        std::process::exit(1);
                    }
                }
            }
        }
    }
}

fn say(out: &mut std::io::Stdout, ctl: &mut Ctl, s: &str) {
    ctl.log("<", s);
    let _ = writeln!(out, "{s}");
    let _ = out.flush();
}

fn reply_error(out: &mut std::io::Stdout, ctl: &mut Ctl, persona: Persona, line: u64, msg: &str) {
    let msg = msg.replace('"', "\"\"");
    let text = match persona {
        Persona::Z3 => format!("(error \"line {line} column 1: {msg}\")"),
        Persona::Yices => format!("(error \"at line {line}, column 1: {msg}\")"),
        _ => format!("(error \"{msg}\")"),
    };
    say(out, ctl, &text);
}

/// fault kinds (C15): see DESIGN §4 C15
fn inject_fault(out: &mut std::io::Stdout, ctl: &mut Ctl, kind: &str, param: &str, correct: &str) {
    ctl.log("!", &format!("fault {kind} {param}"));
    match kind {
        // (error "m") with a given message; the solver stays alive
        "error" => say(out, ctl, &format!("(error \"{param}\")")),
        // (error "m") and then the process exits with status 1
        "error-exit" => {
            say(out, ctl, &format!("(error \"{param}\")"));
            std::process::exit(1);
        }
        "unknown" => say(out, ctl, "unknown"),
        "empty" => say(out, ctl, ""),
        // unbalanced prefix of the correct reply followed by exit
        "truncate" => {
            let n: usize = param.parse().unwrap_or(1);
            let cut: String = correct.chars().take(n.min(correct.chars().count().saturating_sub(1)).max(1)).collect();
            ctl.log("<", &cut);
            let _ = write!(out, "{cut}");
            let _ = out.flush();
            std::process::exit(0);
        }
        "exit0" => std::process::exit(0),
        "exit1" => {
            eprintln!("refsmt: simulated solver crash: {param}");
            std::process::exit(1);
        }
        "garbage" => say(out, ctl, if param.is_empty() { "(foo bar)" } else { param }),
        // an extra line (a stale or unsolicited general response) in front of the intact reply
        "prefix" => {
            say(out, ctl, param);
            say(out, ctl, correct);
        }
        "garbage-unbalanced" => {
            ctl.log("<", "(foo (bar");
            let _ = writeln!(out, "(foo (bar");
            let _ = out.flush();
            std::process::exit(0);
        }
        other => {
            eprintln!("refsmt: unknown fault kind {other}");
            std::process::exit(99);
        }
    }
}
