//! Script state: scoped symbol table, assertions, strict command execution.

use crate::ast::*;
use crate::lex::{RESERVED, Sx, Tok, read_all};
use crate::solve::{Answer, Model, SolveCfg, solve};
use pvcore::bv::Val;
use std::collections::HashMap;
use std::rc::Rc;

#[derive(Clone)]
pub struct Sym {
    pub name: String,
    pub sort: Sort,
    pub def: Option<Rc<Term>>,
}

#[derive(Clone, Debug, PartialEq, Eq)]
pub enum Response {
    /// command produced no output (success is not printed: print-success is false)
    Silent,
    Sat,
    Unsat,
    Unknown,
    Text(String),
    Exit,
}

#[derive(Clone, Debug, Default)]
pub struct Caps {
    pub check_sat_assuming: bool,
    pub unsat_assumptions: bool,
    pub const_arrays: bool,
    /// names of options accepted by `set-option`
    pub options: Vec<&'static str>,
    pub logics: Vec<&'static str>,
}

impl Caps {
    pub fn all() -> Caps {
        Caps {
            check_sat_assuming: true,
            unsat_assumptions: true,
            const_arrays: true,
            options: vec!["produce-models", "incremental", "produce-unsat-assumptions", "produce-unsat-cores", "print-success"],
            logics: vec!["ALL", "QF_BV", "QF_ABV", "QF_AUFBV", "QF_UFBV", "QF_AX"],
        }
    }
}

struct Scope {
    syms_len: usize,
    asserts_len: usize,
    names: Vec<String>,
}

pub struct Script {
    pub syms: Vec<Sym>,
    by_name: HashMap<String, usize>,
    scopes: Vec<Scope>,
    pub assertions: Vec<Rc<Term>>,
    pub n_terms: usize,
    pub caps: Caps,
    pub logic: Option<String>,
    pub options: HashMap<String, String>,
    /// result of the last check-sat: model or the assumption list of an unsat answer
    pub last: LastCheck,
    pub solve_cfg: SolveCfg,
    /// statistics
    pub n_checks: u64,
    pub leaves: u64,
}

pub enum LastCheck {
    None,
    Sat(Model),
    Unsat { assumptions: Vec<(Sx, Rc<Term>)> },
}

struct Env<'a> {
    by_name: &'a HashMap<String, usize>,
    syms: &'a Vec<Sym>,
    n_terms: &'a mut usize,
}

impl<'a> SymEnv for Env<'a> {
    fn lookup(&self, name: &str) -> Option<(usize, Sort)> {
        self.by_name.get(name).map(|i| (*i, self.syms[*i].sort.clone()))
    }
    fn fresh_id(&mut self) -> usize {
        *self.n_terms += 1;
        *self.n_terms
    }
}

fn uses_const_array(t: &Rc<Term>) -> bool {
    match &t.tm {
        Tm::App(Op::ConstArr, _) => true,
        Tm::App(_, a) => a.iter().any(uses_const_array),
        _ => false,
    }
}

impl Script {
    pub fn new(caps: Caps) -> Script {
        Script {
            syms: vec![],
            by_name: HashMap::new(),
            scopes: vec![Scope { syms_len: 0, asserts_len: 0, names: vec![] }],
            assertions: vec![],
            n_terms: 0,
            caps,
            logic: None,
            options: HashMap::new(),
            last: LastCheck::None,
            solve_cfg: SolveCfg::default(),
            n_checks: 0,
            leaves: 0,
        }
    }

    pub fn lookup(&self, name: &str) -> Option<&Sym> {
        self.by_name.get(name).map(|i| &self.syms[*i])
    }

    pub fn parse_term(&mut self, sx: &Sx) -> Result<Rc<Term>, String> {
        let mut env = Env { by_name: &self.by_name, syms: &self.syms, n_terms: &mut self.n_terms };
        let t = Checker::new(&mut env).term(sx)?;
        if !self.caps.const_arrays && uses_const_array(&t) {
            return Err("unsupported: (as const ...) arrays".into());
        }
        Ok(t)
    }

    pub fn parse_term_str(&mut self, s: &str) -> Result<Rc<Term>, String> {
        let sx = read_all(s)?;
        if sx.len() != 1 {
            return Err("expected exactly one term".into());
        }
        self.parse_term(&sx[0])
    }

    fn check_new_name(&self, sx: &Sx) -> Result<String, String> {
        let name = match sx {
            Sx::T(Tok::Sym(s)) => {
                if RESERVED.contains(&s.as_str()) {
                    return Err(format!("{s} is a reserved word"));
                }
                s.clone()
            }
            Sx::T(Tok::QSym(s)) => s.clone(),
            o => return Err(format!("{} is not a symbol", o.show())),
        };
        if ["true", "false", "not", "and", "or", "xor", "=>", "=", "distinct", "ite", "select", "store", "concat"].contains(&name.as_str())
            || (name.starts_with("bv") && matches!(sx, Sx::T(Tok::Sym(_))) && is_bv_fun(&name))
        {
            return Err(format!("{name} is a theory symbol and cannot be redeclared"));
        }
        if self.by_name.contains_key(&name) {
            return Err(format!("symbol {} is already declared", sx.show()));
        }
        Ok(name)
    }

    fn add_sym(&mut self, name: String, sort: Sort, def: Option<Rc<Term>>) {
        let idx = self.syms.len();
        self.syms.push(Sym { name: name.clone(), sort, def });
        self.by_name.insert(name.clone(), idx);
        self.scopes.last_mut().unwrap().names.push(name);
    }

    /// execute one command; Err(msg) is an `(error "msg")` reply
    pub fn exec(&mut self, cmd: &Sx) -> Result<Response, String> {
        let l = cmd.list().ok_or("command must be a list")?;
        let head = l.first().and_then(|h| h.simple_sym()).ok_or("missing command name")?;
        match head {
            "exit" => {
                if l.len() != 1 {
                    return Err("exit takes no arguments".into());
                }
                Ok(Response::Exit)
            }
            "set-logic" => {
                let name = l.get(1).and_then(|x| x.simple_sym()).ok_or("set-logic needs a symbol")?;
                if l.len() != 2 {
                    return Err("set-logic takes one argument".into());
                }
                if self.logic.is_some() {
                    return Err("logic already set".into());
                }
                if !self.caps.logics.contains(&name) {
                    return Err(format!("unknown logic {name}"));
                }
                self.logic = Some(name.to_string());
                Ok(Response::Silent)
            }
            "set-option" => {
                let kw = match l.get(1) {
                    Some(Sx::T(Tok::Kw(k))) => k.clone(),
                    _ => return Err("set-option needs a keyword".into()),
                };
                if l.len() != 3 {
                    return Err("set-option takes a keyword and a value".into());
                }
                if !self.caps.options.contains(&kw.as_str()) {
                    return Err(format!("unsupported option :{kw}"));
                }
                self.options.insert(kw, l[2].show());
                Ok(Response::Silent)
            }
            "set-info" => {
                match l.get(1) {
                    Some(Sx::T(Tok::Kw(_))) => {}
                    _ => return Err("set-info needs a keyword".into()),
                };
                if l.len() > 3 {
                    return Err("set-info takes a keyword and at most one value".into());
                }
                Ok(Response::Silent)
            }
            "declare-const" | "declare-fun" => {
                let is_fun = head == "declare-fun";
                let want = if is_fun { 4 } else { 3 };
                if l.len() != want {
                    return Err(format!("{head}: wrong number of arguments"));
                }
                let name = self.check_new_name(&l[1])?;
                if is_fun {
                    let params = l[2].list().ok_or("declare-fun needs a parameter list")?;
                    if !params.is_empty() {
                        return Err("only 0-ary functions are supported".into());
                    }
                }
                let sort = parse_sort(&l[want - 1])?;
                self.add_sym(name, sort, None);
                Ok(Response::Silent)
            }
            "define-fun" | "define-const" => {
                let is_fun = head == "define-fun";
                let want = if is_fun { 5 } else { 4 };
                if l.len() != want {
                    return Err(format!("{head}: wrong number of arguments"));
                }
                let name = self.check_new_name(&l[1])?;
                if is_fun {
                    let params = l[2].list().ok_or("define-fun needs a parameter list")?;
                    if !params.is_empty() {
                        return Err("only 0-ary functions are supported".into());
                    }
                }
                let sort = parse_sort(&l[want - 2])?;
                let t = self.parse_term(&l[want - 1])?;
                if t.sort != sort {
                    return Err(format!("definition of {} has sort {} but is declared {}", l[1].show(), t.sort.show(), sort.show()));
                }
                self.add_sym(name, sort, Some(t));
                Ok(Response::Silent)
            }
            "assert" => {
                if l.len() != 2 {
                    return Err("assert takes one term".into());
                }
                let t = self.parse_term(&l[1])?;
                if t.sort != Sort::Bool {
                    return Err(format!("assert needs a Bool term, got {}", t.sort.show()));
                }
                self.assertions.push(t);
                Ok(Response::Silent)
            }
            "push" | "pop" => {
                let n = match l.len() {
                    1 => 1,
                    2 => l[1].num().ok_or("push/pop needs a numeral")?,
                    _ => return Err("push/pop takes at most one numeral".into()),
                };
                for _ in 0..n {
                    if head == "push" {
                        self.scopes.push(Scope { syms_len: self.syms.len(), asserts_len: self.assertions.len(), names: vec![] });
                    } else {
                        if self.scopes.len() <= 1 {
                            return Err("pop on an empty assertion stack".into());
                        }
                        let sc = self.scopes.pop().unwrap();
                        for n in sc.names.iter() {
                            self.by_name.remove(n);
                        }
                        self.syms.truncate(sc.syms_len);
                        self.assertions.truncate(sc.asserts_len);
                    }
                }
                self.last = LastCheck::None;
                Ok(Response::Silent)
            }
            "check-sat" | "check-sat-assuming" => {
                let mut assumptions: Vec<(Sx, Rc<Term>)> = vec![];
                if head == "check-sat-assuming" {
                    if !self.caps.check_sat_assuming {
                        return Err("unsupported: check-sat-assuming".into());
                    }
                    if l.len() != 2 {
                        return Err("check-sat-assuming takes one list".into());
                    }
                    for a in l[1].list().ok_or("check-sat-assuming needs a list of terms")? {
                        let t = self.parse_term(a)?;
                        if t.sort != Sort::Bool {
                            return Err(format!("assumption {} is not Bool", a.show()));
                        }
                        assumptions.push((a.clone(), t));
                    }
                } else if l.len() != 1 {
                    return Err("check-sat takes no arguments".into());
                }
                self.n_checks += 1;
                let mut formulas: Vec<Rc<Term>> = self.assertions.clone();
                formulas.extend(assumptions.iter().map(|(_, t)| t.clone()));
                let (ans, leaves) = solve(&self.syms, self.n_terms, &formulas, &self.solve_cfg)?;
                self.leaves += leaves;
                match ans {
                    Answer::Sat(m) => {
                        self.last = LastCheck::Sat(m);
                        Ok(Response::Sat)
                    }
                    Answer::Unsat => {
                        self.last = LastCheck::Unsat { assumptions };
                        Ok(Response::Unsat)
                    }
                    Answer::Unknown => {
                        self.last = LastCheck::None;
                        Ok(Response::Unknown)
                    }
                }
            }
            "get-value" => {
                if l.len() != 2 {
                    return Err("get-value takes one list".into());
                }
                let terms = l[1].list().ok_or("get-value needs a list of terms")?.to_vec();
                if terms.is_empty() {
                    return Err("get-value needs at least one term".into());
                }
                let mut parsed = vec![];
                for t in terms.iter() {
                    parsed.push(self.parse_term(t)?);
                }
                let LastCheck::Sat(model) = &self.last else {
                    return Err("get-value is only available after a sat answer".into());
                };
                let hex = self.solve_cfg.hex_values;
                let mut parts = vec![];
                for (sx, t) in terms.iter().zip(parsed.iter()) {
                    let v = model.eval(&self.syms, self.n_terms, t);
                    parts.push(format!("({} {})", sx.show(), show_value(&v, &t.sort, hex)));
                }
                Ok(Response::Text(format!("({})", parts.join(" "))))
            }
            "get-unsat-assumptions" => {
                if !self.caps.unsat_assumptions {
                    return Err("unsupported: get-unsat-assumptions".into());
                }
                if l.len() != 1 {
                    return Err("get-unsat-assumptions takes no arguments".into());
                }
                let LastCheck::Unsat { assumptions } = &self.last else {
                    return Err("get-unsat-assumptions is only available after an unsat answer".into());
                };
                let core = crate::solve::unsat_core(&self.syms, self.n_terms, &self.assertions, assumptions, &self.solve_cfg)?;
                let txt: Vec<String> = core.iter().map(|i| self.show_core_term(&assumptions[*i])).collect();
                Ok(Response::Text(format!("({})", txt.join(" "))))
            }
            other => Err(format!("unknown or unsupported command {other}")),
        }
    }

    fn show_core_term(&self, a: &(Sx, Rc<Term>)) -> String {
        a.0.show()
    }

    /// run a whole script text; returns one entry per command
    pub fn exec_text(&mut self, text: &str) -> Result<Vec<Result<Response, String>>, String> {
        let cmds = read_all(text)?;
        let mut out = vec![];
        for c in cmds.iter() {
            let r = self.exec(c);
            let stop = matches!(r, Ok(Response::Exit));
            out.push(r);
            if stop {
                break;
            }
        }
        Ok(out)
    }

    /// evaluate a closed-under-bindings term: `bind(name)` supplies values of declared constants
    pub fn eval_with(&self, t: &Rc<Term>, bind: &dyn Fn(&str) -> Option<Val>) -> Option<Val> {
        let mut ev = Evaluator::new(self.n_terms);
        ev.next_gen(self.n_terms);
        let syms = &self.syms;
        ev.eval(t, &|i| match &syms[i].def {
            Some(d) => VarBinding::Def(d.clone()),
            None => match bind(&syms[i].name) {
                Some(v) => VarBinding::Value(v),
                None => VarBinding::Unknown,
            },
        })
    }
}

fn is_bv_fun(n: &str) -> bool {
    [
        "bvnot", "bvneg", "bvand", "bvor", "bvxor", "bvnand", "bvnor", "bvxnor", "bvcomp", "bvadd", "bvsub", "bvmul", "bvudiv",
        "bvurem", "bvsdiv", "bvsrem", "bvsmod", "bvshl", "bvlshr", "bvashr", "bvult", "bvule", "bvugt", "bvuge", "bvslt", "bvsle",
        "bvsgt", "bvsge",
    ]
    .contains(&n)
}
