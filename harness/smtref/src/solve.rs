//! Decision by exhaustive enumeration with Kleene pruning (not an SMT algorithm):
//! flatten top-level conjunctions, propagate unit facts, restrict to the cone of the remaining
//! formulas, fix pure activation literals, then depth-first enumerate the remaining free
//! constants with three-valued evaluation of every formula after each assignment.
//! `unsat` is only answered after the whole pruned tree has been walked.

use crate::ast::*;
use crate::script::Sym;
use num_bigint::BigUint;
use pvcore::bv::{Arr, Bv, Val};
use std::collections::{BTreeMap, HashSet};
use std::rc::Rc;

#[derive(Clone, Debug, PartialEq, Eq)]
pub enum ModelChoice {
    /// first model in ascending enumeration order
    Min,
    /// first model in descending enumeration order
    Max,
    /// j-th satisfying cube in ascending order (falls back to Min when out of range)
    Nth(usize),
}

#[derive(Clone, Debug, PartialEq, Eq)]
pub enum CoreChoice {
    /// deletion-based minimal core, assumptions tried first to last
    Minimal,
    Full,
    Padded,
    /// deletion-based minimal core, assumptions tried last to first (another legal minimal core)
    MinimalRev,
}

#[derive(Clone, Debug)]
pub struct SolveCfg {
    pub model: ModelChoice,
    pub fill_ones: bool,
    pub core: CoreChoice,
    pub hex_values: bool,
    /// count satisfying cubes (up to this cap + 1) on every sat answer; 0 = do not count
    pub model_cap: usize,
    pub leaf_cap: u64,
}

impl Default for SolveCfg {
    fn default() -> Self {
        SolveCfg { model: ModelChoice::Min, fill_ones: false, core: CoreChoice::Minimal, hex_values: false, model_cap: 0, leaf_cap: 50_000_000 }
    }
}

#[derive(Clone, Debug)]
pub struct Model {
    pub values: BTreeMap<usize, Val>,
    pub fill_ones: bool,
    /// number of satisfying cubes when counted (capped), for the choice-point arity
    pub n_cubes: Option<usize>,
}

pub enum Answer {
    Sat(Model),
    Unsat,
    Unknown,
}

fn fill_value(sort: &Sort, ones: bool) -> Val {
    match sort {
        Sort::Bool => Val::B(Bv::from_bool(ones)),
        Sort::Bv(w) => Val::B(if ones { Bv::ones(*w) } else { Bv::zero(*w) }),
        Sort::Arr(i, e) => {
            let d = fill_value(e, ones);
            Val::A(Arr::constant(i.width().unwrap(), d.bv()))
        }
    }
}

impl Model {
    pub fn eval(&self, syms: &[Sym], n_terms: usize, t: &Rc<Term>) -> Val {
        let mut ev = Evaluator::new(n_terms);
        ev.next_gen(n_terms);
        ev.eval(t, &|i| match &syms[i].def {
            Some(d) => VarBinding::Def(d.clone()),
            None => match self.values.get(&i) {
                Some(v) => VarBinding::Value(v.clone()),
                None => VarBinding::Value(fill_value(&syms[i].sort, self.fill_ones)),
            },
        })
        .expect("complete assignment must evaluate")
    }
}

fn flatten(t: &Rc<Term>, out: &mut Vec<Rc<Term>>) {
    if let Tm::App(Op::And, args) = &t.tm {
        for a in args {
            flatten(a, out);
        }
    } else {
        out.push(t.clone());
    }
}

fn free_var(t: &Rc<Term>, syms: &[Sym]) -> Option<usize> {
    if let Tm::Var(i) = &t.tm
        && syms[*i].def.is_none()
    {
        return Some(*i);
    }
    None
}

fn const_val(t: &Rc<Term>) -> Option<Val> {
    if let Tm::Const(v) = &t.tm { Some(v.clone()) } else { None }
}

/// unit fact: (var, value) if the formula fixes a free constant
fn unit(t: &Rc<Term>, syms: &[Sym]) -> Option<(usize, Val)> {
    if let Some(v) = free_var(t, syms) {
        return Some((v, Val::B(Bv::from_bool(true))));
    }
    if let Tm::App(Op::Not, a) = &t.tm
        && let Some(v) = free_var(&a[0], syms)
    {
        return Some((v, Val::B(Bv::from_bool(false))));
    }
    if let Tm::App(Op::Eq, a) = &t.tm
        && a.len() == 2
    {
        if let (Some(v), Some(c)) = (free_var(&a[0], syms), const_val(&a[1])) {
            return Some((v, c));
        }
        if let (Some(c), Some(v)) = (const_val(&a[0]), free_var(&a[1], syms)) {
            return Some((v, c));
        }
    }
    None
}

fn collect_free(t: &Rc<Term>, syms: &[Sym], seen_terms: &mut HashSet<usize>, out: &mut Vec<usize>) {
    if !seen_terms.insert(t.id) {
        return;
    }
    match &t.tm {
        Tm::Const(_) => {}
        Tm::Var(i) => match &syms[*i].def {
            Some(d) => collect_free(d, syms, seen_terms, out),
            None => {
                if !out.contains(i) {
                    out.push(*i);
                }
            }
        },
        Tm::App(_, args) => {
            for a in args {
                collect_free(a, syms, seen_terms, out);
            }
        }
    }
}

fn domain(sort: &Sort, descending: bool) -> Result<Vec<Val>, String> {
    let mut v: Vec<Val> = match sort {
        Sort::Bool => vec![Val::B(Bv::from_bool(false)), Val::B(Bv::from_bool(true))],
        Sort::Bv(w) => {
            if *w > 12 {
                return Err(format!("refsmt: free bit-vector constant of width {w} is outside the enumerable domain"));
            }
            (0..(1u64 << w)).map(|x| Val::B(Bv::from_u64(*w, x))).collect()
        }
        Sort::Arr(i, e) => {
            let bits = sort.bits().ok_or("refsmt: array too large")?;
            if bits > 10 {
                return Err(format!("refsmt: free array constant with {bits} bits is outside the enumerable domain"));
            }
            let (iw, ew) = (i.width().unwrap(), e.width().unwrap());
            let n = 1usize << iw;
            let total = 1u64 << bits;
            (0..total)
                .map(|code| {
                    let t: Vec<Bv> = (0..n).map(|k| Bv::from_u64(ew, (code >> (k as u32 * ew)) & ((1u64 << ew) - 1))).collect();
                    Val::A(Arr::from_table(iw, ew, &t))
                })
                .collect()
        }
    };
    if descending {
        v.reverse();
    }
    Ok(v)
}

struct Search<'a> {
    syms: &'a [Sym],
    n_terms: usize,
    formulas: Vec<Rc<Term>>,
    order: Vec<usize>,
    domains: Vec<Vec<Val>>,
    assign: BTreeMap<usize, Val>,
    ev: Evaluator,
    leaves: u64,
    leaf_cap: u64,
    found: Vec<BTreeMap<usize, Val>>,
    want: usize,
}

impl<'a> Search<'a> {
    /// returns Some(true) all formulas true, Some(false) some formula false, None undetermined
    fn status(&mut self) -> Option<bool> {
        self.ev.next_gen(self.n_terms);
        let mut all_true = true;
        let syms = self.syms;
        let assign = &self.assign;
        for f in self.formulas.iter() {
            let r = self.ev.eval(f, &|i| match &syms[i].def {
                Some(d) => VarBinding::Def(d.clone()),
                None => match assign.get(&i) {
                    Some(v) => VarBinding::Value(v.clone()),
                    None => VarBinding::Unknown,
                },
            });
            match r {
                Some(v) => {
                    if !v.bv().to_bool() {
                        return Some(false);
                    }
                }
                None => all_true = false,
            }
        }
        if all_true { Some(true) } else { None }
    }

    fn dfs(&mut self, depth: usize) -> Result<bool, String> {
        match self.status() {
            Some(false) => {
                self.leaves += 1;
                return Ok(false);
            }
            Some(true) => {
                self.leaves += 1;
                self.found.push(self.assign.clone());
                return Ok(self.found.len() >= self.want);
            }
            None => {}
        }
        if self.leaves > self.leaf_cap {
            return Err("refsmt: leaf budget exhausted".into());
        }
        if depth >= self.order.len() {
            // every free constant of the cone is assigned, so every formula must be determined
            return Err("refsmt: internal error: undetermined formula under a complete assignment".into());
        }
        let var = self.order[depth];
        for k in 0..self.domains[depth].len() {
            let v = self.domains[depth][k].clone();
            self.assign.insert(var, v);
            if self.dfs(depth + 1)? {
                return Ok(true);
            }
        }
        self.assign.remove(&var);
        Ok(false)
    }
}

/// Decide `formulas` (conjunction). Returns the answer and the number of leaves visited.
pub fn solve(syms: &[Sym], n_terms: usize, formulas: &[Rc<Term>], cfg: &SolveCfg) -> Result<(Answer, u64), String> {
    // 1. flatten
    let mut fs: Vec<Rc<Term>> = vec![];
    for f in formulas {
        flatten(f, &mut fs);
    }
    // 2. unit propagation to a fixed point
    let mut fixed: BTreeMap<usize, Val> = BTreeMap::new();
    let mut ev = Evaluator::new(n_terms);
    loop {
        let mut changed = false;
        for f in fs.iter() {
            if let Some((v, val)) = unit(f, syms) {
                match fixed.get(&v) {
                    Some(old) if *old != val => return Ok((Answer::Unsat, 1)),
                    Some(_) => {}
                    None => {
                        fixed.insert(v, val);
                        changed = true;
                    }
                }
            }
        }
        // drop formulas that are definitely true, fail on definitely false
        ev.next_gen(n_terms);
        let mut rest = vec![];
        for f in fs.iter() {
            let r = ev.eval(f, &|i| match &syms[i].def {
                Some(d) => VarBinding::Def(d.clone()),
                None => match fixed.get(&i) {
                    Some(v) => VarBinding::Value(v.clone()),
                    None => VarBinding::Unknown,
                },
            });
            match r {
                Some(v) if v.bv().to_bool() => {}
                Some(_) => return Ok((Answer::Unsat, 1)),
                None => rest.push(f.clone()),
            }
        }
        if rest.len() != fs.len() {
            changed = true;
        }
        fs = rest;
        if !changed {
            break;
        }
    }
    // 3. pure activation literals: a free Bool constant that occurs only as the antecedent of
    //    top-level implications (or as `(not v)` disjunct of top-level clauses) is set to false
    loop {
        let mut elsewhere: Vec<usize> = vec![];
        let mut seen = HashSet::new();
        let mut cands: Vec<(usize, usize)> = vec![]; // (formula index, var)
        for (k, f) in fs.iter().enumerate() {
            let mut handled = false;
            if let Tm::App(Op::Implies, a) = &f.tm
                && a.len() == 2
                && let Some(v) = free_var(&a[0], syms)
                && syms[v].sort == Sort::Bool
                && !fixed.contains_key(&v)
            {
                cands.push((k, v));
                collect_free(&a[1], syms, &mut seen, &mut elsewhere);
                handled = true;
            }
            if !handled
                && let Tm::App(Op::Or, a) = &f.tm
            {
                // (or (not v) rest...)
                let mut neg_lits = vec![];
                for x in a.iter() {
                    if let Tm::App(Op::Not, n) = &x.tm
                        && let Some(v) = free_var(&n[0], syms)
                        && !fixed.contains_key(&v)
                    {
                        neg_lits.push(v);
                    } else {
                        collect_free(x, syms, &mut seen, &mut elsewhere);
                    }
                }
                if neg_lits.len() == 1 {
                    cands.push((k, neg_lits[0]));
                } else {
                    for v in neg_lits {
                        if !elsewhere.contains(&v) {
                            elsewhere.push(v);
                        }
                    }
                }
                handled = true;
            }
            if !handled {
                collect_free(f, syms, &mut seen, &mut elsewhere);
            }
        }
        let pure: Vec<usize> = cands.iter().map(|(_, v)| *v).filter(|v| !elsewhere.contains(v)).collect();
        if pure.is_empty() {
            break;
        }
        let drop: HashSet<usize> = cands.iter().filter(|(_, v)| pure.contains(v)).map(|(k, _)| *k).collect();
        for v in pure {
            fixed.insert(v, Val::B(Bv::from_bool(false)));
        }
        fs = fs.into_iter().enumerate().filter(|(k, _)| !drop.contains(k)).map(|(_, f)| f).collect();
    }
    // 4. cone of the remaining formulas
    let mut cone: Vec<usize> = vec![];
    let mut seen = HashSet::new();
    for f in fs.iter() {
        collect_free(f, syms, &mut seen, &mut cone);
    }
    cone.retain(|v| !fixed.contains_key(v));
    // 5. order: Bools, narrow bit-vectors, arrays; ties by declaration order
    cone.sort_by_key(|v| {
        let rank = match &syms[*v].sort {
            Sort::Bool => 0u64,
            Sort::Bv(w) => *w as u64,
            Sort::Arr(..) => 1000 + syms[*v].sort.bits().unwrap_or(1 << 20),
        };
        (rank, *v)
    });
    let descending = cfg.model == ModelChoice::Max;
    let mut domains = vec![];
    for v in cone.iter() {
        domains.push(domain(&syms[*v].sort, descending)?);
    }
    let want = match (&cfg.model, cfg.model_cap) {
        (ModelChoice::Nth(j), cap) => (*j + 1).max(cap + 1),
        (_, 0) => 1,
        (_, cap) => cap + 1,
    };
    let mut s = Search {
        syms,
        n_terms,
        formulas: fs,
        order: cone,
        domains,
        assign: fixed.clone(),
        ev: Evaluator::new(n_terms),
        leaves: 0,
        leaf_cap: cfg.leaf_cap,
        found: vec![],
        want,
    };
    s.dfs(0)?;
    let leaves = s.leaves.max(1);
    if s.found.is_empty() {
        return Ok((Answer::Unsat, leaves));
    }
    let n_cubes = if cfg.model_cap > 0 || matches!(cfg.model, ModelChoice::Nth(_)) { Some(s.found.len()) } else { None };
    let pick = match &cfg.model {
        ModelChoice::Nth(j) if *j < s.found.len() => *j,
        _ => 0,
    };
    let values = s.found[pick].clone();
    Ok((Answer::Sat(Model { values, fill_ones: cfg.fill_ones, n_cubes }), leaves))
}

/// indices (into `assumptions`) of an unsat core, by the configured policy
pub fn unsat_core(
    syms: &[Sym],
    n_terms: usize,
    assertions: &[Rc<Term>],
    assumptions: &[(crate::lex::Sx, Rc<Term>)],
    cfg: &SolveCfg,
) -> Result<Vec<usize>, String> {
    let n = assumptions.len();
    if cfg.core == CoreChoice::Full {
        return Ok((0..n).collect());
    }
    let mut plain = cfg.clone();
    plain.model = ModelChoice::Min;
    plain.model_cap = 0;
    let mut keep: Vec<bool> = vec![true; n];
    let order: Vec<usize> = if cfg.core == CoreChoice::MinimalRev { (0..n).rev().collect() } else { (0..n).collect() };
    for i in order {
        keep[i] = false;
        let mut fs: Vec<Rc<Term>> = assertions.to_vec();
        for (j, (_, t)) in assumptions.iter().enumerate() {
            if keep[j] {
                fs.push(t.clone());
            }
        }
        let (ans, _) = solve(syms, n_terms, &fs, &plain)?;
        if !matches!(ans, Answer::Unsat) {
            keep[i] = true;
        }
    }
    let mut core: Vec<usize> = (0..n).filter(|i| keep[*i]).collect();
    if cfg.core == CoreChoice::Padded {
        let rest: Vec<usize> = (0..n).filter(|i| !keep[*i]).collect();
        for (k, i) in rest.iter().enumerate() {
            if k % 2 == 0 {
                core.push(*i);
            }
        }
        core.sort();
    }
    Ok(core)
}

#[allow(dead_code)]
fn _keep(_: BigUint) {}
