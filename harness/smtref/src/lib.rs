//! Strict reference SMT-LIB front end (lexer, sort checker, evaluator) and an enumeration-based
//! reference solver with owned nondeterminism (`refsmt` binary).
pub mod ast;
pub mod lex;
pub mod script;
pub mod solve;
