//! Strict SMT-LIB 2.6 lexer and s-expression reader.

#[derive(Clone, Debug, PartialEq, Eq)]
pub enum Tok {
    /// simple symbol
    Sym(String),
    /// quoted symbol `|...|` (content without the bars)
    QSym(String),
    /// keyword `:name` (without the colon)
    Kw(String),
    Num(String),
    Bin(String),
    Hex(String),
    Str(String),
}

#[derive(Clone, Debug, PartialEq, Eq)]
pub enum Sx {
    T(Tok),
    L(Vec<Sx>),
}

impl Sx {
    pub fn sym(&self) -> Option<&str> {
        match self {
            Sx::T(Tok::Sym(s)) | Sx::T(Tok::QSym(s)) => Some(s),
            _ => None,
        }
    }
    /// symbol that is NOT quoted (reserved words and operators are only recognised unquoted)
    pub fn simple_sym(&self) -> Option<&str> {
        match self {
            Sx::T(Tok::Sym(s)) => Some(s),
            _ => None,
        }
    }
    pub fn list(&self) -> Option<&[Sx]> {
        match self {
            Sx::L(l) => Some(l),
            _ => None,
        }
    }
    pub fn num(&self) -> Option<u64> {
        match self {
            Sx::T(Tok::Num(n)) => n.parse().ok(),
            _ => None,
        }
    }
    pub fn show(&self) -> String {
        match self {
            Sx::T(Tok::Sym(s)) => s.clone(),
            Sx::T(Tok::QSym(s)) => format!("|{s}|"),
            Sx::T(Tok::Kw(s)) => format!(":{s}"),
            Sx::T(Tok::Num(s)) => s.clone(),
            Sx::T(Tok::Bin(s)) => format!("#b{s}"),
            Sx::T(Tok::Hex(s)) => format!("#x{s}"),
            Sx::T(Tok::Str(s)) => format!("\"{}\"", s.replace('"', "\"\"")),
            Sx::L(l) => format!("({})", l.iter().map(|x| x.show()).collect::<Vec<_>>().join(" ")),
        }
    }
}

pub const RESERVED: &[&str] = &[
    "!", "_", "as", "BINARY", "DECIMAL", "exists", "HEXADECIMAL", "forall", "let", "match", "NUMERAL", "par", "STRING",
    "assert", "check-sat", "check-sat-assuming", "declare-const", "declare-datatype", "declare-datatypes",
    "declare-fun", "declare-sort", "define-fun", "define-fun-rec", "define-funs-rec", "define-sort", "echo", "exit",
    "get-assertions", "get-assignment", "get-info", "get-model", "get-option", "get-proof", "get-unsat-assumptions",
    "get-unsat-core", "get-value", "pop", "push", "reset", "reset-assertions", "set-info", "set-logic", "set-option",
];

fn is_sym_char(c: char) -> bool {
    c.is_ascii_alphanumeric() || "~!@$%^&*_-+=<>.?/".contains(c)
}

/// Tokenise and read all top-level s-expressions. Strict: illegal characters, unterminated
/// strings / quoted symbols and unbalanced parentheses are errors.
pub fn read_all(input: &str) -> Result<Vec<Sx>, String> {
    let cs: Vec<char> = input.chars().collect();
    let mut i = 0usize;
    let mut stack: Vec<Vec<Sx>> = vec![vec![]];
    while i < cs.len() {
        let c = cs[i];
        if c == ' ' || c == '\t' || c == '\n' || c == '\r' {
            i += 1;
        } else if c == ';' {
            while i < cs.len() && cs[i] != '\n' {
                i += 1;
            }
        } else if c == '(' {
            stack.push(vec![]);
            i += 1;
        } else if c == ')' {
            if stack.len() < 2 {
                return Err("unexpected ')'".into());
            }
            let l = stack.pop().unwrap();
            stack.last_mut().unwrap().push(Sx::L(l));
            i += 1;
        } else if c == '|' {
            let mut j = i + 1;
            let mut s = String::new();
            loop {
                if j >= cs.len() {
                    return Err("unterminated quoted symbol".into());
                }
                if cs[j] == '|' {
                    break;
                }
                if cs[j] == '\\' {
                    return Err("backslash inside quoted symbol".into());
                }
                s.push(cs[j]);
                j += 1;
            }
            stack.last_mut().unwrap().push(Sx::T(Tok::QSym(s)));
            i = j + 1;
        } else if c == '"' {
            let mut j = i + 1;
            let mut s = String::new();
            loop {
                if j >= cs.len() {
                    return Err("unterminated string literal".into());
                }
                if cs[j] == '"' {
                    if j + 1 < cs.len() && cs[j + 1] == '"' {
                        s.push('"');
                        j += 2;
                        continue;
                    }
                    break;
                }
                s.push(cs[j]);
                j += 1;
            }
            stack.last_mut().unwrap().push(Sx::T(Tok::Str(s)));
            i = j + 1;
        } else if c == '#' {
            if i + 1 >= cs.len() {
                return Err("lone '#'".into());
            }
            let kind = cs[i + 1];
            let mut j = i + 2;
            let mut s = String::new();
            while j < cs.len() && cs[j].is_ascii_alphanumeric() {
                s.push(cs[j]);
                j += 1;
            }
            if s.is_empty() {
                return Err("empty #b/#x literal".into());
            }
            match kind {
                'b' => {
                    if !s.chars().all(|c| c == '0' || c == '1') {
                        return Err(format!("bad binary literal #b{s}"));
                    }
                    stack.last_mut().unwrap().push(Sx::T(Tok::Bin(s)));
                }
                'x' => {
                    if !s.chars().all(|c| c.is_ascii_hexdigit()) {
                        return Err(format!("bad hex literal #x{s}"));
                    }
                    stack.last_mut().unwrap().push(Sx::T(Tok::Hex(s)));
                }
                _ => return Err(format!("unknown literal prefix #{kind}")),
            }
            i = j;
        } else if c == ':' {
            let mut j = i + 1;
            let mut s = String::new();
            while j < cs.len() && is_sym_char(cs[j]) {
                s.push(cs[j]);
                j += 1;
            }
            if s.is_empty() {
                return Err("empty keyword".into());
            }
            stack.last_mut().unwrap().push(Sx::T(Tok::Kw(s)));
            i = j;
        } else if c.is_ascii_digit() {
            let mut j = i;
            let mut s = String::new();
            while j < cs.len() && (cs[j].is_ascii_digit() || cs[j] == '.') {
                s.push(cs[j]);
                j += 1;
            }
            if j < cs.len() && is_sym_char(cs[j]) {
                return Err(format!("symbol starting with a digit: {s}{}", cs[j]));
            }
            stack.last_mut().unwrap().push(Sx::T(Tok::Num(s)));
            i = j;
        } else if is_sym_char(c) {
            let mut j = i;
            let mut s = String::new();
            while j < cs.len() && is_sym_char(cs[j]) {
                s.push(cs[j]);
                j += 1;
            }
            stack.last_mut().unwrap().push(Sx::T(Tok::Sym(s)));
            i = j;
        } else {
            return Err(format!("illegal character {c:?}"));
        }
    }
    if stack.len() != 1 {
        return Err("missing ')'".into());
    }
    Ok(stack.pop().unwrap())
}

/// parenthesis balance of a line, ignoring string literals, quoted symbols and comments
pub fn paren_balance(s: &str) -> i64 {
    let mut depth = 0i64;
    let mut in_str = false;
    let mut in_q = false;
    let mut in_c = false;
    for c in s.chars() {
        if in_c {
            if c == '\n' {
                in_c = false;
            }
            continue;
        }
        if in_str {
            if c == '"' {
                in_str = false;
            }
            continue;
        }
        if in_q {
            if c == '|' {
                in_q = false;
            }
            continue;
        }
        match c {
            '"' => in_str = true,
            '|' => in_q = true,
            ';' => in_c = true,
            '(' => depth += 1,
            ')' => depth -= 1,
            _ => {}
        }
    }
    depth
}
