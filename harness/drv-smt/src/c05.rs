//! C05 — SMT-LIB output of an expression is well-sorted and means the same thing.

use patronus::expr::{Context, ExprRef, TypeCheck};
use patronus::smt::{Logic, SmtCommand, serialize_cmd};
use pvcore::bv::Val;
use pvcore::evalref::*;
use pvcore::run::*;
use pvcore::sweep::*;
use pvcore::terms::*;
use serde_json::{Value, json};
use smtref::ast::Sort;
use smtref::lex::read_all;
use smtref::script::{Caps, Script};

pub const EXH_BITS: u64 = 8;
pub const ASSIGN_CAP: usize = 600;

pub fn meta(rep: &mut Report) {
    rep.rule = "terms T1/T2 over all 35 operators incl. div/rem and arrays with 1-bit index and/or data, universes listed under coverage.stages (every mixture of 1-bit and wider operands in every argument position arises from the universes [1,w]); each term is written by serialize_cmd inside declare-const / define-fun / assert / check-sat-assuming / get-value commands; the text must lex, parse and sort-check in the strict SMT-LIB reference front end against the declarations (1-bit => Bool), the defined symbol must have the expected sort, and evaluating the parsed term must equal the reference evaluation of the expression under every assignment (exhaustive <= 8 symbol bits, else boundary product). A separate sweep renames the symbols of base terms with names of every class (simple, needs quoting, non-ASCII, empty, reserved words, unquotable). distinct_nontrivial = distinct terms with at least one operator whose text was accepted and evaluated".into();
    rep.assumptions = vec![
        "strict front end follows SMT-LIB 2.6: Bool and (_ BitVec 1) are different sorts, reserved words cannot be used as unquoted symbols".into(),
        "values wider than 8 bits in total come from the boundary alphabet only".into(),
    ];
}

pub fn stages(tier: Tier, seed: u64) -> Vec<Stage> {
    let mk = |ws: &[u32], arrs: &[(u32, u32)], ext: &[u32]| {
        let mut c = Cfg::new(ws);
        c.arrays = arrs.to_vec();
        c.ext_by = ext.to_vec();
        c.divrem = true;
        c
    };
    let small_inner = |ws: &[u32], arrs: &[(u32, u32)]| {
        let mut c = mk(ws, arrs, &[1]);
        c.lits = Lits::Reduced;
        c
    };
    let mut out = vec![];
    for w in [2u32, 3, 4, 8, 32, 33, 64, 65] {
        out.push(Stage::new(&format!("T1[1,{w}]"), mk(&[1, w], &[(1, 1), (1, w.min(2)), (w.min(2), 1)], &[1, 2, 31, 32]), 1));
    }
    out.push(Stage::new("T2[1,2]+arr", mk(&[1, 2], &[(1, 1), (1, 2), (2, 1)], &[1, 2]), 2).with_inner(small_inner(&[1, 2], &[(1, 1), (2, 1)])));
    let mut optional = vec![];
    for w in [4u32, 33, 3, 65, 8, 32, 64] {
        optional.push(Stage::new(&format!("T2[1,{w}]"), mk(&[1, w], &[], &[1]), 2).with_inner(small_inner(&[1, w], &[])));
    }
    optional.push(Stage::new("T2[1,2]+arr12", mk(&[1, 2], &[(1, 2), (2, 2)], &[1]), 2).with_inner(small_inner(&[1, 2], &[(1, 2)])));
    if tier.is_thorough() {
        out.extend(optional);
        out.push(Stage::new("T3[1,2]", mk(&[1, 2], &[(1, 1)], &[1]), 3).with_inner(small_inner(&[1, 2], &[(1, 1)])));
    } else {
        out.extend(rotate(&optional, seed));
    }
    out
}

pub fn run(opts: &Opts, rep: &Report) {
    let tier = match opts.mode {
        Mode::Run(t) => t,
        _ => unreachable!(),
    };
    let budget = Budget::new(opts.budget_s);
    names_sweep(rep);
    commands_sweep(rep);
    run_stages(&stages(tier, opts.seed), rep, &budget, &|_| true, &|t, order| check_term(t, order, rep));
}

/// every command of the shared command alphabet (crate::c14::command_list): the written text must be accepted by
/// the strict front end in a state in which the command is legal, and push / pop must move exactly n levels
fn commands_sweep(rep: &Report) {
    let mut ctx = Context::default();
    let (cmds, _) = crate::c14::command_list(&mut ctx);
    const DECL: &str = "(declare-const a Bool)(declare-const b Bool)(declare-const x (_ BitVec 4))(declare-const m (Array (_ BitVec 2) (_ BitVec 4)))";
    for (k, (label, cmd)) in cmds.iter().enumerate() {
        // `:opt` is no option of the reference front end (an unknown option is answered `unsupported`, which says
        // nothing about the text): the quoted values are checked on set-info, which accepts any attribute
        if label == "set-option-quoted" {
            continue;
        }
        rep.add("evaluations", 1);
        rep.add("commands", 1);
        let fail = |class: &str, what: String| {
            rep.violation(Violation { sig: format!("C05|command-{class}|{label}"), what, case: json!({"kind": "command", "index": k}), order: (1 << 52) + k as u64 });
        };
        let text = match catch(|| cmd_text(&ctx, cmd)) {
            Ok(t) => t,
            Err(p) => {
                fail(&format!("panic|{}", p.file()), format!("serialize_cmd panicked on {cmd:?}: {} ({})", p.msg, p.short_loc()));
                continue;
            }
        };
        let prologue = match cmd {
            SmtCommand::SetLogic(_) | SmtCommand::SetOption(..) | SmtCommand::SetInfo(..) | SmtCommand::Exit => String::new(),
            SmtCommand::Pop(n) => format!("{DECL}(push {n})"),
            SmtCommand::GetValue(_) => format!("{DECL}(check-sat)"),
            SmtCommand::GetUnsatAssumptions => format!("(set-option :produce-unsat-assumptions true){DECL}(assert (not a))(check-sat-assuming (a))"),
            _ => DECL.to_string(),
        };
        let mut script = Script::new(Caps::all());
        match script.exec_text(&prologue) {
            Ok(rs) if rs.iter().all(|r| r.is_ok()) => {}
            other => {
                eprintln!("MACHINERY: C05 commands: prologue `{prologue}` not accepted: {other:?}");
                std::process::exit(2);
            }
        }
        let accepted = match script.exec_text(&text) {
            Ok(rs) if rs.len() == 1 => match &rs[0] {
                Ok(_) => Ok(()),
                Err(e) => Err(e.clone()),
            },
            Ok(rs) => Err(format!("{} commands instead of one", rs.len())),
            Err(e) => Err(e),
        };
        if let Err(e) = accepted {
            fail("rejected", format!("the text `{}` written for {cmd:?} is not accepted by a conforming front end: {e}", text.trim()));
            continue;
        }
        // the assertion-stack depth moved by exactly n
        let depth_probe = |script: &mut Script, undo: Option<u64>| -> bool {
            if let Some(n) = undo {
                match script.exec_text(&format!("(pop {n})")) {
                    Ok(rs) if rs.iter().all(|r| r.is_ok()) => {}
                    _ => return false,
                }
            }
            // now at the bottom: one more pop must be refused
            matches!(script.exec_text("(pop 1)"), Ok(rs) if rs.len() == 1 && rs[0].is_err())
        };
        match cmd {
            SmtCommand::Push(n) => {
                if !depth_probe(&mut script, Some(*n)) {
                    fail("depth", format!("`{}` written for {cmd:?} does not push exactly {n} levels", text.trim()));
                }
            }
            SmtCommand::Pop(n) => {
                if !depth_probe(&mut script, None) {
                    fail("depth", format!("`{}` written for {cmd:?} does not pop exactly {n} levels", text.trim()));
                }
            }
            SmtCommand::SetLogic(l) => {
                let want = match l {
                    Logic::All => "ALL",
                    Logic::QfAufbv => "QF_AUFBV",
                    Logic::QfAbv => "QF_ABV",
                    Logic::QfBv => "QF_BV",
                };
                if script.logic.as_deref() != Some(want) {
                    fail("logic", format!("`{}` written for {cmd:?} selects logic {:?}", text.trim(), script.logic));
                }
            }
            SmtCommand::SetOption(o, v) => {
                if script.options.get(o.as_str()).map(|x| x.as_str()) != Some(v.as_str()) {
                    fail("option", format!("`{}` written for {cmd:?} sets {:?}", text.trim(), script.options));
                }
            }
            _ => {}
        }
        rep.distinct_hashes(&[hash64(&format!("cmd|{text}"))]);
    }
}

pub fn replay(case: &Value, rep: &Report) {
    if case["kind"] == "command" {
        commands_sweep(rep);
        return;
    }
    let t = parse_t(case["term"].as_str().expect("term")).expect("parse term");
    if let Some(names) = case.get("rename").and_then(|x| x.as_object()) {
        let m: Vec<(String, String)> = names.iter().map(|(k, v)| (k.clone(), v.as_str().unwrap_or("").to_string())).collect();
        let t2 = rename(&t, &m);
        if let Some((c, w)) = check_once(&t2).0 {
            rep.violation(Violation { sig: format!("C05|{c}|names"), what: w, case: case.clone(), order: 0 });
        }
        return;
    }
    let _ = check_term(&t, 0, rep);
}

pub fn expected_sort(ty: Ty) -> Sort {
    let s = |w: u32| if w == 1 { Sort::Bool } else { Sort::Bv(w) };
    match ty {
        Ty::Bv(w) => s(w),
        Ty::Arr(i, d) => Sort::Arr(Box::new(s(i)), Box::new(s(d))),
    }
}

fn cmd_text(ctx: &Context, cmd: &SmtCommand) -> String {
    let mut buf = Vec::new();
    serialize_cmd(&mut buf, Some(ctx), cmd).expect("in-memory write");
    String::from_utf8_lossy(&buf).to_string()
}

pub struct Written {
    pub ctx: Context,
    pub e: ExprRef,
    pub sym_refs: Vec<ExprRef>,
    pub declares: Vec<String>,
    pub define: String,
    pub assert: Option<String>,
    pub check_assuming: Option<String>,
    pub get_value: String,
}

pub fn write_all(t: &T) -> Result<Written, PanicInfo> {
    let mut ctx = Context::default();
    let e = t.build(&mut ctx);
    let syms = t.symbols();
    let sym_refs: Vec<ExprRef> = syms.iter().map(|(n, ty)| T::Sym(n.clone(), *ty).build(&mut ctx)).collect();
    let res_name = ctx.string("res_c05".into());
    let res = ctx.symbol(res_name, e.get_type(&ctx));
    let is_bool = matches!(t.ty(), Ty::Bv(1));
    catch(|| {
        let declares: Vec<String> = sym_refs.iter().map(|s| cmd_text(&ctx, &SmtCommand::DeclareConst(*s))).collect();
        let define = cmd_text(&ctx, &SmtCommand::DefineConst(res, e));
        let assert = if is_bool { Some(cmd_text(&ctx, &SmtCommand::Assert(e))) } else { None };
        let check_assuming = if is_bool { Some(cmd_text(&ctx, &SmtCommand::CheckSatAssuming(vec![e, e]))) } else { None };
        let get_value = cmd_text(&ctx, &SmtCommand::GetValue(e));
        (declares, define, assert, check_assuming, get_value)
    })
    .map(|(declares, define, assert, check_assuming, get_value)| Written { ctx, e, sym_refs, declares, define, assert, check_assuming, get_value })
}

/// (failure, nontrivial)
pub fn check_once(t: &T) -> (Option<(String, String)>, bool) {
    let mut w = match write_all(t) {
        Ok(w) => w,
        Err(p) => return (Some((format!("panic|{}", p.file()), format!("serialize_cmd panicked on {t}: {} ({})", p.msg, p.short_loc()))), false),
    };
    let mut script = Script::new(Caps::all());
    let reject = |what: &str, text: &str, e: &str| {
        let class = if e.contains("applied to") || e.contains("sort") || e.contains("needs a") || e.contains("not Bool") || e.contains("definition of") {
            "ill-sorted"
        } else if e.contains("reserved") || e.contains("theory symbol") {
            "bad-identifier-reserved"
        } else if e.contains("illegal character") || e.contains("quoted symbol") || e.contains("not a symbol") || e.contains("starting with a digit") || e.contains("unterminated") {
            "bad-identifier-syntax"
        } else if e.contains("already declared") {
            "declared-twice"
        } else {
            "rejected"
        };
        Some((format!("{class}|{what}"), format!("{what} written for {t} is not accepted by a conforming front end: {e}; text: {}", text.trim())))
    };
    for d in w.declares.iter() {
        match read_all(d) {
            Ok(c) if c.len() == 1 => {
                if let Err(e) = script.exec(&c[0]) {
                    return (reject("declare-const", d, &e), false);
                }
            }
            Ok(_) => return (reject("declare-const", d, "not exactly one command"), false),
            Err(e) => return (reject("declare-const", d, &e), false),
        }
    }
    // declared sorts
    for ((n, ty), _) in t.symbols().iter().zip(w.sym_refs.iter()) {
        match script.lookup(n) {
            Some(s) if s.sort == expected_sort(*ty) => {}
            Some(s) => return (Some(("declared-sort".into(), format!("symbol {n} of type {ty:?} is declared with sort {}", s.sort.show()))), false),
            None => return (Some(("declared-name".into(), format!("symbol {n} is declared under a different name: {:?}", w.declares))), false),
        }
    }
    match read_all(&w.define) {
        Ok(c) if c.len() == 1 => {
            if let Err(e) = script.exec(&c[0]) {
                return (reject("define-fun", &w.define, &e), false);
            }
        }
        Ok(_) => return (reject("define-fun", &w.define, "not exactly one command"), false),
        Err(e) => return (reject("define-fun", &w.define, &e), false),
    }
    let res = script.lookup("res_c05").cloned();
    let Some(res) = res else {
        return (Some(("define-name".into(), "the defined symbol is missing".into())), false);
    };
    if res.sort != expected_sort(t.ty()) {
        return (Some(("defined-sort".into(), format!("{t} has type {:?} but is defined with sort {}", t.ty(), res.sort.show()))), false);
    }
    // the other commands must parse with the right sorts
    for (what, text) in [("assert", &w.assert), ("check-sat-assuming", &w.check_assuming), ("get-value", &Some(w.get_value.clone()))] {
        let Some(text) = text else { continue };
        let parsed = match read_all(text) {
            Ok(c) if c.len() == 1 => c,
            Ok(_) => return (reject(what, text, "not exactly one command"), false),
            Err(e) => return (reject(what, text, &e), false),
        };
        let l = parsed[0].list().unwrap_or(&[]).to_vec();
        let terms: Vec<smtref::lex::Sx> = match what {
            "assert" => l.get(1).cloned().into_iter().collect(),
            _ => l.get(1).and_then(|x| x.list()).map(|x| x.to_vec()).unwrap_or_default(),
        };
        if terms.is_empty() || l.first().and_then(|h| h.simple_sym()) != Some(what) {
            return (reject(what, text, "malformed command"), false);
        }
        for tm in terms.iter() {
            match script.parse_term(tm) {
                Ok(pt) => {
                    if what != "get-value" && pt.sort != Sort::Bool {
                        return (reject(what, text, &format!("term of sort {} where Bool is required", pt.sort.show())), false);
                    }
                    if pt.sort != expected_sort(t.ty()) {
                        return (reject(what, text, &format!("term has sort {} instead of {}", pt.sort.show(), expected_sort(t.ty()).show())), false);
                    }
                }
                Err(e) => return (reject(what, text, &e), false),
            }
        }
    }
    // meaning
    let syms = t.symbols();
    let (asg, _) = assignments(&syms, EXH_BITS, ASSIGN_CAP);
    let def = res.def.clone().expect("definition");
    for vals in asg.iter() {
        let env = make_env(&mut w.ctx, &syms, vals);
        let want = eval_ref(&w.ctx, w.e, &env);
        let got = script.eval_with(&def, &|n| syms.iter().position(|(m, _)| m == n).map(|i| canon(&vals[i])));
        match got {
            Some(g) if canon(&g) == canon(&want) => {}
            Some(g) => {
                return (
                    Some((
                        "meaning".into(),
                        format!("{t} is written as `{}` which denotes {} but the expression evaluates to {} with {}", w.define.trim(), g.show(), want.show(), show_assignment(&syms, vals)),
                    )),
                    false,
                );
            }
            None => return (Some(("meaning-undetermined".into(), format!("the text written for {t} mentions a symbol that is not one of its symbols"))), false),
        }
    }
    (None, !t.is_leaf())
}

/// arrays: compare extensionally through the canonical table form
pub fn canon(v: &Val) -> Val {
    match v {
        Val::A(a) if a.iw <= 8 => Val::A(pvcore::bv::Arr::from_table(a.iw, a.dw, &a.table())),
        o => o.clone(),
    }
}

pub fn check_term(t: &T, order: u64, rep: &Report) -> bool {
    let (f, nontrivial) = check_once(t);
    if f.is_some() {
        let min = shrink(t, &|s| check_once(s).0.is_some());
        let (class, what) = check_once(&min).0.unwrap_or_else(|| check_once(t).0.unwrap());
        let one_bit_args: Vec<String> = min.kids().iter().map(|k| if matches!(k.ty(), Ty::Bv(1)) { "b".to_string() } else { "w".to_string() }).collect();
        let sig = format!("C05|{}|{}|{}|args:{}", class, sig_shape(&min), wclass(operand_width(&min)), one_bit_args.join(""));
        rep.violation(Violation { sig, what, case: json!({"term": min.to_string(), "found_in": t.to_string()}), order });
        return false;
    }
    nontrivial
}

// ------------------------------------------------------------------ identifier classes

pub fn name_classes() -> Vec<(&'static str, Vec<&'static str>)> {
    vec![
        ("simple", vec!["a", "x_1", "foo.bar", "$auto$x", "a@3", "<=>", "~!%^&*_-+=<>.?/"]),
        ("needs-quoting", vec!["a b", "1abc", "a:b", "a#b", "x(y)", "a,b", "a;b", "a\"b", "a'b", "{x}", "[3]", "a\tb"]),
        ("non-ascii", vec!["é", "αβγ", "a✖b"]),
        ("literal-shaped", vec!["#b01", "#xa5", "#xA", "#b", "#x", "12", "0", "1.5", "#b2"]),
        ("empty", vec![""]),
        ("reserved-word", vec!["let", "_", "!", "as", "par", "exists", "forall", "assert", "exit", "push", "BINARY", "DECIMAL"]),
        ("theory-symbol", vec!["true", "false", "not", "and", "ite", "bvadd", "select", "concat", "distinct", "=", "=>"]),
        ("unquotable", vec!["a|b", "a\\b", "|", "\\"]),
    ]
}

/// names with one character at or above U+0100 whose LOW BYTE is an ASCII character (a byte-wise
/// classification would take U+0142 for `B`): every low byte 0x21..0x7e at two code-point pages
pub fn low_byte_names() -> Vec<String> {
    let mut v = vec![];
    for page in [0x100u32, 0x400] {
        for lo in 0x21u32..0x7f {
            if let Some(c) = char::from_u32(page + lo) {
                v.push(format!("s{c}g"));
            }
        }
    }
    v.extend(["sygna\u{142}", "s\u{131}f\u{131}rla", "\u{441}\u{431}\u{440}\u{43e}\u{441}", "ready_\u{151}"].iter().map(|s| s.to_string()));
    v
}

pub fn rename(t: &T, map: &[(String, String)]) -> T {
    let r = |x: &T| Box::new(rename(x, map));
    match t {
        T::Sym(n, ty) => T::Sym(map.iter().find(|(k, _)| k == n).map(|(_, v)| v.clone()).unwrap_or(n.clone()), *ty),
        T::Lit(b) => T::Lit(b.clone()),
        T::Not(a) => T::Not(r(a)),
        T::Neg(a) => T::Neg(r(a)),
        T::ZExt(by, a) => T::ZExt(*by, r(a)),
        T::SExt(by, a) => T::SExt(*by, r(a)),
        T::Slice(h, l, a) => T::Slice(*h, *l, r(a)),
        T::Bin(op, a, b) => T::Bin(*op, r(a), r(b)),
        T::Ite(a, b, c) => T::Ite(r(a), r(b), r(c)),
        T::Read(a, b) => T::Read(r(a), r(b)),
        T::AConst(iw, a) => T::AConst(*iw, r(a)),
        T::Store(a, b, c) => T::Store(r(a), r(b), r(c)),
    }
}

fn names_sweep(rep: &Report) {
    let base = [
        T::bin(Bin::And, T::sym("a1", Ty::Bv(1)), T::sym("b1", Ty::Bv(1))),
        T::bin(Bin::Add, T::sym("a4", Ty::Bv(4)), T::sym("b4", Ty::Bv(4))),
        T::Read(Box::new(T::sym("m1_2", Ty::Arr(1, 2))), Box::new(T::sym("a1", Ty::Bv(1)))),
    ];
    let mut order = 0u64;
    let lows = low_byte_names();
    let mut classes: Vec<(&'static str, Vec<&str>)> = name_classes();
    classes.push(("non-ascii-low-byte", lows.iter().map(|s| s.as_str()).collect()));
    for (class, names) in classes {
        for n in names {
            for b in base.iter() {
                order += 1;
                // the first symbol of the term gets the name under test
                let first = b.symbols()[0].0.clone();
                let map = vec![(first.clone(), n.to_string())];
                let t = rename(b, &map);
                rep.add("evaluations", 1);
                rep.add(&format!("names:{class}"), 1);
                if let (Some((c, w)), _) = check_once(&t) {
                    rep.violation(Violation {
                        sig: format!("C05|{c}|name-class:{class}"),
                        what: format!("symbol named {n:?}: {w}"),
                        case: json!({"term": b.to_string(), "rename": {first: n}}),
                        order: (1 << 50) + order,
                    });
                } else {
                    rep.distinct_hashes(&[hash64(&format!("name|{n}|{b}"))]);
                }
            }
        }
    }
}
