//! Drivers for the SMT-LIB writer / reader properties: C05, C14.
mod c05;
mod c14;

use pvcore::run::*;

fn main() {
    // the reference solver impersonates the real ones: it must be first on PATH (single-threaded here)
    let dir = std::env::var("PV_SOLVER_DIR").unwrap_or_else(|_| format!("{}/bin/solvers", verif_root()));
    let path = std::env::var("PATH").unwrap_or_default();
    unsafe {
        std::env::set_var("PATH", format!("{dir}:{path}"));
        std::env::remove_var("REFSMT_TRACE");
    }
    let _ = std::fs::create_dir_all(format!("{}/scratch", verif_root()));
    main_with(&[
        Entry { id: "C05", level: "exploration", meta: c05::meta, run: c05::run, replay: c05::replay },
        Entry { id: "C14", level: "exploration", meta: c14::meta, run: c14::run, replay: c14::replay },
    ])
}
