//! C20 — value summaries denote a total function and operations preserve it.
//!
//! Explicit-state search over operation histories on the real `ValueSummary<ExprRef>`
//! (patronus-dse, observed through the cfg(patronus_verif) hooks `verif_entries` / `verif_eval`).
//! A state is a history (summaries are not `Clone`: every state is rebuilt by replay in a fresh
//! `GuardCtx`); the invariant is evaluated in every state under every concrete valuation of
//! a, b, c, x, y (2^7) against a reference denotation computed independently of patronus.
//! A second part sweeps `GuardCtx::expr_to_guard` over every Boolean term with at most two
//! operators over the terminals.

use boolean_expression::BDDFunc;
use patronus::expr::{Context, ExprRef, SerializableIrNode};
use patronus_dse::{GuardCtx, ValueSummary};
use pvcore::bv::{Bv, Val};
use pvcore::evalref::*;
use pvcore::run::*;
use pvcore::terms::{self, Bin, T, Ty as TTy};
use rayon::prelude::*;
use rustc_hash::FxHashMap;
use serde_json::{Value, json};
use std::cell::RefCell;
use std::collections::BTreeMap;
use std::sync::Arc;
use std::sync::Mutex;
use std::sync::atomic::{AtomicBool, Ordering};

type VS = ValueSummary<ExprRef>;

const NVAL: usize = 128;
/// failing states per (class, operation) that are shrunk and reported with a signature
const SHRINK_PER_CLASS: usize = 24;

pub fn meta(rep: &mut Report) {
    rep.rule = "Part A (histories): `new` summaries a b c (Bool symbols), x==y, x>y (atoms over 2-bit x y), x, y, x+y (2-bit), and the literals true (Boolean) and 2 (2-bit); operations apply_bin_op(and|or on Boolean, add|sel on 2-bit [sel(p,q)=ite(p[0],p,q)], ugt 2-bit->Boolean), apply_ite(cond,tru,fals), coalesce, import_into_guard (Boolean only). Arguments of a step: the two most recent results or a `new` summary; a result may not leave that window unused; the last step must use every unused result; the interchangeable values {a,b,c}, {x==y,x>y}, {x,y,x+y} are used in first-use order (the subject treats values as opaque, so renamings have identical runs). Quick: every history of <= 3 operations plus every 4th operation that is coalesce/import_into_guard from a fresh GuardCtx, and every history of <= 3 operations from a non-initial GuardCtx (terminals c,b,a already registered in reverse order by expr_to_guard(xor(c, implies(b,a)))); thorough: the 3+unary space from both GuardCtx states, then every history of <= 4 operations plus every unary 5th from the fresh GuardCtx, sub-tree by sub-tree of the first operation under the budget (coverage.passes lists the completed sub-trees). A state = a history, rebuilt by replay in a fresh GuardCtx; a failing state is reported and not extended. In every state, for every valuation of a,b,c,x,y (2^7): exactly one entry guard is true (verif_eval), the selected value (eval_ref) equals the reference denotation, coalesce leaves no two entries with equal values. Part B (expr_to_guard): every Boolean term with <= 2 operators over {a,b,c,x==y,x>y,true,false} with not/and/or/xor/implies (decomposed) and eq/add/ite on Booleans (must become terminals), in a fresh and in a pre-populated GuardCtx: the guard evaluates as the term. states = distinct histories checked; transitions = operations applied to reach them (one per non-initial state); traces_validated_against_impl = histories replayed on the real object whose final state was compared with the reference (every prefix is a state of its own); distinct_nontrivial = distinct (guard truth table, value denotation) entry lists with >= 2 entries + distinct guard terms converted".into();
    rep.assumptions = vec![
        "guards are observed only through GuardCtx::verif_eval; it depends on the valuation only through the registered terminals, so it is called once per distinct terminal valuation induced by the 128 concrete valuations".into(),
        "the reference denotation is plain integer arithmetic on the 128 valuations; leaf denotations are cross-checked against eval_ref at start".into(),
        "special-value entries (GuardResult::IteResult, todo!() in apply_ite/import_into_guard) cannot arise from ExprRef values; conditions and imported summaries are always Boolean, so CannotConvert is not reachable".into(),
        "histories that differ only by a renaming inside {a,b,c}, {x==y,x>y} or {x,y,x+y} are represented by the one that uses them in first-use order".into(),
    ];
}

// ------------------------------------------------------------------------------------------
// alphabet

#[derive(Clone, Copy, PartialEq, Eq, Debug, Hash, PartialOrd, Ord)]
enum Ty {
    B,
    V,
}

/// name, type, symmetry class
const NEWS: [(&str, Ty, u8); 10] = [
    ("a", Ty::B, 0),
    ("b", Ty::B, 0),
    ("c", Ty::B, 0),
    ("x==y", Ty::B, 1),
    ("x>y", Ty::B, 1),
    ("x", Ty::V, 2),
    ("y", Ty::V, 2),
    ("x+y", Ty::V, 2),
    // literals: summaries whose value is a constant (fast paths keyed on literal true / false values)
    ("true", Ty::B, 3),
    ("2'd2", Ty::V, 4),
];

#[derive(Clone, Copy, PartialEq, Eq, Debug, Hash, PartialOrd, Ord)]
enum Arg {
    New(u8),
    Res(u8),
}

#[derive(Clone, Copy, PartialEq, Eq, Debug, Hash, PartialOrd, Ord)]
enum BinOp {
    And,
    Or,
    Add,
    Sel,
    Ugt,
}

const BINOPS: [BinOp; 5] = [BinOp::And, BinOp::Or, BinOp::Add, BinOp::Sel, BinOp::Ugt];

fn op_and(c: &mut Context, a: ExprRef, b: ExprRef) -> ExprRef {
    c.and(a, b)
}
fn op_or(c: &mut Context, a: ExprRef, b: ExprRef) -> ExprRef {
    c.or(a, b)
}
fn op_add(c: &mut Context, a: ExprRef, b: ExprRef) -> ExprRef {
    c.add(a, b)
}
/// ite-like, non-commutative select: if the low bit of p is set then p else q
fn op_sel(c: &mut Context, a: ExprRef, b: ExprRef) -> ExprRef {
    let bit = c.slice(a, 0, 0);
    c.ite(bit, a, b)
}
fn op_ugt(c: &mut Context, a: ExprRef, b: ExprRef) -> ExprRef {
    c.greater(a, b)
}

impl BinOp {
    fn name(&self) -> &'static str {
        match self {
            BinOp::And => "and",
            BinOp::Or => "or",
            BinOp::Add => "add",
            BinOp::Sel => "sel",
            BinOp::Ugt => "ugt",
        }
    }
    fn arg_ty(&self) -> Ty {
        match self {
            BinOp::And | BinOp::Or => Ty::B,
            _ => Ty::V,
        }
    }
    fn res_ty(&self) -> Ty {
        match self {
            BinOp::Add | BinOp::Sel => Ty::V,
            _ => Ty::B,
        }
    }
    fn func(&self) -> fn(&mut Context, ExprRef, ExprRef) -> ExprRef {
        match self {
            BinOp::And => op_and,
            BinOp::Or => op_or,
            BinOp::Add => op_add,
            BinOp::Sel => op_sel,
            BinOp::Ugt => op_ugt,
        }
    }
    /// reference semantics on small integers
    fn apply(&self, a: u8, b: u8) -> u8 {
        match self {
            BinOp::And => a & b,
            BinOp::Or => a | b,
            BinOp::Add => (a + b) & 3,
            BinOp::Sel => {
                if a & 1 == 1 {
                    a
                } else {
                    b
                }
            }
            BinOp::Ugt => (a > b) as u8,
        }
    }
}

#[derive(Clone, Copy, PartialEq, Eq, Debug, Hash, PartialOrd, Ord)]
enum Step {
    Bin(BinOp, Arg, Arg),
    Ite(Arg, Arg, Arg),
    Coalesce(Arg),
    Import(Arg),
}

impl Step {
    fn args(&self) -> Vec<Arg> {
        match *self {
            Step::Bin(_, a, b) => vec![a, b],
            Step::Ite(c, t, f) => vec![c, t, f],
            Step::Coalesce(a) | Step::Import(a) => vec![a],
        }
    }
    fn with_args(&self, v: &[Arg]) -> Step {
        match *self {
            Step::Bin(op, ..) => Step::Bin(op, v[0], v[1]),
            Step::Ite(..) => Step::Ite(v[0], v[1], v[2]),
            Step::Coalesce(_) => Step::Coalesce(v[0]),
            Step::Import(_) => Step::Import(v[0]),
        }
    }
    fn op_name(&self) -> &'static str {
        match self {
            Step::Bin(..) => "apply_bin_op",
            Step::Ite(..) => "apply_ite",
            Step::Coalesce(_) => "coalesce",
            Step::Import(_) => "import_into_guard",
        }
    }
    fn short(&self) -> String {
        match self {
            Step::Bin(op, ..) => op.name().to_string(),
            Step::Ite(..) => "ite".into(),
            Step::Coalesce(_) => "coalesce".into(),
            Step::Import(_) => "import".into(),
        }
    }
    fn is_unary(&self) -> bool {
        matches!(self, Step::Coalesce(_) | Step::Import(_))
    }
}

fn arg_text(a: Arg) -> String {
    match a {
        Arg::New(i) => NEWS[i as usize].0.to_string(),
        Arg::Res(k) => format!("R{}", k + 1),
    }
}

fn step_text(s: &Step) -> String {
    format!("{}({})", s.short(), s.args().iter().map(|a| arg_text(*a)).collect::<Vec<_>>().join(","))
}

fn parse_arg(s: &str) -> Result<Arg, String> {
    if let Some(i) = NEWS.iter().position(|n| n.0 == s) {
        return Ok(Arg::New(i as u8));
    }
    if let Some(k) = s.strip_prefix('R')
        && let Ok(k) = k.parse::<u8>()
        && k >= 1
    {
        return Ok(Arg::Res(k - 1));
    }
    Err(format!("bad argument `{s}`"))
}

fn parse_step(s: &str) -> Result<Step, String> {
    let (name, rest) = s.split_once('(').ok_or(format!("bad step `{s}`"))?;
    let rest = rest.strip_suffix(')').ok_or(format!("bad step `{s}`"))?;
    let args: Result<Vec<Arg>, String> = rest.split(',').map(|a| parse_arg(a.trim())).collect();
    let args = args?;
    let need = |n: usize| if args.len() == n { Ok(()) } else { Err(format!("`{s}`: expected {n} arguments")) };
    match name {
        "ite" => {
            need(3)?;
            Ok(Step::Ite(args[0], args[1], args[2]))
        }
        "coalesce" => {
            need(1)?;
            Ok(Step::Coalesce(args[0]))
        }
        "import" => {
            need(1)?;
            Ok(Step::Import(args[0]))
        }
        o => {
            let op = BINOPS.iter().find(|b| b.name() == o).ok_or(format!("unknown operation `{o}`"))?;
            need(2)?;
            Ok(Step::Bin(*op, args[0], args[1]))
        }
    }
}

#[derive(Clone, PartialEq, Eq, Debug, Hash)]
struct History {
    /// 0 = fresh GuardCtx, 1 = GuardCtx in which c, b, a are already registered (reverse order)
    pre: u8,
    steps: Vec<Step>,
}

impl History {
    fn text(&self) -> String {
        let p = if self.pre == 0 { "" } else { "pre:rev; " };
        format!("{p}{}", self.steps.iter().enumerate().map(|(k, s)| format!("R{}={}", k + 1, step_text(s))).collect::<Vec<_>>().join("; "))
    }
    fn to_json(&self) -> Value {
        json!({"kind": "history", "pre": if self.pre == 0 { "none" } else { "rev" }, "steps": self.steps.iter().map(step_text).collect::<Vec<_>>()})
    }
    fn from_json(v: &Value) -> Result<History, String> {
        let pre = match v["pre"].as_str() {
            Some("rev") => 1,
            _ => 0,
        };
        let mut steps = vec![];
        for s in v["steps"].as_array().ok_or("steps")? {
            steps.push(parse_step(s.as_str().ok_or("step text")?)?);
        }
        let h = History { pre, steps };
        if h.types().is_none() {
            return Err("history is not well-typed".into());
        }
        Ok(h)
    }
    fn arg_ty(tys: &[Ty], a: Arg) -> Option<Ty> {
        match a {
            Arg::New(i) => NEWS.get(i as usize).map(|n| n.1),
            Arg::Res(k) => tys.get(k as usize).copied(),
        }
    }
    /// result type of every step, None when the history is ill-typed (or refers forward)
    fn types(&self) -> Option<Vec<Ty>> {
        let mut tys: Vec<Ty> = vec![];
        for s in self.steps.iter() {
            let at: Option<Vec<Ty>> = s.args().iter().map(|a| Self::arg_ty(&tys, *a)).collect();
            let at = at?;
            let t = match s {
                Step::Bin(op, ..) => {
                    if at[0] != op.arg_ty() || at[1] != op.arg_ty() {
                        return None;
                    }
                    op.res_ty()
                }
                Step::Ite(..) => {
                    if at[0] != Ty::B || at[1] != at[2] {
                        return None;
                    }
                    at[1]
                }
                Step::Coalesce(_) => at[0],
                Step::Import(_) => {
                    if at[0] != Ty::B {
                        return None;
                    }
                    Ty::B
                }
            };
            tys.push(t);
        }
        Some(tys)
    }
}

// ------------------------------------------------------------------------------------------
// reference denotation (independent of patronus)

type Den = [u8; NVAL];

fn val_bits(s: usize) -> (u8, u8, u8, u8, u8) {
    ((s & 1) as u8, ((s >> 1) & 1) as u8, ((s >> 2) & 1) as u8, ((s >> 3) & 3) as u8, ((s >> 5) & 3) as u8)
}

fn show_valuation(s: usize) -> String {
    let (a, b, c, x, y) = val_bits(s);
    format!("a={a} b={b} c={c} x={x} y={y}")
}

fn den_new(i: usize) -> Den {
    let mut d = [0u8; NVAL];
    for (s, o) in d.iter_mut().enumerate() {
        let (a, b, c, x, y) = val_bits(s);
        *o = match i {
            0 => a,
            1 => b,
            2 => c,
            3 => (x == y) as u8,
            4 => (x > y) as u8,
            5 => x,
            6 => y,
            7 => (x + y) & 3,
            8 => 1,
            9 => 2,
            _ => unreachable!(),
        };
    }
    d
}

fn den_arg(dens: &[Den], a: Arg) -> Den {
    match a {
        Arg::New(i) => den_new(i as usize),
        Arg::Res(k) => dens[k as usize],
    }
}

fn den_step(dens: &[Den], s: &Step) -> Den {
    let mut d = [0u8; NVAL];
    match *s {
        Step::Bin(op, a, b) => {
            let (da, db) = (den_arg(dens, a), den_arg(dens, b));
            for i in 0..NVAL {
                d[i] = op.apply(da[i], db[i]);
            }
        }
        Step::Ite(c, t, f) => {
            let (dc, dt, df) = (den_arg(dens, c), den_arg(dens, t), den_arg(dens, f));
            for i in 0..NVAL {
                d[i] = if dc[i] != 0 { dt[i] } else { df[i] };
            }
        }
        Step::Coalesce(a) | Step::Import(a) => d = den_arg(dens, a),
    }
    d
}

// ------------------------------------------------------------------------------------------
// world: a context with the leaves, the 128 environments and a cache of reference evaluations

#[derive(Clone)]
struct Tv {
    w: u32,
    v: [u8; NVAL],
}

#[derive(Clone)]
struct World {
    ctx: Context,
    leaves: [ExprRef; 10],
    pre_term: ExprRef,
    envs: Arc<Vec<Env>>,
    tv: FxHashMap<ExprRef, Arc<Tv>>,
}

impl World {
    fn new() -> World {
        let mut ctx = Context::default();
        let a = ctx.bv_symbol("a", 1);
        let b = ctx.bv_symbol("b", 1);
        let c = ctx.bv_symbol("c", 1);
        let x = ctx.bv_symbol("x", 2);
        let y = ctx.bv_symbol("y", 2);
        let e = ctx.equal(x, y);
        let g = ctx.greater(x, y);
        let p = ctx.add(x, y);
        let tt = ctx.get_true();
        let two = ctx.bit_vec_val(2, 2);
        let imp = ctx.implies(b, a);
        let pre_term = ctx.xor(c, imp);
        let mut envs = vec![];
        for s in 0..NVAL {
            let (va, vb, vc, vx, vy) = val_bits(s);
            let mut env = Env::default();
            env.insert(a, Val::B(Bv::from_u64(1, va as u64)));
            env.insert(b, Val::B(Bv::from_u64(1, vb as u64)));
            env.insert(c, Val::B(Bv::from_u64(1, vc as u64)));
            env.insert(x, Val::B(Bv::from_u64(2, vx as u64)));
            env.insert(y, Val::B(Bv::from_u64(2, vy as u64)));
            envs.push(env);
        }
        let mut w = World { ctx, leaves: [a, b, c, e, g, x, y, p, tt, two], pre_term, envs: Arc::new(envs), tv: FxHashMap::default() };
        // machinery self-check: the hand-written leaf denotations agree with eval_ref on the leaves
        for i in 0..10 {
            let t = w.tv(w.leaves[i]);
            let want_w = if NEWS[i].1 == Ty::B { 1 } else { 2 };
            if t.v != den_new(i) || t.w != want_w {
                eprintln!("C20 machinery: leaf denotation of {} disagrees with eval_ref", NEWS[i].0);
                std::process::exit(2);
            }
        }
        w
    }

    /// reference value of `e` under each of the 128 valuations (cached per expression)
    fn tv(&mut self, e: ExprRef) -> Arc<Tv> {
        if let Some(t) = self.tv.get(&e) {
            return t.clone();
        }
        let mut v = [0u8; NVAL];
        let mut w = 0;
        for s in 0..NVAL {
            let r = eval_ref(&self.ctx, e, &self.envs[s]);
            let b = r.bv();
            w = b.w;
            v[s] = b.to_u64().map(|x| x.min(255) as u8).unwrap_or(255);
        }
        let t = Arc::new(Tv { w, v });
        self.tv.insert(e, t.clone());
        t
    }
}

/// truth table (bit s = value under valuation s) of each guard, observed through verif_eval
fn guard_tables(w: &mut World, gc: &GuardCtx, guards: &[BDDFunc]) -> Vec<u128> {
    if guards.is_empty() {
        return vec![];
    }
    // probe: which terminals does the guard context know?
    let probe: RefCell<Vec<ExprRef>> = RefCell::new(vec![]);
    let _ = gc.verif_eval(guards[0], &|t| {
        probe.borrow_mut().push(t);
        false
    });
    let mut labels = probe.into_inner();
    labels.sort();
    labels.dedup();
    assert!(labels.len() <= 64, "more than 64 guard terminals");
    let tvs: Vec<Arc<Tv>> = labels.iter().map(|l| w.tv(*l)).collect();
    let mut keys = [0u64; NVAL];
    for (s, k) in keys.iter_mut().enumerate() {
        for (i, t) in tvs.iter().enumerate() {
            if t.v[s] != 0 {
                *k |= 1 << i;
            }
        }
    }
    let mut distinct: Vec<u64> = keys.to_vec();
    distinct.sort();
    distinct.dedup();
    let mut out = vec![0u128; guards.len()];
    for key in distinct {
        let mut mask = 0u128;
        for (s, k) in keys.iter().enumerate() {
            if *k == key {
                mask |= 1u128 << s;
            }
        }
        for (gi, g) in guards.iter().enumerate() {
            let r = gc.verif_eval(*g, &|t| {
                let i = labels.iter().position(|l| *l == t).expect("terminal seen by the probe");
                (key >> i) & 1 == 1
            });
            if r {
                out[gi] |= mask;
            }
        }
    }
    out
}

// ------------------------------------------------------------------------------------------
// running a history on the real object

struct Run<'a> {
    w: &'a mut World,
    gc: GuardCtx,
    steps: &'a [Step],
    calls: u64,
    last_op: &'static str,
}

impl Run<'_> {
    fn arg(&mut self, a: Arg) -> VS {
        match a {
            Arg::New(i) => {
                self.calls += 1;
                self.last_op = "new";
                VS::new(&mut self.gc, self.w.leaves[i as usize])
            }
            Arg::Res(k) => self.build(k as usize),
        }
    }
    /// builds the result of step k, rebuilding its arguments (summaries are not Clone and
    /// operations consume them); rebuilding is transparent because the guard BDD and the
    /// expression context are hash-consed
    fn build(&mut self, k: usize) -> VS {
        match self.steps[k] {
            Step::Bin(op, a, b) => {
                let sa = self.arg(a);
                let sb = self.arg(b);
                self.calls += 1;
                self.last_op = "apply_bin_op";
                VS::apply_bin_op(&mut self.w.ctx, &mut self.gc, op.func(), sa, sb)
            }
            Step::Ite(c, t, f) => {
                let sc = self.arg(c);
                let st = self.arg(t);
                let sf = self.arg(f);
                self.calls += 1;
                self.last_op = "apply_ite";
                VS::apply_ite(&mut self.w.ctx, &mut self.gc, sc, st, sf)
            }
            Step::Coalesce(a) => {
                let mut s = self.arg(a);
                self.calls += 1;
                self.last_op = "coalesce";
                s.coalesce(&mut self.gc);
                s
            }
            Step::Import(a) => {
                let mut s = self.arg(a);
                self.calls += 1;
                self.last_op = "import_into_guard";
                s.import_into_guard(&mut self.w.ctx, &mut self.gc);
                s
            }
        }
    }
}

#[derive(Clone, Debug)]
struct Fail {
    /// coarse class: overlap | gap | denotation | coalesce-dup | empty | len | panic|<file>
    class: String,
    /// the subject operation after which the state is bad
    op: &'static str,
    step: usize,
    what: String,
}

struct StateInfo {
    entries: usize,
    key: u64,
    calls: u64,
}

fn show_entries(w: &World, entries: &[(BDDFunc, ExprRef)], tables: &[u128]) -> String {
    entries
        .iter()
        .enumerate()
        .map(|(i, (_, v))| format!("#{i} [guard true on {} of 128 valuations, tt={:032x}] -> {}", tables[i].count_ones(), tables[i], v.serialize_to_str(&w.ctx)))
        .collect::<Vec<_>>()
        .join("; ")
}

/// the invariant of one state
fn oracle(w: &mut World, gc: &GuardCtx, s: &VS, den: &Den, ty: Ty, step: &Step, k: usize, h: &History) -> Result<(usize, u64), Fail> {
    let entries = s.verif_entries();
    let op = step.op_name();
    if entries.is_empty() {
        return Err(Fail { class: "empty".into(), op, step: k, what: format!("after [{}] the summary R{} has no entries", h.text(), k + 1) });
    }
    if s.len() != entries.len() {
        return Err(Fail { class: "len".into(), op, step: k, what: format!("after [{}] len() of R{} is {} but the summary has {} entries", h.text(), k + 1, s.len(), entries.len()) });
    }
    let guards: Vec<BDDFunc> = entries.iter().map(|e| e.0).collect();
    let tables = guard_tables(w, gc, &guards);
    let vals: Vec<Arc<Tv>> = entries.iter().map(|e| w.tv(e.1)).collect();
    let want_w = if ty == Ty::B { 1 } else { 2 };
    for sg in 0..NVAL {
        let sel: Vec<usize> = (0..entries.len()).filter(|i| (tables[*i] >> sg) & 1 == 1).collect();
        if sel.len() != 1 {
            let class = if sel.is_empty() { "gap" } else { "overlap" };
            return Err(Fail {
                class: class.into(),
                op,
                step: k,
                what: format!(
                    "after [{}] the summary R{} has {} entry guards true under {} (expected exactly 1{}); entries: {}",
                    h.text(),
                    k + 1,
                    sel.len(),
                    show_valuation(sg),
                    if sel.is_empty() { String::new() } else { format!(", true: {}", sel.iter().map(|i| format!("#{i}")).collect::<Vec<_>>().join(" ")) },
                    show_entries(w, &entries, &tables)
                ),
            });
        }
        let i = sel[0];
        if vals[i].v[sg] != den[sg] || vals[i].w != want_w {
            return Err(Fail {
                class: "denotation".into(),
                op,
                step: k,
                what: format!(
                    "after [{}] the summary R{} selects entry #{i} = {} under {}, which evaluates to {}'d{} but the operation applied to the arguments' values gives {}'d{}; entries: {}",
                    h.text(),
                    k + 1,
                    entries[i].1.serialize_to_str(&w.ctx),
                    show_valuation(sg),
                    vals[i].w,
                    vals[i].v[sg],
                    want_w,
                    den[sg],
                    show_entries(w, &entries, &tables)
                ),
            });
        }
    }
    if matches!(step, Step::Coalesce(_)) {
        for i in 0..entries.len() {
            for j in (i + 1)..entries.len() {
                if entries[i].1 == entries[j].1 {
                    return Err(Fail {
                        class: "coalesce-dup".into(),
                        op,
                        step: k,
                        what: format!("after [{}] coalesce left entries #{i} and #{j} with the same value {}; entries: {}", h.text(), entries[i].1.serialize_to_str(&w.ctx), show_entries(w, &entries, &tables)),
                    });
                }
            }
        }
    }
    // denotation key: ordered list of (guard truth table, value denotation)
    let mut key: u64 = 1469598103934665603;
    let mut mix = |b: u8| key = (key ^ b as u64).wrapping_mul(1099511628211);
    for (i, t) in tables.iter().enumerate() {
        for b in t.to_le_bytes() {
            mix(b);
        }
        for b in vals[i].v.iter() {
            mix(*b);
        }
        mix(0xff);
    }
    Ok((entries.len(), key))
}

/// Replays the history on the real object in a fresh GuardCtx; checks the invariant after the
/// last step (after every step when `check_all`).
fn check_history(w: &mut World, h: &History, check_all: bool) -> Result<StateInfo, Fail> {
    let tys = h.types().expect("well-typed history");
    let n = h.steps.len();
    let mut dens: Vec<Den> = vec![];
    for s in h.steps.iter() {
        let d = den_step(&dens, s);
        dens.push(d);
    }
    let pre_term = w.pre_term;
    let mut run = Run { w, gc: GuardCtx::default(), steps: &h.steps, calls: 0, last_op: "" };
    if h.pre == 1 {
        let r = catch(|| {
            let ctx = &run.w.ctx;
            run.gc.expr_to_guard(ctx, pre_term)
        });
        if let Err(p) = r {
            return Err(Fail { class: format!("panic|{}", p.file()), op: "expr_to_guard", step: 0, what: format!("expr_to_guard panicked while pre-populating the guard context: {} ({})", p.msg, p.short_loc()) });
        }
    }
    let mut info = StateInfo { entries: 0, key: 0, calls: 0 };
    for k in 0..n {
        let res = catch(|| run.build(k));
        let s = match res {
            Ok(s) => s,
            Err(p) => {
                return Err(Fail {
                    class: format!("panic|{}", p.file()),
                    op: run.last_op,
                    step: k,
                    what: format!("[{}]: {} panicked while computing R{}: {} ({})", h.text(), run.last_op, k + 1, p.msg, p.short_loc()),
                });
            }
        };
        if check_all || k + 1 == n {
            let (entries, key) = oracle(run.w, &run.gc, &s, &dens[k], tys[k], &h.steps[k], k, h)?;
            info.entries = entries;
            info.key = key;
        }
    }
    info.calls = run.calls;
    Ok(info)
}

// ------------------------------------------------------------------------------------------
// successor operations

#[derive(Clone, Copy)]
struct Alpha {
    /// steps 0..full may be any operation
    full: usize,
    /// steps full..limit are unary only
    limit: usize,
}

/// symmetry bookkeeping: how many members of each class have been used so far
fn class_used(steps: &[Step]) -> [u8; 5] {
    let mut u = [0u8; 5];
    for s in steps {
        for a in s.args() {
            note_use(&mut u, a);
        }
    }
    u
}

fn note_use(u: &mut [u8; 5], a: Arg) {
    if let Arg::New(i) = a {
        let cls = NEWS[i as usize].2 as usize;
        let first = NEWS.iter().position(|n| n.2 as usize == cls).unwrap();
        let rank = i as usize - first + 1;
        if rank as u8 > u[cls] {
            u[cls] = rank as u8;
        }
    }
}

/// facts about a prefix that the rules for the next step need
struct Prefix {
    n: usize,
    tys: Vec<Ty>,
    used: Vec<bool>,
    u0: [u8; 5],
}

fn prefix_of(steps: &[Step]) -> Prefix {
    let h = History { pre: 0, steps: steps.to_vec() };
    let tys = h.types().expect("typed");
    let mut used = vec![false; steps.len()];
    for s in steps.iter() {
        for a in s.args() {
            if let Arg::Res(k) = a {
                used[k as usize] = true;
            }
        }
    }
    Prefix { n: steps.len(), tys, used, u0: class_used(steps) }
}

/// THE definition of the explored space: may `step` follow the prefix under alphabet `al`?
/// (typing is checked by the caller through History::types)
fn allowed(p: &Prefix, step: &Step, al: &Alpha) -> bool {
    let n = p.n;
    if n >= al.limit {
        return false;
    }
    if n >= al.full && !step.is_unary() {
        return false;
    }
    let args = step.args();
    // window: only the two most recent results
    for a in args.iter() {
        if let Arg::Res(k) = a
            && (*k as usize) + 2 < n
        {
            return false;
        }
    }
    // a result may not leave the window unused
    if n >= 2 && !p.used[n - 2] && !args.contains(&Arg::Res((n - 2) as u8)) {
        return false;
    }
    // the last step uses every unused result
    if n + 1 == al.limit {
        for k in n.saturating_sub(2)..n {
            if !p.used[k] && !args.contains(&Arg::Res(k as u8)) {
                return false;
            }
        }
    }
    // interchangeable values in first-use order
    let mut u = p.u0;
    for a in args.iter() {
        if let Arg::New(i) = a {
            let cls = NEWS[*i as usize].2 as usize;
            let first = NEWS.iter().position(|m| m.2 as usize == cls).unwrap();
            if (*i as usize - first) as u8 > u[cls] {
                return false;
            }
            note_use(&mut u, *a);
        }
    }
    true
}

fn successors(h: &History, al: &Alpha) -> Vec<Step> {
    let p = prefix_of(&h.steps);
    let n = p.n;
    if n >= al.limit {
        return vec![];
    }
    let cands = |ty: Ty| -> Vec<Arg> {
        let mut v: Vec<Arg> = (n.saturating_sub(2)..n).rev().filter(|k| p.tys[*k] == ty).map(|k| Arg::Res(k as u8)).collect();
        v.extend(NEWS.iter().enumerate().filter(|(_, m)| m.1 == ty).map(|(i, _)| Arg::New(i as u8)));
        v
    };
    let (cb, cv) = (cands(Ty::B), cands(Ty::V));
    let of = |ty: Ty| if ty == Ty::B { &cb } else { &cv };
    let mut all = vec![];
    for op in BINOPS {
        for a in of(op.arg_ty()) {
            for b in of(op.arg_ty()) {
                all.push(Step::Bin(op, *a, *b));
            }
        }
    }
    for c in cb.iter() {
        for ty in [Ty::B, Ty::V] {
            for t in of(ty) {
                for f in of(ty) {
                    all.push(Step::Ite(*c, *t, *f));
                }
            }
        }
    }
    for ty in [Ty::B, Ty::V] {
        for a in of(ty) {
            all.push(Step::Coalesce(*a));
            if ty == Ty::B {
                all.push(Step::Import(*a));
            }
        }
    }
    all.into_iter().filter(|s| allowed(&p, s, al)).collect()
}

/// is the history inside the space of alphabet `al` (was it visited by a pass with that alphabet)?
fn in_space(h: &History, al: &Alpha) -> bool {
    (0..h.steps.len()).all(|k| allowed(&prefix_of(&h.steps[..k]), &h.steps[k], al))
}

// ------------------------------------------------------------------------------------------
// search

#[derive(Default)]
struct Local {
    counts: BTreeMap<String, u64>,
    hashes: Vec<u64>,
    /// per "class|op": the SHRINK_PER_CLASS smallest failing states in enumeration order
    failing: Failing,
    max_entries: u64,
}

type Failing = BTreeMap<String, Vec<(u64, String, History)>>;

fn failing_insert(f: &mut Failing, key: String, item: (u64, String, History)) {
    let v = f.entry(key).or_default();
    if v.len() >= SHRINK_PER_CLASS && (item.0, &item.1) >= (v[v.len() - 1].0, &v[v.len() - 1].1) {
        return;
    }
    let pos = v.partition_point(|x| (x.0, &x.1) < (item.0, &item.1));
    v.insert(pos, item);
    v.truncate(SHRINK_PER_CLASS);
}

fn failing_merge(into: &mut Failing, from: Failing) {
    for (k, v) in from {
        for item in v {
            failing_insert(into, k.clone(), item);
        }
    }
}

impl Local {
    fn add(&mut self, k: &str, n: u64) {
        *self.counts.entry(k.to_string()).or_default() += n;
    }
}

/// enumerator-side facts about a history (vacuity evidence)
fn enumerator_facts(h: &History, l: &mut Local) {
    let last = h.steps.last().unwrap();
    l.add(&format!("op:{}", last.short()), 1);
    if let Step::Coalesce(Arg::Res(k)) = last {
        // value leaves reachable from the coalesced result, and the number of ites on the way
        fn leaves(h: &History, a: Arg, out: &mut Vec<Arg>, ites: &mut usize) {
            match a {
                Arg::New(_) => out.push(a),
                Arg::Res(k) => match h.steps[k as usize] {
                    Step::Ite(_, t, f) => {
                        *ites += 1;
                        leaves(h, t, out, ites);
                        leaves(h, f, out, ites);
                    }
                    Step::Coalesce(x) | Step::Import(x) => leaves(h, x, out, ites),
                    Step::Bin(..) => out.push(a),
                },
            }
        }
        let (mut lv, mut ites) = (vec![], 0);
        leaves(h, Arg::Res(*k), &mut lv, &mut ites);
        let n = lv.len();
        lv.sort();
        lv.dedup();
        if ites >= 2 && lv.len() < n {
            l.add("enum:coalesce_of_nested_ite_with_repeated_value", 1);
        }
        if ites >= 2 && n >= 3 {
            l.add("enum:coalesce_of_summary_with_3plus_value_leaves", 1);
        }
    }
}

struct Search<'a> {
    al: Alpha,
    budget: &'a Budget,
    stop: &'a AtomicBool,
    /// alphabets of earlier passes from the same pre-state: their states are revisited, not recounted
    earlier: Vec<Alpha>,
}

impl Search<'_> {
    fn fresh(&self, h: &History) -> bool {
        !self.earlier.iter().any(|al| in_space(h, al))
    }
}

fn order_of(path: &[usize], pre: u8) -> u64 {
    // shorter histories first, then the fresh pre-state, then enumeration order (11 bits per step)
    let mut o = ((path.len() as u64).min(7) << 59) | ((pre as u64) << 58);
    for (k, p) in path.iter().enumerate().take(5) {
        o |= ((*p as u64).min(2047)) << (44 - 11 * k);
    }
    o
}

/// visit one state; returns its successors if it is fine
fn visit(w: &mut World, h: &History, path: &[usize], s: &Search, l: &mut Local) -> Option<Vec<Step>> {
    let fresh = s.fresh(h);
    match check_history(w, h, false) {
        Ok(info) => {
            if fresh {
                l.add("states", 1);
                l.add("transitions", 1);
                l.add("traces_validated_against_impl", 1);
                l.add("evaluations", info.calls);
                l.add(&format!("states_depth:{}", h.steps.len()), 1);
                l.add(&format!("entries:{}", info.entries.min(9)), 1);
                l.max_entries = l.max_entries.max(info.entries as u64);
                if info.entries >= 2 {
                    l.hashes.push(info.key);
                }
                enumerator_facts(h, l);
            }
            Some(successors(h, &s.al))
        }
        Err(f) => {
            if fresh {
                l.add("states", 1);
                l.add("transitions", 1);
                l.add("traces_validated_against_impl", 1);
                l.add(&format!("states_depth:{}", h.steps.len()), 1);
                l.add(&format!("failing_states:{}|{}", f.class, f.op), 1);
                enumerator_facts(h, l);
                failing_insert(&mut l.failing, format!("{}|{}", f.class, f.op), (order_of(path, h.pre), h.text(), h.clone()));
            }
            None
        }
    }
}

fn dfs(w: &mut World, h: &mut History, path: &mut Vec<usize>, s: &Search, l: &mut Local) {
    if s.stop.load(Ordering::Relaxed) {
        return;
    }
    if s.budget.exceeded() {
        s.stop.store(true, Ordering::Relaxed);
        return;
    }
    let Some(succ) = visit(w, h, path, s, l) else { return };
    if succ.is_empty() {
        if s.fresh(h) {
            l.add("maximal_histories", 1);
        }
        return;
    }
    for (i, st) in succ.into_iter().enumerate() {
        h.steps.push(st);
        path.push(i);
        dfs(w, h, path, s, l);
        path.pop();
        h.steps.pop();
    }
}

/// one pass: all histories allowed by `al`, from the given pre-state
/// One pass: all histories allowed by `al` from the given pre-state. With `grouped`, the sub-trees
/// of the first operations are completed one after the other (so that a budget cap leaves whole
/// sub-families complete); returns (complete, first operations whose sub-tree is complete).
#[allow(clippy::too_many_arguments)]
fn pass(template: &World, pre: u8, al: Alpha, earlier: Vec<Alpha>, grouped: bool, budget: &Budget, rep: &Report, failing: &Mutex<Failing>) -> (bool, Vec<String>, usize) {
    let stop = AtomicBool::new(false);
    let s = Search { al, budget, stop: &stop, earlier };
    let root = History { pre, steps: vec![] };
    let firsts: Vec<(History, Vec<usize>)> = successors(&root, &al).into_iter().enumerate().map(|(i, st)| (History { pre, steps: vec![st] }, vec![i])).collect();
    let n_groups = if grouped { firsts.len() } else { 1 };
    let groups: Vec<Vec<(History, Vec<usize>)>> = if grouped { firsts.into_iter().map(|f| vec![f]).collect() } else { vec![firsts] };
    let merge = |l: Local| {
        rep.merge_counts(&l.counts);
        rep.distinct_hashes(&l.hashes);
        rep.max("max_entries", l.max_entries);
        failing_merge(&mut failing.lock().unwrap(), l.failing);
    };
    // breadth-first levels that produce the work items of the parallel depth-first search
    let levels = if al.limit < 3 {
        0
    } else if grouped {
        2
    } else {
        1
    };
    let mut completed = vec![];
    for g in groups {
        if stop.load(Ordering::Relaxed) || budget.exceeded() {
            stop.store(true, Ordering::Relaxed);
            break;
        }
        let name = step_text(&g[0].0.steps[0]);
        let mut frontier = g;
        for _ in 0..levels {
            let next: Vec<Vec<(History, Vec<usize>)>> = frontier
                .par_iter()
                .map(|(h, path)| {
                    let mut w = template.clone();
                    let mut l = Local::default();
                    let r = visit(&mut w, h, path, &s, &mut l);
                    let mut out = vec![];
                    if let Some(succ) = r {
                        if succ.is_empty() && s.fresh(h) {
                            l.add("maximal_histories", 1);
                        }
                        for (i, st) in succ.into_iter().enumerate() {
                            let mut h2 = h.clone();
                            h2.steps.push(st);
                            let mut p2 = path.clone();
                            p2.push(i);
                            out.push((h2, p2));
                        }
                    }
                    merge(l);
                    out
                })
                .collect();
            frontier = next.into_iter().flatten().collect();
        }
        frontier.par_iter().for_each(|(h, path)| {
            let mut w = template.clone();
            let mut l = Local::default();
            let mut h = h.clone();
            let mut path = path.clone();
            dfs(&mut w, &mut h, &mut path, &s, &mut l);
            merge(l);
        });
        if !stop.load(Ordering::Relaxed) {
            completed.push(name);
        }
    }
    (!stop.load(Ordering::Relaxed), completed, n_groups)
}

/// enumerator only: size of the space when no state is pruned (development aid, C20_COUNT_ONLY=1)
fn count_space(tier: Tier) {
    let alphas: Vec<Alpha> = if tier.is_thorough() { vec![Alpha { full: 3, limit: 4 }, Alpha { full: 4, limit: 5 }, Alpha { full: 5, limit: 5 }] } else { vec![Alpha { full: 3, limit: 4 }] };
    for al in alphas {
        fn rec(h: &mut History, al: &Alpha, by_depth: &mut [u64; 8]) {
            for st in successors(h, al) {
                h.steps.push(st);
                by_depth[h.steps.len()] += 1;
                rec(h, al, by_depth);
                h.steps.pop();
            }
        }
        let root = History { pre: 0, steps: vec![] };
        let firsts = successors(&root, &al);
        let parts: Vec<[u64; 8]> = firsts
            .par_iter()
            .flat_map(|st| {
                let h = History { pre: 0, steps: vec![*st] };
                successors(&h, &al).into_par_iter().map(move |s2| {
                    let mut h = History { pre: 0, steps: vec![*st, s2] };
                    let mut d = [0u64; 8];
                    d[2] += 1;
                    rec(&mut h, &al, &mut d);
                    d
                })
            })
            .collect();
        let mut tot = [0u64; 8];
        tot[1] = firsts.len() as u64;
        for p in parts {
            for i in 0..8 {
                tot[i] += p[i];
            }
        }
        println!("alphabet full={} limit={}: histories by length {:?} total {}", al.full, al.limit, &tot[1..=al.limit], tot.iter().sum::<u64>());
    }
}

// ------------------------------------------------------------------------------------------
// shrinking and reporting

fn fails_as(template: &World, h: &History, class: &str) -> Option<Fail> {
    h.types()?;
    if h.steps.is_empty() {
        return None;
    }
    let mut w = template.clone();
    match check_history(&mut w, h, true) {
        Err(f) if f.class == class => Some(f),
        _ => None,
    }
}

/// drop operations / replace results by `new` summaries while the history still fails in the same class
fn shrink_history(template: &World, h: &History, class: &str) -> History {
    let mut cur = h.clone();
    loop {
        let mut changed = false;
        if cur.pre != 0 {
            let c = History { pre: 0, steps: cur.steps.clone() };
            if fails_as(template, &c, class).is_some() {
                cur = c;
                changed = true;
            }
        }
        // drop trailing steps
        while cur.steps.len() > 1 {
            let c = History { pre: cur.pre, steps: cur.steps[..cur.steps.len() - 1].to_vec() };
            if fails_as(template, &c, class).is_some() {
                cur = c;
                changed = true;
            } else {
                break;
            }
        }
        // replace references to a result by a `new` summary, drop unreferenced steps
        let tys = cur.types().unwrap();
        'outer: for k in (0..cur.steps.len().saturating_sub(1)).rev() {
            // all references to R_k at once (keeps equal values equal) ...
            for (ni, n) in NEWS.iter().enumerate() {
                if n.1 != tys[k] || !cur.steps.iter().any(|s| s.args().contains(&Arg::Res(k as u8))) {
                    continue;
                }
                let mut c = cur.clone();
                for s in c.steps.iter_mut() {
                    let na: Vec<Arg> = s.args().iter().map(|a| if *a == Arg::Res(k as u8) { Arg::New(ni as u8) } else { *a }).collect();
                    *s = s.with_args(&na);
                }
                if fails_as(template, &c, class).is_some() {
                    cur = c;
                    changed = true;
                    break 'outer;
                }
            }
            // ... then one reference at a time
            for j in (k + 1)..cur.steps.len() {
                let args = cur.steps[j].args();
                for (ai, a) in args.iter().enumerate() {
                    if *a != Arg::Res(k as u8) {
                        continue;
                    }
                    for (ni, n) in NEWS.iter().enumerate() {
                        if n.1 != tys[k] {
                            continue;
                        }
                        let mut na = args.clone();
                        na[ai] = Arg::New(ni as u8);
                        let mut c = cur.clone();
                        c.steps[j] = c.steps[j].with_args(&na);
                        if fails_as(template, &c, class).is_some() {
                            cur = c;
                            changed = true;
                            break 'outer;
                        }
                    }
                }
            }
            let referenced = cur.steps.iter().any(|s| s.args().contains(&Arg::Res(k as u8)));
            if !referenced {
                let mut c = History { pre: cur.pre, steps: vec![] };
                for (j, s) in cur.steps.iter().enumerate() {
                    if j == k {
                        continue;
                    }
                    let na: Vec<Arg> = s
                        .args()
                        .iter()
                        .map(|a| match a {
                            Arg::Res(r) if (*r as usize) > k => Arg::Res(r - 1),
                            o => *o,
                        })
                        .collect();
                    c.steps.push(s.with_args(&na));
                }
                if fails_as(template, &c, class).is_some() {
                    cur = c;
                    changed = true;
                    break 'outer;
                }
            }
        }
        // replace a step that merely forwards (unary) by its argument where possible is covered by
        // the reference replacement above; finally prefer earlier members of each symmetry class
        if !changed {
            for j in 0..cur.steps.len() {
                let args = cur.steps[j].args();
                for (ai, a) in args.iter().enumerate() {
                    if let Arg::New(i) = a {
                        let cls = NEWS[*i as usize].2;
                        for (ni, n) in NEWS.iter().enumerate() {
                            if ni >= *i as usize || n.2 != cls {
                                continue;
                            }
                            let mut na = args.clone();
                            na[ai] = Arg::New(ni as u8);
                            let mut c = cur.clone();
                            c.steps[j] = c.steps[j].with_args(&na);
                            if c != cur && fails_as(template, &c, class).is_some() {
                                cur = c;
                                changed = true;
                                break;
                            }
                        }
                    }
                    if changed {
                        break;
                    }
                }
                if changed {
                    break;
                }
            }
        }
        if !changed {
            break;
        }
    }
    cur
}

/// the panic message inside a `what` text ("... panicked ...: <message> (<location>)"), as a slug
fn slug(what: &str) -> String {
    let msg = what.rsplit_once(" (").map(|x| x.0).unwrap_or(what);
    let msg = msg.rsplit_once(": ").map(|x| x.1).unwrap_or(msg);
    let s: String = msg.chars().map(|c| if c.is_ascii_alphanumeric() { c.to_ascii_lowercase() } else { '-' }).collect();
    let mut out = String::new();
    for c in s.chars() {
        if c == '-' && out.ends_with('-') {
            continue;
        }
        out.push(c);
    }
    out.trim_matches('-').chars().take(48).collect()
}

fn report_history(template: &World, rep: &Report, h: &History, class: &str, order: u64) {
    let min = shrink_history(template, h, class);
    let Some(f) = fails_as(template, &min, class).or_else(|| fails_as(template, h, class)) else {
        // not reproducible in isolation: report the original, unshrunk
        rep.violation(Violation {
            sig: format!("C20|{class}|unreproducible|{}", h.steps.iter().map(|s| s.short()).collect::<Vec<_>>().join(">")),
            what: format!("[{}] failed during the search but not when replayed alone", h.text()),
            case: h.to_json(),
            order,
        });
        return;
    };
    let st = &min.steps[f.step.min(min.steps.len() - 1)];
    let kind = |s: &Step| if matches!(s, Step::Bin(..)) { "bin".to_string() } else { s.short() };
    let step_sig = kind(st);
    let shape = format!("{}{}", if min.pre == 1 { "rev:" } else { "" }, min.steps.iter().map(kind).collect::<Vec<_>>().join(">"));
    let sig = if f.class.starts_with("panic|") {
        // one defect, one signature per operation: the panic message identifies the defect
        format!("C20|{}|{}|{}", f.class, f.op, slug(&f.what))
    } else {
        format!("C20|{}|{}|{}|{}", f.class, f.op, step_sig, shape)
    };
    let mut case = min.to_json();
    case["found_in"] = json!(h.text());
    rep.violation(Violation { sig, what: f.what, case, order });
}

// ------------------------------------------------------------------------------------------
// part B: expr_to_guard over all Boolean terms with at most two operators

const G_BIN: [Bin; 6] = [Bin::And, Bin::Or, Bin::Xor, Bin::Implies, Bin::Eq, Bin::Add];

fn g_leaves() -> Vec<T> {
    let x = T::sym("x", TTy::Bv(2));
    let y = T::sym("y", TTy::Bv(2));
    vec![
        T::sym("a", TTy::Bv(1)),
        T::sym("b", TTy::Bv(1)),
        T::sym("c", TTy::Bv(1)),
        T::bin(Bin::Eq, x.clone(), y.clone()),
        T::bin(Bin::Ugt, x, y),
        T::lit(1, 1),
        T::lit(1, 0),
    ]
}

fn g_is_leaf(t: &T) -> bool {
    g_leaves().contains(t)
}

fn g_apps(args: &[Vec<T>; 3]) -> Vec<T> {
    // args[i] = candidates for position i (positions beyond the arity are ignored)
    let mut out = vec![];
    for a in args[0].iter() {
        out.push(T::not(a.clone()));
    }
    for op in G_BIN {
        for a in args[0].iter() {
            for b in args[1].iter() {
                out.push(T::bin(op, a.clone(), b.clone()));
            }
        }
    }
    for a in args[0].iter() {
        for b in args[1].iter() {
            for c in args[2].iter() {
                out.push(T::ite(a.clone(), b.clone(), c.clone()));
            }
        }
    }
    out
}

fn g_t1() -> Vec<T> {
    let l = g_leaves();
    g_apps(&[l.clone(), l.clone(), l])
}

/// all terms with exactly two operators whose inner operator term is `inner`
fn g_wrap(inner: &T) -> Vec<T> {
    let l = g_leaves();
    let i = vec![inner.clone()];
    let mut out = vec![T::not(inner.clone())];
    for op in G_BIN {
        for b in l.iter() {
            out.push(T::bin(op, inner.clone(), b.clone()));
            out.push(T::bin(op, b.clone(), inner.clone()));
        }
    }
    for (p0, p1, p2) in [(&i, &l, &l), (&l, &i, &l), (&l, &l, &i)] {
        for a in p0.iter() {
            for b in p1.iter() {
                for c in p2.iter() {
                    out.push(T::ite(a.clone(), b.clone(), c.clone()));
                }
            }
        }
    }
    out
}

fn g_operators(t: &T) -> usize {
    if g_is_leaf(t) { 0 } else { 1 + t.kids().iter().map(|k| g_operators(k)).sum::<usize>() }
}

/// None = the guard evaluates as the term
fn guard_once(template: &World, t: &T, pre: u8) -> Option<(String, String)> {
    let mut w = template.clone();
    let e = t.build(&mut w.ctx);
    let mut gc = GuardCtx::default();
    let pre_term = w.pre_term;
    if pre == 1
        && let Err(p) = catch(|| gc.expr_to_guard(&w.ctx, pre_term))
    {
        return Some((format!("panic|{}", p.file()), format!("expr_to_guard panicked while pre-populating the guard context: {} ({})", p.msg, p.short_loc())));
    }
    let g = match catch(|| gc.expr_to_guard(&w.ctx, e)) {
        Ok(g) => g,
        Err(p) => {
            return Some((
                format!("panic|{}", p.file()),
                format!("expr_to_guard({}) [term {t}{}] panicked: {} ({})", e.serialize_to_str(&w.ctx), if pre == 1 { ", pre-populated guard context" } else { "" }, p.msg, p.short_loc()),
            ));
        }
    };
    let table = guard_tables(&mut w, &gc, &[g])[0];
    let want = w.tv(e);
    for s in 0..NVAL {
        let got = (table >> s) & 1 == 1;
        if got != (want.v[s] != 0) {
            return Some((
                "guard-value".into(),
                format!(
                    "expr_to_guard({}) [term {t}{}] evaluates to {} under {} but the expression evaluates to {}",
                    e.serialize_to_str(&w.ctx),
                    if pre == 1 { ", pre-populated guard context" } else { "" },
                    got as u8,
                    show_valuation(s),
                    want.v[s]
                ),
            ));
        }
    }
    None
}

/// smaller terms of the same space: Boolean operator sub-terms, and the term with one operator
/// child replaced by a leaf
fn g_shrink(t: &T, fails: &dyn Fn(&T) -> bool) -> T {
    let mut cur = t.clone();
    'outer: loop {
        let mut cands: Vec<T> = vec![];
        for k in cur.kids() {
            if !g_is_leaf(k) && k.ty() == TTy::Bv(1) {
                cands.push(k.clone());
            }
        }
        if !g_is_leaf(&cur) {
            for (i, k) in cur.kids().iter().enumerate() {
                if g_is_leaf(k) || k.ty() != TTy::Bv(1) {
                    continue;
                }
                for l in g_leaves() {
                    let mut kids: Vec<T> = cur.kids().into_iter().cloned().collect();
                    kids[i] = l;
                    cands.push(match &cur {
                        T::Not(_) => T::not(kids[0].clone()),
                        T::Bin(op, ..) => T::bin(*op, kids[0].clone(), kids[1].clone()),
                        T::Ite(..) => T::ite(kids[0].clone(), kids[1].clone(), kids[2].clone()),
                        o => o.clone(),
                    });
                }
            }
        }
        for c in cands {
            if c != cur && fails(&c) {
                cur = c;
                continue 'outer;
            }
        }
        return cur;
    }
}

/// the operator of the innermost operator node that is not decomposed into the BDD but has children
fn opaque_kind(t: &T) -> String {
    fn rec(t: &T, out: &mut Vec<String>) {
        for k in t.kids() {
            rec(k, out);
        }
        let decomposed = matches!(t, T::Not(_) | T::Bin(Bin::And | Bin::Or | Bin::Xor | Bin::Implies, ..));
        if !decomposed && !t.kids().is_empty() {
            let boolean_kids = t.kids().iter().all(|k| k.ty() == TTy::Bv(1));
            out.push(format!("{}[{}]", t.op_name(), if boolean_kids { "bool-children" } else { "bv-children" }));
        }
    }
    let mut v = vec![];
    rec(t, &mut v);
    v.first().cloned().unwrap_or_else(|| "none".into())
}

fn guard_sig(class: &str, what: &str, min: &T, pre: u8) -> String {
    if class.starts_with("panic|") {
        format!("C20|{class}|expr_to_guard|{}", slug(what))
    } else {
        format!("C20|{class}|expr_to_guard|{}|{}", min.op_name(), if pre == 1 { "rev" } else { "fresh" })
    }
}

fn run_guard_sweep(template: &World, tier: Tier, rep: &Report, budget: &Budget) {
    let t1 = g_t1();
    #[derive(Clone)]
    enum Chunk {
        Terms(Vec<T>),
        Wrap(T),
    }
    let mut chunks: Vec<(Chunk, bool)> = vec![];
    let leaves = g_leaves();
    chunks.push((Chunk::Terms(leaves), true));
    for c in t1.chunks(64) {
        chunks.push((Chunk::Terms(c.to_vec()), true));
    }
    for i in t1.iter() {
        chunks.push((Chunk::Wrap(i.clone()), tier.is_thorough()));
    }
    let stop = AtomicBool::new(false);
    let failing: Mutex<Vec<(u64, T, u8, String)>> = Mutex::new(vec![]);
    chunks.par_iter().enumerate().for_each(|(ci, (ch, both))| {
        if stop.load(Ordering::Relaxed) {
            return;
        }
        if budget.exceeded() {
            stop.store(true, Ordering::Relaxed);
            return;
        }
        let terms = match ch {
            Chunk::Terms(v) => v.clone(),
            Chunk::Wrap(i) => g_wrap(i),
        };
        let mut c: BTreeMap<String, u64> = BTreeMap::new();
        let mut hs = vec![];
        let mut bad = vec![];
        for (ti, t) in terms.iter().enumerate() {
            for pre in 0..(if *both { 2u8 } else { 1 }) {
                let order = (1u64 << 62) | ((ci as u64) << 20) | ((ti as u64) << 1) | pre as u64;
                *c.entry("evaluations".into()).or_default() += 1;
                *c.entry("guard_terms".into()).or_default() += 1;
                *c.entry(format!("guard_terms_operators:{}", g_operators(t))).or_default() += 1;
                *c.entry(format!("guard_root:{}", t.op_name())).or_default() += 1;
                if pre == 0 {
                    hs.push(hash64(&format!("guard:{t}")));
                }
                if let Some((class, _)) = guard_once(template, t, pre) {
                    *c.entry(format!("failing_guard_terms:{class}")).or_default() += 1;
                    bad.push((order, t.clone(), pre, class));
                }
            }
        }
        rep.merge_counts(&c);
        rep.distinct_hashes(&hs);
        failing.lock().unwrap().extend(bad);
    });
    if stop.load(Ordering::Relaxed) {
        rep.cap_hit("budget: expr_to_guard sweep not completed");
    } else {
        for k in ["guard_terms_operators:0", "guard_terms_operators:1", "guard_terms_operators:2", "guard_root:ite", "guard_root:xor", "guard_root:eq"] {
            if rep.get(k) == 0 {
                eprintln!("C20 machinery: vacuity guard: expr_to_guard sweep saw no term counted under {k}");
                std::process::exit(2);
            }
        }
    }
    // deterministic reporting: by enumeration order, the first few per (class, opaque kind) are shrunk
    let mut bad = failing.into_inner().unwrap();
    bad.sort_by_key(|b| b.0);
    let mut per: BTreeMap<String, usize> = BTreeMap::new();
    for (order, t, pre, class) in bad {
        let key = format!("{class}|{}", opaque_kind(&t));
        let n = per.entry(key).or_default();
        if *n >= 6 {
            continue;
        }
        *n += 1;
        let same = |s: &T| matches!(guard_once(template, s, pre), Some((c, _)) if c == class);
        let min = g_shrink(&t, &same);
        let min_pre = if pre == 1 && matches!(guard_once(template, &min, 0), Some((c, _)) if c == class) { 0 } else { pre };
        let (cl, what) = guard_once(template, &min, min_pre).unwrap_or_else(|| guard_once(template, &t, pre).unwrap());
        let sig = guard_sig(&cl, &what, &min, min_pre);
        rep.violation(Violation { sig, what, case: json!({"kind": "guard", "term": min.to_string(), "pre": if min_pre == 1 { "rev" } else { "none" }, "found_in": t.to_string()}), order });
    }
}

// ------------------------------------------------------------------------------------------

pub fn run(opts: &Opts, rep: &Report) {
    let tier = match opts.mode {
        Mode::Run(t) => t,
        _ => unreachable!(),
    };
    let budget = Budget::new(opts.budget_s);
    if std::env::var("C20_COUNT_ONLY").is_ok() {
        count_space(tier);
        std::process::exit(0);
    }
    let template = World::new();
    run_guard_sweep(&template, tier, rep, &budget);
    rep.note("guard_sweep_wall_s", json!(rep.elapsed()));

    let failing: Mutex<Failing> = Mutex::new(Failing::new());
    // (pre-state, steps that may be any operation, total steps [the rest unary only], grouped)
    let passes: Vec<(u8, usize, usize, bool)> = if tier.is_thorough() {
        vec![(0, 3, 4, false), (1, 3, 4, false), (0, 4, 5, true)]
    } else {
        vec![(0, 3, 4, false), (1, 3, 3, false)]
    };
    let mut log = vec![];
    let mut done_alphas: Vec<(u8, Alpha)> = vec![];
    for (pre, full, limit, grouped) in passes {
        if budget.exceeded() {
            rep.cap_hit(&format!("budget: pass pre={pre} full={full} limit={limit} not started"));
            log.push(json!({"pre": pre, "any_operation_up_to": full, "unary_up_to": limit, "status": "skipped"}));
            continue;
        }
        let t0 = rep.elapsed();
        let s0 = rep.get("states");
        let al = Alpha { full, limit };
        let earlier: Vec<Alpha> = done_alphas.iter().filter(|(p, _)| *p == pre).map(|(_, a)| *a).collect();
        let (done, completed, n_groups) = pass(&template, pre, al, earlier, grouped, &budget, rep, &failing);
        if !done {
            rep.cap_hit(&format!(
                "budget: pass pre={pre} full={full} limit={limit} stopped early: sub-trees of {} of {} first operations complete",
                completed.len(),
                n_groups
            ));
        } else {
            done_alphas.push((pre, al));
        }
        let mut entry = json!({"pre": pre, "any_operation_up_to": full, "unary_up_to": limit, "complete": done, "new_states": rep.get("states") - s0, "wall_s": rep.elapsed() - t0});
        if grouped {
            entry["first_operations_complete"] = json!(completed);
            entry["first_operations"] = json!(n_groups);
        }
        log.push(entry);
    }
    rep.note("passes", Value::Array(log));

    // vacuity guards (enumerator side)
    if !budget.exceeded() {
        for k in ["op:and", "op:or", "op:add", "op:sel", "op:ugt", "op:ite", "op:coalesce", "op:import", "enum:coalesce_of_nested_ite_with_repeated_value", "enum:coalesce_of_summary_with_3plus_value_leaves"] {
            if rep.get(k) == 0 {
                eprintln!("C20 machinery: vacuity guard: no history counted under {k}");
                std::process::exit(2);
            }
        }
    }

    rep.note("search_done_wall_s", json!(rep.elapsed()));
    // deterministic reporting of failing states: sorted by enumeration order, the first few per
    // (class, operation) are shrunk and get a signature; all are counted
    let bad = failing.into_inner().unwrap();
    let mut todo: Vec<(u64, History, String)> = vec![];
    for (key, v) in bad {
        // key = "<class>|<op>"; the class is everything before the last field
        let class = key.rsplit_once('|').map(|x| x.0.to_string()).unwrap_or(key.clone());
        for (order, _, h) in v {
            todo.push((order, h, class.clone()));
        }
    }
    todo.sort_by(|a, b| (a.0, a.1.text()).cmp(&(b.0, b.1.text())));
    todo.par_iter().for_each(|(order, h, class)| report_history(&template, rep, h, class, *order));
    for (i, (_, h, class)) in todo.iter().enumerate().take(3) {
        let _ = i;
        rep.sample(json!({"failing_history": h.text(), "class": class}));
    }
    rep.sample(json!({"history": "R1=ite(a,x,y); R2=ite(b,R1,x); R3=add(R2,R1); R4=coalesce(R3)", "note": "format of a state"}));
}

pub fn replay(case: &Value, rep: &Report) {
    let template = World::new();
    match case["kind"].as_str() {
        Some("guard") => {
            let t = terms::parse_t(case["term"].as_str().expect("term")).expect("parse term");
            let pre = if case["pre"].as_str() == Some("rev") { 1 } else { 0 };
            if let Some((cl, what)) = guard_once(&template, &t, pre) {
                let sig = guard_sig(&cl, &what, &t, pre);
                rep.violation(Violation { sig, what, case: case.clone(), order: 0 });
            }
        }
        _ => {
            let h = History::from_json(case).unwrap_or_else(|e| {
                eprintln!("C20 replay: {e}");
                std::process::exit(2)
            });
            let mut w = template.clone();
            if let Err(f) = check_history(&mut w, &h, true) {
                report_history(&template, rep, &h, &f.class, 0);
            }
        }
    }
}
