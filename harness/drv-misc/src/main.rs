//! Drivers for C19 (arithmetic e-graph rewrites, patronus-egraphs) and C20 (guarded value
//! summaries, patronus-dse).
mod c19;
mod c20;

use pvcore::run::*;

fn main() {
    main_with(&[
        Entry { id: "C19", level: "exploration", meta: c19::meta, run: c19::run, replay: c19::replay },
        Entry { id: "C20", level: "model_checking", meta: c20::meta, run: c20::run, replay: c20::replay },
    ])
}
