//! C19 — arithmetic e-graph rewrites are value-preserving under their side conditions, and
//! `to_arith` / `from_arith` round-trip the convertible fragment.
//!
//! Part A (rules): every rule of `create_rewrites()` x every assignment of its width variables x
//! both values of every sign variable. Both patterns are instantiated by this file's own
//! substitution, lowered with the crate's `from_arith` (part of the subject) and compared with the
//! reference evaluator on ALL operand values.
//! Part B (round trip): every expression of the convertible fragment with at most two operators
//! goes through `to_arith` and `from_arith`.

use egg::{ENodeOrVar, Id, Language, PatternAst, RecExpr, Var};
use patronus::expr::{Context, ExprRef, SerializableIrNode};
use patronus_egraphs::{Arith, ArithRewrite, Sign, create_rewrites, from_arith, is_bin_op, to_arith};
use pvcore::bv::{Bv, Val};
use pvcore::evalref::*;
use pvcore::run::*;
use pvcore::terms::*;
use rayon::prelude::*;
use serde_json::{Value, json};
use std::collections::{BTreeMap, BTreeSet};
use std::sync::atomic::{AtomicBool, Ordering};

/// at most this many operand bits are enumerated exhaustively per instance
const EXH_BITS_RULE: u32 = 18;
/// search cap for derived widths when looking for the smallest satisfying value
const DERIVED_SEARCH_CAP: u32 = 96;
/// vacuity guard: condition-true instances per rule
const MIN_COND_TRUE: u64 = 50;

pub fn meta(rep: &mut Report) {
    rep.rule = "Part A: every rule of patronus_egraphs::create_rewrites() x every assignment of its width variables x both values of every sign variable. Operand widths (width of a pattern variable or constant operand) run 1..4 (thorough 1..5); derived widths (output width of some operator in a pattern: ?wo ?wab ?wbc ..) run 1..U where U-1 = max(smallest value for which the side condition is satisfiable at the largest operand widths, largest operand width + 1, largest width expression (max+1 / wlsh) of either pattern, full-precision width of the widest operator of either pattern [quick: capped at 2*largest operand width+1]). Instances whose eval_condition is false are counted and skipped. Both patterns are instantiated (own substitution over PatternAst), lowered with from_arith and compared under eval_ref on ALL operand values. Part B: every expression op(l,l) / op(ext?(op(l,l)),l) / op(l,ext?(op(l,l))) / op(x,x) with op in add sub mul shl lshr ashr, l a symbol or a zero/sign extended symbol, widths 1 2 3 4 8 16, through to_arith then from_arith: same width, equal under all values (<= 12 symbol bits) or the full product of the boundary alphabet; plus the same shapes with extension-of-extension operands at widths <= 4 (reported under a separate signature detail `nested-ext`). distinct_nontrivial = distinct condition-true rule instances whose two lowered sides are different expressions + distinct round-trip terms converted".into();
    rep.assumptions = vec![
        "reference semantics pvcore::bv / eval_ref (num-bigint), self-checked at start".into(),
        "rule variables are classified structurally: position 0 of an operator = derived width, positions 1/4 = operand width unless the variable is also some operator's output width, 2/5 = sign, 3/6 = operand".into(),
        "pattern operands stand for arbitrary sub-expressions of the stated width; they are represented by free symbols of that width, whose value space is a superset".into(),
        "round trip at widths 8 and 16 with more than 12 symbol bits is decided on the boundary alphabet only".into(),
    ];
}

fn tier_of(opts: &Opts) -> Tier {
    match opts.mode {
        Mode::Run(t) => t,
        _ => unreachable!(),
    }
}

// ------------------------------------------------------------------------------------------
// rule analysis (enumerator side)

#[derive(Clone, Copy, PartialEq, Eq, Debug, PartialOrd, Ord)]
enum Kind {
    OpW,
    DerW,
    Sign,
    Sym,
}

#[derive(Clone, Copy, PartialEq, Eq, Debug, PartialOrd, Ord)]
enum Pos {
    Out,
    Width,
    Sign,
    Operand,
}

struct RuleSpec {
    name: String,
    /// variables in a fixed order: operand widths, derived widths, signs (each sorted by name)
    vars: Vec<(Var, Kind)>,
    sym_vars: Vec<Var>,
}

fn analyze_pattern(p: &PatternAst<Arith>, roles: &mut BTreeMap<String, (Var, BTreeSet<Pos>)>) {
    let nodes = p.as_ref();
    let mut note = |id: Id, pos: Pos| {
        if let ENodeOrVar::Var(v) = &nodes[usize::from(id)] {
            roles.entry(v.to_string()).or_insert((*v, BTreeSet::new())).1.insert(pos);
        }
    };
    for n in nodes.iter() {
        if let ENodeOrVar::ENode(e) = n {
            if is_bin_op(e) {
                let c = e.children();
                note(c[0], Pos::Out);
                note(c[1], Pos::Width);
                note(c[2], Pos::Sign);
                note(c[3], Pos::Operand);
                note(c[4], Pos::Width);
                note(c[5], Pos::Sign);
                note(c[6], Pos::Operand);
            } else if matches!(e, Arith::WidthMaxPlus1(_) | Arith::WidthLeftShift(_)) {
                for c in e.children() {
                    note(*c, Pos::Width);
                }
            }
        }
    }
    // a pattern that is a bare variable has no roles; such a rule cannot be instantiated here
}

fn analyze_rule(r: &ArithRewrite) -> RuleSpec {
    let (lhs, rhs) = r.patterns();
    let mut roles = BTreeMap::new();
    analyze_pattern(lhs, &mut roles);
    analyze_pattern(rhs, &mut roles);
    let mut vars = vec![];
    let mut sym_vars = vec![];
    for (name, (v, pos)) in roles.iter() {
        let kind = if pos.iter().all(|p| *p == Pos::Sign) {
            Kind::Sign
        } else if pos.iter().all(|p| *p == Pos::Operand) {
            Kind::Sym
        } else if pos.iter().all(|p| matches!(p, Pos::Out | Pos::Width)) {
            if pos.contains(&Pos::Out) { Kind::DerW } else { Kind::OpW }
        } else {
            eprintln!("C19 machinery: cannot classify variable {name} of rule {} (positions {pos:?})", r.name());
            std::process::exit(2);
        };
        if kind == Kind::Sym {
            sym_vars.push(*v);
        } else {
            vars.push((*v, kind));
        }
    }
    // every variable of either pattern must have been classified
    for p in [lhs, rhs] {
        for n in p.as_ref() {
            if let ENodeOrVar::Var(v) = n
                && !roles.contains_key(&v.to_string())
            {
                eprintln!("C19 machinery: variable {v} of rule {} has no role", r.name());
                std::process::exit(2);
            }
        }
    }
    vars.sort_by_key(|(v, k)| (*k, v.to_string()));
    RuleSpec { name: r.name().to_string(), vars, sym_vars }
}

/// own substitution: one output node per pattern node, child ids are preserved
fn instantiate(p: &PatternAst<Arith>, asg: &[(Var, u32)], spec: &RuleSpec) -> RecExpr<Arith> {
    let mut out: RecExpr<Arith> = RecExpr::default();
    for n in p.as_ref() {
        let node = match n {
            ENodeOrVar::ENode(e) => e.clone(),
            ENodeOrVar::Var(v) => {
                if spec.sym_vars.contains(v) {
                    Arith::Symbol(v.to_string().trim_start_matches('?').to_string())
                } else {
                    let (_, kind) = spec.vars.iter().find(|(x, _)| x == v).expect("classified variable");
                    let val = asg.iter().find(|(x, _)| x == v).expect("assigned variable").1;
                    match kind {
                        Kind::Sign => Arith::from(if val == 0 { Sign::Unsigned } else { Sign::Signed }),
                        _ => Arith::from(val),
                    }
                }
            }
        };
        out.add(node);
    }
    out
}

/// width denoted by a pattern node in a width position (enumerator side, for ranges only)
fn pat_width(p: &PatternAst<Arith>, id: Id, asg: &dyn Fn(Var) -> u32) -> Option<u64> {
    match &p.as_ref()[usize::from(id)] {
        ENodeOrVar::Var(v) => Some(asg(*v) as u64),
        ENodeOrVar::ENode(Arith::Width(w)) => Some(u32::from(*w) as u64),
        ENodeOrVar::ENode(Arith::WidthMaxPlus1([a, b])) => Some(pat_width(p, *a, asg)?.max(pat_width(p, *b, asg)?) + 1),
        ENodeOrVar::ENode(Arith::WidthLeftShift([a, b])) => {
            let (a, b) = (pat_width(p, *a, asg)?, pat_width(p, *b, asg)?);
            if b >= 16 { None } else { Some(a + (1u64 << b) - 1) }
        }
        _ => None,
    }
}

/// full-precision ("natural") width of the value computed by a pattern node
fn natural_width(p: &PatternAst<Arith>, id: Id, declared: Option<u64>, asg: &dyn Fn(Var) -> u32) -> Option<u64> {
    match &p.as_ref()[usize::from(id)] {
        ENodeOrVar::ENode(e) if is_bin_op(e) => {
            let c = e.children();
            let wa = natural_width(p, c[3], pat_width(p, c[1], asg), asg)?;
            let wb = natural_width(p, c[6], pat_width(p, c[4], asg), asg)?;
            Some(match e {
                Arith::Add(_) | Arith::Sub(_) => wa.max(wb) + 1,
                Arith::Mul(_) => wa + wb,
                Arith::LeftShift(_) => {
                    if wb >= 7 {
                        return None;
                    }
                    wa + (1u64 << wb) - 1
                }
                _ => wa,
            })
        }
        _ => declared,
    }
}

struct Ranges {
    /// inclusive upper bound per variable of spec.vars (lower bound 1 for widths, 0 for signs)
    hi: Vec<u32>,
    note: Value,
}

fn ranges(r: &ArithRewrite, spec: &RuleSpec, opmax: u32, natural: bool) -> Ranges {
    let (lhs, rhs) = r.patterns();
    let der: Vec<usize> = spec.vars.iter().enumerate().filter(|(_, (_, k))| *k == Kind::DerW).map(|(i, _)| i).collect();
    let signs: Vec<usize> = spec.vars.iter().enumerate().filter(|(_, (_, k))| *k == Kind::Sign).map(|(i, _)| i).collect();
    // 1. smallest satisfying value per derived variable at the largest operand widths
    let cap = if der.len() <= 2 { DERIVED_SEARCH_CAP } else if der.len() == 3 { 48 } else { 12 };
    let mut min_sat: Vec<Option<u32>> = vec![None; spec.vars.len()];
    let mut cur: Vec<(Var, u32)> = spec.vars.iter().map(|(v, k)| (*v, if *k == Kind::Sign { 0 } else { opmax })).collect();
    let n_der = der.len() as u32;
    let total = (cap as u64).pow(n_der) * (1u64 << signs.len());
    for idx in 0..total {
        let mut x = idx;
        for d in der.iter() {
            cur[*d].1 = (x % cap as u64) as u32 + 1;
            x /= cap as u64;
        }
        for s in signs.iter() {
            cur[*s].1 = (x % 2) as u32;
            x /= 2;
        }
        if r.eval_condition(&cur) {
            for d in der.iter() {
                let v = cur[*d].1;
                if min_sat[*d].is_none_or(|m| v < m) {
                    min_sat[*d] = Some(v);
                }
            }
        }
    }
    // 2. largest width expression / natural width of either pattern at the largest operand widths
    let lookup = |v: Var| -> u32 {
        let (i, (_, k)) = spec.vars.iter().enumerate().find(|(_, (x, _))| *x == v).expect("var");
        match k {
            Kind::DerW => min_sat[i].unwrap_or(opmax + 1).max(opmax + 1),
            _ => opmax,
        }
    };
    let mut computed = 0u64;
    let mut nat = 0u64;
    for p in [lhs, rhs] {
        for (i, n) in p.as_ref().iter().enumerate() {
            if let ENodeOrVar::ENode(e) = n {
                if matches!(e, Arith::WidthMaxPlus1(_) | Arith::WidthLeftShift(_)) {
                    computed = computed.max(pat_width(p, Id::from(i), &lookup).unwrap_or(0));
                }
                if is_bin_op(e) {
                    nat = nat.max(natural_width(p, Id::from(i), None, &lookup).unwrap_or(0));
                }
            }
        }
    }
    let mut hi = vec![];
    for (i, (_, k)) in spec.vars.iter().enumerate() {
        hi.push(match k {
            Kind::OpW => opmax,
            Kind::Sign => 1,
            Kind::DerW => {
                let mut u = min_sat[i].unwrap_or(0).max(opmax + 1).max(computed.min(200) as u32);
                // full-precision width of every operator: complete in the thorough tier, capped
                // at 2*opmax+1 (covers the full-precision product of two operands) in the quick tier
                let nat_cap = if natural { 200 } else { 2 * opmax as u64 + 1 };
                u = u.max(nat.min(nat_cap) as u32);
                u + 1
            }
            Kind::Sym => unreachable!(),
        });
    }
    let note = json!({
        "rule": spec.name,
        "vars": spec.vars.iter().zip(hi.iter()).map(|((v, k), h)| format!("{v}:{k:?}:{}..{h}", if *k == Kind::Sign {0} else {1})).collect::<Vec<_>>(),
        "min_satisfying_derived": spec.vars.iter().enumerate().filter(|(_, (_, k))| *k == Kind::DerW).map(|(i, (v, _))| format!("{v}={:?}", min_sat[i])).collect::<Vec<_>>(),
        "largest_width_expression": computed,
        "largest_full_precision_width": nat,
    });
    Ranges { hi, note }
}

/// all instances of a rule, ordered by (sum of widths, lexicographic)
fn instances(spec: &RuleSpec, rg: &Ranges) -> Vec<Vec<u32>> {
    let mut out: Vec<Vec<u32>> = vec![vec![]];
    for (i, (_, k)) in spec.vars.iter().enumerate() {
        let lo = if *k == Kind::Sign { 0 } else { 1 };
        let mut next = Vec::with_capacity(out.len() * (rg.hi[i] - lo + 1) as usize);
        for p in out.iter() {
            for v in lo..=rg.hi[i] {
                let mut q = p.clone();
                q.push(v);
                next.push(q);
            }
        }
        out = next;
    }
    out.sort_by_key(|a| (a.iter().sum::<u32>(), a.clone()));
    out
}

/// Instances at the width boundaries the width arithmetic of the rules special-cases (`wlsh` saturates from a
/// 32-bit shift amount on; 63/64/65 are the word boundary): one operand width W from {31,32,33,63,64,65}, the other
/// operand widths from {1,2}, derived widths from {1, 2, W, W+1, W+2, W+3, 2W, 2W+2}, both signs. Operand values of
/// these instances come from the boundary alphabet (see check_instance).
fn wide_instances(spec: &RuleSpec, thorough: bool) -> Vec<Vec<u32>> {
    let opw: Vec<usize> = spec.vars.iter().enumerate().filter(|(_, (_, k))| *k == Kind::OpW).map(|(i, _)| i).collect();
    let wides: &[u32] = if thorough { &[31, 32, 33, 63, 64, 65] } else { &[32, 33, 64] };
    let mut out: Vec<Vec<u32>> = vec![];
    for &wi in opw.iter() {
        for &w in wides {
            let der: Vec<u32> = vec![1, 2, w, w + 1, w + 2, w + 3, 2 * w, 2 * w + 2];
            let mut cur: Vec<Vec<u32>> = vec![vec![]];
            for (i, (_, k)) in spec.vars.iter().enumerate() {
                let choices: Vec<u32> = match k {
                    Kind::Sign => vec![0, 1],
                    Kind::OpW => {
                        if i == wi {
                            vec![w]
                        } else {
                            vec![1, 2]
                        }
                    }
                    Kind::DerW => der.clone(),
                    Kind::Sym => unreachable!(),
                };
                let mut next = Vec::with_capacity(cur.len() * choices.len());
                for p in cur.iter() {
                    for c in choices.iter() {
                        let mut q = p.clone();
                        q.push(*c);
                        next.push(q);
                    }
                }
                cur = next;
            }
            out.extend(cur);
        }
    }
    out
}

// ------------------------------------------------------------------------------------------
// one rule instance

enum Outcome {
    /// (lowered sides are different expressions, operand valuations compared)
    Holds(bool, u64),
    Fails { kind: String, what: String },
}

fn show_asg(asg: &[(Var, u32)]) -> String {
    asg.iter().map(|(v, x)| format!("{v}={x}")).collect::<Vec<_>>().join(" ")
}

fn lower(ctx: &mut Context, e: &RecExpr<Arith>) -> Result<ExprRef, PanicInfo> {
    catch(|| from_arith(ctx, e))
}

fn check_instance(r: &ArithRewrite, spec: &RuleSpec, asg: &[(Var, u32)]) -> Outcome {
    let (lhs, rhs) = r.patterns();
    let mut ctx = Context::default();
    let li = instantiate(lhs, asg, spec);
    let ri = instantiate(rhs, asg, spec);
    let l = match lower(&mut ctx, &li) {
        Ok(e) => e,
        Err(p) => {
            return Outcome::Fails {
                kind: format!("panic|{}", p.file()),
                what: format!("rule {}: from_arith panicked on the instantiated left pattern `{li}` [{}]: {} ({})", spec.name, show_asg(asg), p.msg, p.short_loc()),
            };
        }
    };
    let rr = match lower(&mut ctx, &ri) {
        Ok(e) => e,
        Err(p) => {
            return Outcome::Fails {
                kind: format!("panic|{}", p.file()),
                what: format!("rule {}: from_arith panicked on the instantiated right pattern `{ri}` [{}]: {} ({})", spec.name, show_asg(asg), p.msg, p.short_loc()),
            };
        }
    };
    let (tl, tr) = (type_ref(&ctx, l), type_ref(&ctx, rr));
    let (tl, tr) = match (tl, tr) {
        (Ok(a), Ok(b)) => (a, b),
        (a, b) => {
            return Outcome::Fails {
                kind: "illtyped".into(),
                what: format!("rule {} [{}]: from_arith produced an ill-typed expression: lhs {:?}, rhs {:?}", spec.name, show_asg(asg), a.err(), b.err()),
            };
        }
    };
    if tl != tr {
        return Outcome::Fails {
            kind: "width".into(),
            what: format!(
                "rule {} [{}]: `{li}` lowers to `{}` of type {tl} but `{ri}` lowers to `{}` of type {tr}",
                spec.name,
                show_asg(asg),
                l.serialize_to_str(&ctx),
                rr.serialize_to_str(&ctx)
            ),
        };
    }
    // declared output width of the root operator
    let root = &lhs.as_ref()[lhs.as_ref().len() - 1];
    if let ENodeOrVar::ENode(e) = root
        && is_bin_op(e)
    {
        let look = |v: Var| asg.iter().find(|(x, _)| *x == v).map(|x| x.1).unwrap_or(0);
        if let Some(w) = pat_width(lhs, e.children()[0], &look)
            && tl != patronus::expr::Type::BV(w as u32)
        {
            return Outcome::Fails {
                kind: "width".into(),
                what: format!("rule {} [{}]: `{li}` declares output width {w} but lowers to `{}` of type {tl}", spec.name, show_asg(asg), l.serialize_to_str(&ctx)),
            };
        }
    }
    let syms = symbols_of(&ctx, &[l, rr]);
    let mut named: Vec<(String, u32, ExprRef)> = vec![];
    for s in syms.iter() {
        let name = ctx.get_symbol_name(*s).unwrap_or("?").to_string();
        let w = match type_ref(&ctx, *s) {
            Ok(patronus::expr::Type::BV(w)) => w,
            _ => 0,
        };
        if let Some(o) = named.iter().find(|(n, _, _)| *n == name) {
            return Outcome::Fails {
                kind: "operand-width".into(),
                what: format!("rule {} [{}]: operand {name} is used at width {} and at width {w}", spec.name, show_asg(asg), o.1),
            };
        }
        named.push((name, w, *s));
    }
    named.sort();
    if l == rr {
        return Outcome::Holds(false, 0);
    }
    // instances at the width boundaries can ask for intermediate results of 2^31 bits and more (wlsh): those are
    // lowered and type-checked above but not evaluated
    let widest = nodes_of(&ctx, &[l, rr]).iter().map(|n| match type_ref(&ctx, *n) { Ok(patronus::expr::Type::BV(w)) => w, _ => 0 }).max().unwrap_or(0);
    if widest > 4096 {
        return Outcome::Holds(false, 0);
    }
    let bits: u32 = named.iter().map(|x| x.1).sum();
    let alph: Vec<Vec<Bv>> = named.iter().map(|(_, w, _)| if bits <= EXH_BITS_RULE { all_values(*w) } else { bnd_values(*w) }).collect();
    let mut idx = vec![0usize; named.len()];
    let mut env = Env::default();
    let mut n = 0u64;
    loop {
        for (k, (_, _, s)) in named.iter().enumerate() {
            env.insert(*s, Val::B(alph[k][idx[k]].clone()));
        }
        let a = eval_ref(&ctx, l, &env);
        let b = eval_ref(&ctx, rr, &env);
        n += 1;
        if a != b {
            let vals = named.iter().enumerate().map(|(k, (nm, _, _))| format!("{nm}={}", alph[k][idx[k]].show())).collect::<Vec<_>>().join(" ");
            return Outcome::Fails {
                kind: "value".into(),
                what: format!(
                    "rule {} with {} (side condition true): `{li}` = `{}` evaluates to {} but `{ri}` = `{}` evaluates to {} for {vals}",
                    spec.name,
                    show_asg(asg),
                    l.serialize_to_str(&ctx),
                    a.show(),
                    rr.serialize_to_str(&ctx),
                    b.show()
                ),
            };
        }
        // next valuation
        let mut k = 0;
        while k < idx.len() {
            idx[k] += 1;
            if idx[k] < alph[k].len() {
                break;
            }
            idx[k] = 0;
            k += 1;
        }
        if k == idx.len() {
            break;
        }
    }
    Outcome::Holds(true, n)
}

/// signature class of an instance: signs and the relation of each derived width to the largest operand width
fn instance_class(spec: &RuleSpec, vals: &[u32]) -> (String, String) {
    let opmax = spec.vars.iter().zip(vals).filter(|((_, k), _)| *k == Kind::OpW).map(|(_, v)| *v).max().unwrap_or(0);
    let signs: Vec<String> = spec
        .vars
        .iter()
        .zip(vals)
        .filter(|((_, k), _)| *k == Kind::Sign)
        .map(|((v, _), x)| format!("{}={}", v.to_string().trim_start_matches('?'), if *x == 0 { "u" } else { "s" }))
        .collect();
    let ders: Vec<String> = spec
        .vars
        .iter()
        .zip(vals)
        .filter(|((_, k), _)| *k == Kind::DerW)
        .map(|((v, _), x)| {
            let rel = if *x < opmax {
                "<"
            } else if *x == opmax {
                "="
            } else {
                ">"
            };
            format!("{}{}op", v.to_string().trim_start_matches('?'), rel)
        })
        .collect();
    (if signs.is_empty() { "nosign".into() } else { signs.join(",") }, ders.join(","))
}

/// failing instances of one rule, per (kind, sign assignment): smallest instance and count
type RuleFailures = BTreeMap<(String, String), (u64, Vec<u32>, String, u64)>;

fn note_failure(f: &mut RuleFailures, spec: &RuleSpec, vals: &[u32], kind: &str, what: String, order: u64) {
    let (signs, _) = instance_class(spec, vals);
    let e = f.entry((kind.to_string(), signs)).or_insert((order, vals.to_vec(), what.clone(), 0));
    e.3 += 1;
    if order < e.0 {
        *e = (order, vals.to_vec(), what, e.3);
    }
}

/// One violation per (rule, kind) when every sign assignment fails, otherwise one per failing
/// sign assignment; the reported instance is the smallest one in enumeration order (sum of widths,
/// then lexicographic), the last signature field is its derived-width class.
fn report_rule_failures(rep: &Report, spec: &RuleSpec, f: &RuleFailures) {
    let n_signs = spec.vars.iter().filter(|(_, k)| *k == Kind::Sign).count();
    let kinds: BTreeSet<String> = f.keys().map(|k| k.0.clone()).collect();
    for kind in kinds {
        let per: Vec<(&(String, String), &(u64, Vec<u32>, String, u64))> = f.iter().filter(|(k, _)| k.0 == kind).collect();
        let emit = |signs: &str, item: &(u64, Vec<u32>, String, u64), n: u64| {
            let (_, ders) = instance_class(spec, &item.1);
            let sig = format!("C19|{kind}|{}|{signs}|{ders}", spec.name);
            let asg: BTreeMap<String, u32> = spec.vars.iter().zip(item.1.iter()).map(|((v, _), x)| (v.to_string(), *x)).collect();
            rep.violation(Violation {
                sig,
                what: format!("{} [{n} failing instance(s) in this class; smallest shown]", item.2),
                case: json!({"kind": "rule", "rule": spec.name, "assign": asg}),
                order: item.0,
            });
        };
        if n_signs > 0 && per.len() == 1usize << n_signs {
            let best = per.iter().min_by_key(|x| x.1.0).unwrap();
            emit("any-sign", best.1, per.iter().map(|x| x.1.3).sum());
        } else {
            for (k, item) in per {
                emit(&k.1, item, item.3);
            }
        }
    }
}

fn run_rules(tier: Tier, rep: &Report, budget: &Budget) {
    let rules = create_rewrites();
    if rules.is_empty() {
        eprintln!("C19 machinery: create_rewrites() returned no rules");
        std::process::exit(2);
    }
    let opmax = if tier.is_thorough() { 5 } else { 4 };
    let mut notes = vec![];
    let mut order_base = 0u64;
    for r in rules.iter() {
        let spec = analyze_rule(r);
        let rg = ranges(r, &spec, opmax, tier.is_thorough());
        let mut inst = instances(&spec, &rg);
        let n_narrow = inst.len();
        inst.extend(wide_instances(&spec, tier.is_thorough()));
        rep.add("instances_at_width_boundaries", (inst.len() - n_narrow) as u64);
        let stop = AtomicBool::new(false);
        let name = spec.name.clone();
        let failures: std::sync::Mutex<RuleFailures> = std::sync::Mutex::new(RuleFailures::new());
        inst.par_chunks(32).enumerate().for_each(|(ci, chunk)| {
            if stop.load(Ordering::Relaxed) {
                return;
            }
            if budget.exceeded() {
                stop.store(true, Ordering::Relaxed);
                return;
            }
            let mut c: BTreeMap<String, u64> = BTreeMap::new();
            let mut hs = vec![];
            for (k, vals) in chunk.iter().enumerate() {
                let order = order_base + (ci * 32 + k) as u64;
                let asg: Vec<(Var, u32)> = spec.vars.iter().zip(vals).map(|((v, _), x)| (*v, *x)).collect();
                *c.entry("instances".into()).or_default() += 1;
                *c.entry(format!("instances:{name}")).or_default() += 1;
                // every generated instance is a case: its side condition is evaluated by the subject
                *c.entry("evaluations".into()).or_default() += 1;
                if !r.eval_condition(&asg) {
                    *c.entry(format!("cond_false:{name}")).or_default() += 1;
                    continue;
                }
                *c.entry(format!("cond_true:{name}")).or_default() += 1;
                match check_instance(r, &spec, &asg) {
                    Outcome::Holds(nontrivial, n) => {
                        *c.entry("operand_valuations".into()).or_default() += n;
                        if nontrivial {
                            hs.push(hash64(&format!("{name}|{vals:?}")));
                        } else {
                            *c.entry(format!("identical_sides:{name}")).or_default() += 1;
                        }
                    }
                    Outcome::Fails { kind, what } => {
                        *c.entry(format!("failing:{name}")).or_default() += 1;
                        note_failure(&mut failures.lock().unwrap(), &spec, vals, &kind, what, order);
                    }
                }
                if order % 9973 == 0 {
                    rep.sample(json!({"rule": name, "assign": show_asg(&asg), "lhs": instantiate(r.patterns().0, &asg, &spec).to_string(), "rhs": instantiate(r.patterns().1, &asg, &spec).to_string()}));
                }
            }
            rep.merge_counts(&c);
            rep.distinct_hashes(&hs);
        });
        report_rule_failures(rep, &spec, &failures.into_inner().unwrap());
        order_base += inst.len() as u64;
        let capped = stop.load(Ordering::Relaxed);
        if capped {
            rep.cap_hit(&format!("budget: rule {} not completed", spec.name));
        }
        let mut n = rg.note.clone();
        n["instances"] = json!(inst.len());
        n["cond_true"] = json!(rep.get(&format!("cond_true:{}", spec.name)));
        notes.push(n);
        // vacuity guard (enumerator side): enough condition-true instances
        if !capped && rep.get(&format!("cond_true:{}", spec.name)) < MIN_COND_TRUE {
            eprintln!(
                "C19 machinery: vacuity guard: rule {} has only {} condition-true instances (< {MIN_COND_TRUE}) in ranges {}",
                spec.name,
                rep.get(&format!("cond_true:{}", spec.name)),
                rg.note
            );
            std::process::exit(2);
        }
    }
    rep.note("rules", Value::Array(notes));
    rep.add("rules", rules.len() as u64);
}

// ------------------------------------------------------------------------------------------
// round trip

const RT_OPS: [Bin; 6] = [Bin::Add, Bin::Sub, Bin::Mul, Bin::Shl, Bin::Lshr, Bin::Ashr];
const RT_WIDTHS: [u32; 6] = [1, 2, 3, 4, 8, 16];
const RT_EXH_BITS: u64 = 12;
const RT_ASSIGN_CAP: usize = 40_000;

fn rt_leaves(pos: &str, w: u32, nested: bool) -> Vec<T> {
    let mut out = vec![];
    for sw in RT_WIDTHS.iter().filter(|x| **x <= w) {
        let s = T::Sym(format!("{pos}{sw}"), Ty::Bv(*sw));
        if *sw == w {
            if !nested {
                out.push(s);
            }
        } else if !nested {
            out.push(T::ZExt(w - sw, Box::new(s.clone())));
            out.push(T::SExt(w - sw, Box::new(s)));
        } else {
            for mid in (sw + 1)..w {
                let (by1, by2) = (mid - sw, w - mid);
                out.push(T::ZExt(by2, Box::new(T::SExt(by1, Box::new(s.clone())))));
                out.push(T::SExt(by2, Box::new(T::ZExt(by1, Box::new(s.clone())))));
                out.push(T::ZExt(by2, Box::new(T::ZExt(by1, Box::new(s.clone())))));
                out.push(T::SExt(by2, Box::new(T::SExt(by1, Box::new(s.clone())))));
            }
        }
    }
    out
}

/// inner operator terms whose result is (extended to) width w
fn rt_inner(w: u32) -> Vec<T> {
    let mut out = vec![];
    for wi in RT_WIDTHS.iter().filter(|x| **x <= w) {
        let (la, lb) = (rt_leaves("a", *wi, false), rt_leaves("b", *wi, false));
        for op in RT_OPS {
            for a in la.iter() {
                for b in lb.iter() {
                    let i = T::bin(op, a.clone(), b.clone());
                    if *wi == w {
                        out.push(i);
                    } else {
                        out.push(T::ZExt(w - wi, Box::new(i.clone())));
                        out.push(T::SExt(w - wi, Box::new(i)));
                    }
                }
            }
        }
    }
    out
}

#[derive(Clone)]
enum RtChunk {
    /// op(la, lb) for all leaves at width w
    D1(u32, bool),
    /// inner term x at width w: op(x, lc), op(lc, x), op(x, x)
    D2(T, u32),
}

fn rt_chunk_terms(c: &RtChunk) -> Vec<T> {
    let mut out = vec![];
    match c {
        RtChunk::D1(w, nested) => {
            let la = rt_leaves("a", *w, *nested);
            let lb = rt_leaves("b", *w, false);
            for op in RT_OPS {
                for a in la.iter() {
                    for b in lb.iter() {
                        out.push(T::bin(op, a.clone(), b.clone()));
                        if *nested {
                            out.push(T::bin(op, b.clone(), a.clone()));
                        }
                    }
                    // the same base symbol under two different extensions (sign / amount belong to the use site)
                    for a2 in la.iter() {
                        out.push(T::bin(op, a.clone(), a2.clone()));
                    }
                }
            }
        }
        RtChunk::D2(x, w) => {
            let lc = rt_leaves("c", *w, false);
            for op in RT_OPS {
                for c in lc.iter() {
                    out.push(T::bin(op, x.clone(), c.clone()));
                    out.push(T::bin(op, c.clone(), x.clone()));
                }
                out.push(T::bin(op, x.clone(), x.clone()));
            }
        }
    }
    out
}

/// None = holds; Some((kind, what)); second component: result differed syntactically from the input
fn rt_once(t: &T) -> (Option<(String, String)>, bool) {
    let mut ctx = Context::default();
    let e = t.build(&mut ctx);
    let ar = match catch(|| to_arith(&ctx, e)) {
        Ok(a) => a,
        Err(p) => return (Some((format!("roundtrip-panic|{}", p.file()), format!("to_arith panicked on {t}: {} ({})", p.msg, p.short_loc()))), false),
    };
    let back = match catch(|| from_arith(&mut ctx, &ar)) {
        Ok(b) => b,
        Err(p) => {
            return (
                Some((format!("roundtrip-panic|{}", p.file()), format!("from_arith panicked on `{ar}` = to_arith({t}): {} ({})", p.msg, p.short_loc()))),
                false,
            );
        }
    };
    if back == e {
        return (None, false);
    }
    let ty_e = type_ref(&ctx, e).expect("generator produced an ill-typed term");
    match type_ref(&ctx, back) {
        Err(m) => return (Some(("roundtrip-illtyped".into(), format!("from_arith(to_arith({t})) = `{}` is ill-typed: {m}", back.serialize_to_str(&ctx)))), true),
        Ok(ty_b) => {
            if ty_b != ty_e {
                return (
                    Some(("roundtrip-width".into(), format!("{t} has type {ty_e} but from_arith(to_arith(.)) = `{}` via `{ar}` has type {ty_b}", back.serialize_to_str(&ctx)))),
                    true,
                );
            }
        }
    }
    let syms = t.symbols();
    let back_syms = symbols_of(&ctx, &[back]);
    let orig_syms = symbols_of(&ctx, &[e]);
    if back_syms.iter().any(|s| !orig_syms.contains(s)) {
        return (
            Some(("roundtrip-symbol".into(), format!("from_arith(to_arith({t})) = `{}` via `{ar}` mentions a symbol (name/width) the input does not", back.serialize_to_str(&ctx)))),
            true,
        );
    }
    let (asg, _) = assignments(&syms, RT_EXH_BITS, RT_ASSIGN_CAP);
    for vals in asg.iter() {
        let env = make_env(&mut ctx, &syms, vals);
        let a = eval_ref(&ctx, e, &env);
        let b = eval_ref(&ctx, back, &env);
        if a != b {
            return (
                Some((
                    "roundtrip-value".into(),
                    format!(
                        "{t} evaluates to {} but from_arith(to_arith(.)) = `{}` via `{ar}` evaluates to {} with {}",
                        a.show(),
                        back.serialize_to_str(&ctx),
                        b.show(),
                        show_assignment(&syms, vals)
                    ),
                )),
                true,
            );
        }
    }
    (None, true)
}

/// the convertible fragment: an operator at the root; operands are symbols, operators, or
/// zero/sign extensions of those
fn in_fragment(t: &T, root: bool) -> bool {
    match t {
        T::Bin(op, a, b) => RT_OPS.contains(op) && in_fragment(a, false) && in_fragment(b, false),
        T::Sym(_, Ty::Bv(_)) => !root,
        T::ZExt(_, k) | T::SExt(_, k) => !root && in_fragment(k, false),
        _ => false,
    }
}

fn nested_ext_kind(t: &T) -> Option<String> {
    if let T::ZExt(_, k) | T::SExt(_, k) = t
        && matches!(**k, T::ZExt(..) | T::SExt(..))
    {
        return Some(format!("{}({})", t.op_name(), k.op_name()));
    }
    t.kids().iter().find_map(|k| nested_ext_kind(k))
}

fn has_nested_ext(t: &T) -> bool {
    let here = matches!(t, T::ZExt(_, k) | T::SExt(_, k) if matches!(**k, T::ZExt(..) | T::SExt(..)));
    here || t.kids().iter().any(|k| has_nested_ext(k))
}

/// operator-independent shape of a round-trip term: op(kinds of the operands)
fn rt_shape(t: &T) -> String {
    fn kind(t: &T) -> String {
        match t {
            T::Sym(..) => "sym".into(),
            T::ZExt(_, k) | T::SExt(_, k) => {
                if k.is_leaf() {
                    t.op_name().to_string()
                } else {
                    format!("{}({})", t.op_name(), kind(k))
                }
            }
            T::Bin(..) => "op".into(),
            o => o.op_name().to_string(),
        }
    }
    format!("op({})", t.kids().iter().map(|k| kind(k)).collect::<Vec<_>>().join(","))
}

/// shrink a failing round-trip term inside the fragment and report it
fn rt_report(t: &T, kind0: &str, order: u64, rep: &Report) {
    let same = |s: &T| in_fragment(s, true) && matches!(rt_once(s).0, Some((k, _)) if k == kind0);
    let min = shrink(t, &same);
    let (kind, what) = rt_once(&min).0.unwrap_or_else(|| rt_once(t).0.unwrap());
    // one defect, one signature: an extension-of-extension operand is classified by the two
    // extension kinds (outer(inner)), everything else by the operator-independent shape
    let (shape, detail) = match nested_ext_kind(&min) {
        Some(k) => (k, "nested-ext"),
        None => (rt_shape(&min), ""),
    };
    let sig = format!("C19|{kind}|{shape}|{}|{detail}", wclass(operand_width(&min)));
    rep.violation(Violation { sig, what, case: json!({"kind": "roundtrip", "term": min.to_string(), "found_in": t.to_string()}), order });
}

/// failing round-trip terms per kind: the RT_SHRINK smallest in enumeration order
type RtFailures = BTreeMap<String, Vec<(u64, T)>>;
const RT_SHRINK: usize = 16;

fn rt_note(f: &mut RtFailures, kind: String, order: u64, t: &T) {
    let v = f.entry(kind).or_default();
    if v.len() >= RT_SHRINK && order >= v[v.len() - 1].0 {
        return;
    }
    let pos = v.partition_point(|x| x.0 < order);
    v.insert(pos, (order, t.clone()));
    v.truncate(RT_SHRINK);
}

fn run_roundtrip(rep: &Report, budget: &Budget) {
    let mut chunks: Vec<RtChunk> = vec![];
    for w in RT_WIDTHS {
        chunks.push(RtChunk::D1(w, false));
    }
    for w in [3u32, 4] {
        chunks.push(RtChunk::D1(w, true));
    }
    for w in RT_WIDTHS {
        for x in rt_inner(w) {
            chunks.push(RtChunk::D2(x, w));
        }
    }
    let stop = AtomicBool::new(false);
    let base = 1u64 << 40;
    let failures: std::sync::Mutex<RtFailures> = std::sync::Mutex::new(RtFailures::new());
    chunks.par_iter().enumerate().for_each(|(ci, ch)| {
        if stop.load(Ordering::Relaxed) {
            return;
        }
        if budget.exceeded() {
            stop.store(true, Ordering::Relaxed);
            return;
        }
        let terms = rt_chunk_terms(ch);
        let mut c: BTreeMap<String, u64> = BTreeMap::new();
        let mut hs = vec![];
        let mut bad: Vec<(String, String, u64, T)> = vec![];
        for (ti, t) in terms.iter().enumerate() {
            let order = base + ((ci as u64) << 16) + ti as u64;
            let (f, changed) = rt_once(t);
            if let Some((kind, _)) = f {
                // nested extensions are a class of their own (kept apart so that they cannot mask others)
                let key = if has_nested_ext(t) { format!("{kind}|nested-ext") } else { kind.clone() };
                *c.entry(format!("roundtrip_failing:{key}")).or_default() += 1;
                bad.push((key, kind, order, t.clone()));
            }
            hs.push(hash64(&t.to_string()));
            *c.entry("evaluations".into()).or_default() += 1;
            *c.entry("roundtrip_terms".into()).or_default() += 1;
            *c.entry(format!("roundtrip_op:{}", t.op_name())).or_default() += 1;
            *c.entry(format!("roundtrip_operators:{}", t.size() - count_ext(t))).or_default() += 1;
            if changed {
                *c.entry("roundtrip_result_differs_syntactically".into()).or_default() += 1;
            }
            if has_nested_ext(t) {
                *c.entry("roundtrip_nested_ext_terms".into()).or_default() += 1;
            }
            if order % 50_021 == 0 {
                rep.sample(json!({"roundtrip_term": t.to_string()}));
            }
        }
        rep.merge_counts(&c);
        rep.distinct_hashes(&hs);
        if !bad.is_empty() {
            let mut f = failures.lock().unwrap();
            for (key, kind, order, t) in bad {
                rt_note(&mut f, format!("{key}\u{1}{kind}"), order, &t);
            }
        }
    });
    // deterministic reporting: the smallest failing terms per kind are shrunk
    let f = failures.into_inner().unwrap();
    let todo: Vec<(String, u64, T)> = f.into_iter().flat_map(|(k, v)| v.into_iter().map(move |(o, t)| (k.split('\u{1}').nth(1).unwrap().to_string(), o, t))).collect();
    todo.par_iter().for_each(|(kind, order, t)| rt_report(t, kind, *order, rep));
    if stop.load(Ordering::Relaxed) {
        rep.cap_hit("budget: round-trip sweep not completed");
    } else {
        // vacuity guard (enumerator side): every operator at the root, one- and two-operator terms
        for op in RT_OPS {
            if rep.get(&format!("roundtrip_op:{}", op.name())) == 0 {
                eprintln!("C19 machinery: vacuity guard: operator {} never at the root of a round-trip term", op.name());
                std::process::exit(2);
            }
        }
        if rep.get("roundtrip_operators:1") == 0 || rep.get("roundtrip_operators:2") == 0 {
            eprintln!("C19 machinery: vacuity guard: round-trip terms with one and with two operators expected");
            std::process::exit(2);
        }
    }
}

fn count_ext(t: &T) -> usize {
    let here = matches!(t, T::ZExt(..) | T::SExt(..)) as usize;
    here + t.kids().iter().map(|k| count_ext(k)).sum::<usize>()
}

// ------------------------------------------------------------------------------------------

pub fn run(opts: &Opts, rep: &Report) {
    let tier = tier_of(opts);
    let budget = Budget::new(opts.budget_s);
    run_roundtrip(rep, &budget);
    run_rules(tier, rep, &budget);
}

pub fn replay(case: &Value, rep: &Report) {
    match case["kind"].as_str() {
        Some("roundtrip") => {
            let t = parse_t(case["term"].as_str().expect("term")).expect("parse term");
            if let (Some((kind, _)), _) = rt_once(&t) {
                rt_report(&t, &kind, 0, rep);
            }
        }
        Some("rule") => {
            let name = case["rule"].as_str().expect("rule");
            let rules = create_rewrites();
            let Some(r) = rules.iter().find(|r| r.name() == name) else {
                eprintln!("C19 replay: no rule named {name}");
                std::process::exit(2);
            };
            let spec = analyze_rule(r);
            let mut vals = vec![];
            for (v, _) in spec.vars.iter() {
                vals.push(case["assign"][v.to_string()].as_u64().expect("assignment of every variable") as u32);
            }
            let asg: Vec<(Var, u32)> = spec.vars.iter().zip(vals.iter()).map(|((v, _), x)| (*v, *x)).collect();
            if !r.eval_condition(&asg) {
                println!("[C19] replay: side condition of {name} is false for {}; instance is skipped by the check", show_asg(&asg));
                return;
            }
            if let Outcome::Fails { kind, what } = check_instance(r, &spec, &asg) {
                let mut f = RuleFailures::new();
                note_failure(&mut f, &spec, &vals, &kind, what, 0);
                report_rule_failures(rep, &spec, &f);
            }
        }
        _ => {
            eprintln!("C19 replay: unknown case kind");
            std::process::exit(2);
        }
    }
}
