//! C06 — concrete evaluation follows SMT-LIB bit-vector and array semantics.

use crate::stages;
use baa::{BitVecOps, BitVecValue};
use patronus::expr::{Context, ExprRef, SymbolValueStore, eval_array_expr, eval_bv_expr, eval_expr};
use pvcore::bv::{Arr, Bv, Val};
use pvcore::evalref::*;
use pvcore::run::*;
use pvcore::sweep::*;
use pvcore::terms::*;
use rustc_hash::FxHashMap;
use serde_json::{Value, json};

pub const EXH_BITS: u64 = 8;
pub const ASSIGN_CAP: usize = 1200;

pub fn run(opts: &Opts, rep: &Report) {
    let tier = match opts.mode {
        Mode::Run(t) => t,
        _ => unreachable!(),
    };
    let budget = Budget::new(opts.budget_s);
    let st = stages(tier, opts.seed, false, true);
    run_stages(&st, rep, &budget, &|t| !t.contains_divrem(), &|t, order| check_term(t, order, rep, true));
    let _ = finish_meta;
    finish_meta(rep);
}

fn finish_meta(rep: &Report) {
    let _ = rep;
}

pub fn meta(rep: &mut Report) {
    rep.rule = "terms T1/T2(/T3) over all implemented operators (no div/rem), every universe of widths listed under coverage.stages; each term is evaluated by patronus (eval_expr / eval_bv_expr / eval_array_expr; SymbolValueStore, slice-of-pairs and FxHashMap stores; sparse and dense array values) under every assignment of its symbols (exhaustive when the symbols total <= 8 bits, otherwise the full product of the boundary alphabet Bnd) and compared with the num-bigint reference evaluator; result canonicity (raw words, is_equal, interning) and short-circuit on every inner node are checked. distinct_nontrivial = distinct terms with at least one operator whose evaluation completed under at least one assignment".into();
    rep.assumptions = vec![
        "reference semantics pvcore::bv (num-bigint), self-checked against a bit-level implementation at widths 1-3 at start".into(),
        "values wider than 8 bits in total are drawn from the boundary alphabet only".into(),
        "terms have at most 2 (quick) / 3 (thorough, narrow) operators".into(),
    ];
}

pub fn replay(case: &Value, rep: &Report) {
    let t = parse_t(case["term"].as_str().expect("term")).expect("parse term");
    let _ = check_term(&t, 0, rep, false);
}

fn store_for(ctx: &mut Context, syms: &[(String, Ty)], vals: &[Val], dense: bool) -> (SymbolValueStore, Vec<ExprRef>) {
    let mut st = SymbolValueStore::default();
    let mut refs = vec![];
    for ((n, ty), v) in syms.iter().zip(vals.iter()) {
        let e = T::Sym(n.clone(), *ty).build(ctx);
        refs.push(e);
        match v {
            Val::B(b) => st.define_bv(e, &bv_to_baa(b)),
            Val::A(a) => st.define_array(e, arr_to_baa(a, dense)),
        }
    }
    (st, refs)
}

/// outcome of checking one term: None = fine, Some((class, what, detail))
fn check_once(t: &T, with_extras: bool) -> Option<(String, String)> {
    let mut ctx = Context::default();
    let e = t.build(&mut ctx);
    let syms = t.symbols();
    let (asg, _exh) = assignments(&syms, EXH_BITS, ASSIGN_CAP);
    let is_bv = matches!(t.ty(), Ty::Bv(_));
    for (ai, vals) in asg.iter().enumerate() {
        let env = make_env(&mut ctx, &syms, vals);
        let expected = eval_ref(&ctx, e, &env);
        for dense in [false, true] {
            if dense && !syms.iter().any(|(_, t)| matches!(t, Ty::Arr(..))) {
                continue;
            }
            let (st, _) = store_for(&mut ctx, &syms, vals, dense);
            let got = catch(|| eval_expr(&ctx, &st, e));
            let got = match got {
                Ok(v) => v,
                Err(p) => {
                    return Some((
                        format!("panic|{}", p.file()),
                        format!("eval_expr panicked at {}: {} on {} with {}", p.short_loc(), p.msg, t, show_assignment(&syms, vals)),
                    ));
                }
            };
            // canonical form first (raw words)
            if let baa::Value::BitVec(b) = &got {
                let raw = Bv::from_words(b.width(), b.words());
                if !raw.is_canonical() || b.words().len() != (b.width().div_ceil(64) as usize) {
                    return Some((
                        "noncanonical".into(),
                        format!("result of {} has bits above its width: words {:?} width {} with {}", t, b.words(), b.width(), show_assignment(&syms, vals)),
                    ));
                }
            }
            let gv = baa_to_val(&got);
            if gv != expected {
                let rel = match (t, vals.len()) {
                    (T::Bin(..), 2) if vals[0] == vals[1] => "|eq-operands",
                    _ => "",
                };
                return Some((
                    format!("value{rel}"),
                    format!("{} evaluates to {} but SMT-LIB semantics gives {} with {}", t, gv.show(), expected.show(), show_assignment(&syms, vals)),
                ));
            }
            if let (baa::Value::BitVec(b), Val::B(exp)) = (&got, &expected) {
                let rebuilt = bv_to_baa(exp);
                if !b.is_equal(&rebuilt) || !rebuilt.is_equal(b) {
                    return Some(("canon-is_equal".into(), format!("result of {} does not compare equal to the canonical value {}", t, exp.show())));
                }
                let r1 = ctx.bv_lit(b);
                let r2 = ctx.bv_lit(&rebuilt);
                if r1 != r2 {
                    return Some(("canon-intern".into(), format!("result of {} interns to a different literal than the canonical value {}", t, exp.show())));
                }
            }
        }
        if with_extras && ai < 24 {
            // typed entry points and the alternative value stores
            let (st, refs) = store_for(&mut ctx, &syms, vals, false);
            if is_bv {
                let r = catch(|| eval_bv_expr(&ctx, &st, e));
                match r {
                    Ok(b) => {
                        if Val::B(baa_to_bv(&b)) != expected {
                            return Some(("value-eval_bv_expr".into(), format!("eval_bv_expr of {} differs from reference with {}", t, show_assignment(&syms, vals))));
                        }
                    }
                    Err(p) => return Some((format!("panic-eval_bv_expr|{}", p.file()), format!("eval_bv_expr panicked: {} on {}", p.msg, t))),
                }
            } else {
                let r = catch(|| eval_array_expr(&ctx, &st, e));
                match r {
                    Ok(a) => {
                        if Val::A(baa_to_arr(&a)) != expected {
                            return Some(("value-eval_array_expr".into(), format!("eval_array_expr of {} differs from reference with {}", t, show_assignment(&syms, vals))));
                        }
                    }
                    Err(p) => return Some((format!("panic-eval_array_expr|{}", p.file()), format!("eval_array_expr panicked: {} on {}", p.msg, t))),
                }
            }
            // store histories: a SymbolValueStore whose symbols were first defined with OTHER values (all bits
            // flipped, so wide symbols have their upper words set) and then updated in reverse order through
            // update_bv / update_array / update; then cleared and re-defined in reverse order
            {
                let other: Vec<Val> = vals
                    .iter()
                    .map(|v| match v {
                        Val::B(b) => Val::B(b.not()),
                        Val::A(a) => {
                            let m = pvcore::bv::mask(a.dw);
                            Val::A(Arr { iw: a.iw, dw: a.dw, default: &m ^ &a.default, map: a.map.iter().map(|(k, d)| (k.clone(), &m ^ d)).collect() })
                        }
                    })
                    .collect();
                let (mut st, refs) = store_for(&mut ctx, &syms, &other, false);
                for (i, (r, v)) in refs.iter().zip(vals.iter()).enumerate().rev() {
                    match v {
                        Val::B(b) if i % 2 == 0 => st.update_bv(*r, &bv_to_baa(b)),
                        Val::B(b) => st.update(*r, baa::Value::BitVec(bv_to_baa(b))),
                        Val::A(a) if i % 2 == 0 => st.update_array(*r, arr_to_baa(a, false)),
                        Val::A(a) => st.update(*r, baa::Value::Array(arr_to_baa(a, true))),
                    }
                }
                match catch(|| eval_expr(&ctx, &st, e)) {
                    Ok(v) => {
                        if baa_to_val(&v) != expected {
                            return Some((
                                "value-store-updated".into(),
                                format!("eval_expr of {} over a SymbolValueStore whose symbols were defined with other values and then updated to {} gives {} instead of {}", t, show_assignment(&syms, vals), baa_to_val(&v).show(), expected.show()),
                            ));
                        }
                    }
                    Err(p) => return Some((format!("panic-store-updated|{}", p.file()), format!("eval_expr over an updated SymbolValueStore panicked: {} on {}", p.msg, t))),
                }
                st.clear();
                for (r, v) in refs.iter().zip(vals.iter()).rev() {
                    match v {
                        Val::B(b) => st.define_bv(*r, &bv_to_baa(b)),
                        Val::A(a) => st.define_array(*r, arr_to_baa(a, false)),
                    }
                }
                match catch(|| eval_expr(&ctx, &st, e)) {
                    Ok(v) => {
                        if baa_to_val(&v) != expected {
                            return Some(("value-store-cleared".into(), format!("eval_expr of {} over a cleared and re-defined SymbolValueStore differs from the reference with {}", t, show_assignment(&syms, vals))));
                        }
                    }
                    Err(p) => return Some((format!("panic-store-cleared|{}", p.file()), format!("eval_expr over a cleared and re-defined SymbolValueStore panicked: {} on {}", p.msg, t))),
                }
            }
            if syms.iter().all(|(_, t)| matches!(t, Ty::Bv(_))) {
                let pairs: Vec<(ExprRef, BitVecValue)> = refs.iter().zip(vals.iter()).map(|(r, v)| (*r, bv_to_baa(v.bv()))).collect();
                let map: FxHashMap<ExprRef, BitVecValue> = pairs.iter().cloned().collect();
                let r1 = catch(|| eval_expr(&ctx, pairs.as_slice(), e));
                let r2 = catch(|| eval_expr(&ctx, &map, e));
                // the order of a value list is the caller's business: reversed and rotated lists are the same store
                let mut rev = pairs.clone();
                rev.reverse();
                let mut rot = pairs.clone();
                if !rot.is_empty() {
                    rot.rotate_left(1);
                }
                let r3 = catch(|| eval_expr(&ctx, rev.as_slice(), e));
                let r4 = catch(|| eval_expr(&ctx, rot.as_slice(), e));
                for (nm, r) in [("pairs", r1), ("fxhashmap", r2), ("pairs-reversed", r3), ("pairs-rotated", r4)] {
                    match r {
                        Ok(v) => {
                            if baa_to_val(&v) != expected {
                                return Some((format!("value-store-{nm}"), format!("eval_expr over a {nm} store differs on {} with {}", t, show_assignment(&syms, vals))));
                            }
                        }
                        Err(p) => return Some((format!("panic-store-{nm}|{}", p.file()), format!("eval_expr over a {nm} store panicked: {} on {}", p.msg, t))),
                    }
                }
            }
        }
    }
    // short-circuit: supply a value for each inner node, no values for symbols only below it
    if with_extras {
        if let Some(r) = check_short_circuit(t) {
            return Some(r);
        }
    }
    None
}

fn syms_outside<'a>(t: &'a T, skip: &T, out: &mut Vec<(String, Ty)>) {
    if std::ptr::eq(t, skip) || t == skip {
        return;
    }
    if let T::Sym(n, ty) = t {
        if !out.iter().any(|(m, _)| m == n) {
            out.push((n.clone(), *ty));
        }
    }
    for k in t.kids() {
        syms_outside(k, skip, out);
    }
}

fn check_short_circuit(t: &T) -> Option<(String, String)> {
    for inner in t.kids() {
        if inner.is_leaf() {
            continue;
        }
        let mut ctx = Context::default();
        let e = t.build(&mut ctx);
        let ie = inner.build(&mut ctx);
        if ie == e {
            continue;
        }
        // the builders may have normalised the inner node away; only test when it is a real sub-node
        if !nodes_of(&ctx, &[e]).contains(&ie) {
            continue;
        }
        let mut outside = vec![];
        syms_outside(t, inner, &mut outside);
        let ity = inner.ty();
        let ivals = value_alphabet(ity, ity.bits() <= 3, true);
        let (asg, _) = assignments(&outside, 6, 64);
        for iv in ivals.iter() {
            for vals in asg.iter() {
                let mut env = make_env(&mut ctx, &outside, vals);
                env.insert(ie, iv.clone());
                let expected = eval_ref(&ctx, e, &env);
                let (mut st, _) = store_for(&mut ctx, &outside, vals, false);
                match iv {
                    Val::B(b) => st.define_bv(ie, &bv_to_baa(b)),
                    Val::A(a) => st.define_array(ie, arr_to_baa(a, false)),
                }
                match catch(|| eval_expr(&ctx, &st, e)) {
                    Ok(v) => {
                        if baa_to_val(&v) != expected {
                            return Some((
                                "shortcircuit-value".into(),
                                format!("with inner node {} bound to {} the evaluation of {} gives {} instead of {}", inner, iv.show(), t, baa_to_val(&v).show(), expected.show()),
                            ));
                        }
                    }
                    Err(p) => {
                        return Some((
                            format!("shortcircuit-panic|{}", p.file()),
                            format!("with inner node {} bound to a value, evaluating {} panicked: {} ({})", inner, t, p.msg, p.short_loc()),
                        ));
                    }
                }
                // history: the same store is cleared and only the symbols are defined again (every symbol of the
                // term, those below the inner node with boundary values): nothing of the earlier binding of the
                // inner node may survive the clear
                let all_syms = t.symbols();
                let below: Vec<(String, Ty)> = all_syms.iter().filter(|s| !outside.contains(s)).cloned().collect();
                for pick_last in [false, true] {
                    let bvals: Vec<Val> = below
                        .iter()
                        .map(|(_, ty)| {
                            let a = value_alphabet(*ty, ty.bits() <= 3, true);
                            if pick_last { a.last().unwrap().clone() } else { a.first().unwrap().clone() }
                        })
                        .collect();
                    st.clear();
                    let mut env2 = make_env(&mut ctx, &outside, vals);
                    for ((n, ty), v) in below.iter().zip(bvals.iter()) {
                        let r = T::Sym(n.clone(), *ty).build(&mut ctx);
                        env2.insert(r, v.clone());
                    }
                    for (r, v) in env2.iter() {
                        match v {
                            Val::B(b) => st.define_bv(*r, &bv_to_baa(b)),
                            Val::A(a) => st.define_array(*r, arr_to_baa(a, false)),
                        }
                    }
                    let expected2 = eval_ref(&ctx, e, &env2);
                    match catch(|| eval_expr(&ctx, &st, e)) {
                        Ok(v) => {
                            if baa_to_val(&v) != expected2 {
                                return Some((
                                    "shortcircuit-survives-clear".into(),
                                    format!("a store that held a value for inner node {} of {}, was cleared and got only the symbols defined again gives {} instead of {}", inner, t, baa_to_val(&v).show(), expected2.show()),
                                ));
                            }
                        }
                        Err(p) => {
                            return Some((
                                format!("shortcircuit-clear-panic|{}", p.file()),
                                format!("a store that held a value for inner node {} of {}, was cleared and got the symbols defined again panics: {} ({})", inner, t, p.msg, p.short_loc()),
                            ));
                        }
                    }
                }
            }
        }
    }
    None
}

/// Is a wrong result of evaluating `t` under `st` exactly the known defect of baa's sparse
/// `ArrayValue::is_equal` (it compares representations, not contents)? Evidence required: `t` is an
/// equality of arrays that patronus evaluates to 0 although it holds, patronus evaluates BOTH operands to the
/// right contents, and `is_equal` on those two values says "different".
fn is_sparse_is_equal_defect(ctx: &mut Context, st: &SymbolValueStore, t: &T, env: &pvcore::evalref::Env) -> bool {
    let T::Bin(Bin::Eq, a, b) = t else { return false };
    if !matches!(a.ty(), Ty::Arr(..)) {
        return false;
    }
    let (ae, be) = (a.build(ctx), b.build(ctx));
    let (wa, wb) = (eval_ref(ctx, ae, env), eval_ref(ctx, be, env));
    if wa != wb {
        return false; // the equality does not hold: not a false negative
    }
    let ga = catch(|| eval_array_expr(ctx, st, ae));
    let gb = catch(|| eval_array_expr(ctx, st, be));
    match (ga, gb) {
        (Ok(ga), Ok(gb)) => Val::A(baa_to_arr(&ga)) == wa && Val::A(baa_to_arr(&gb)) == wb && !ga.is_equal(&gb).unwrap_or(true),
        _ => false,
    }
}

/// Some(true): every failing configuration of `t` (plain evaluation and inner-node short circuit) is the
/// sparse-is_equal defect; Some(false): some failure is something else; None: nothing fails
fn only_sparse_is_equal_failures(t: &T) -> Option<bool> {
    let T::Bin(Bin::Eq, a, _) = t else { return None };
    if !matches!(a.ty(), Ty::Arr(..)) {
        return None;
    }
    let mut any = false;
    let mut ctx = Context::default();
    let e = t.build(&mut ctx);
    let syms = t.symbols();
    let (asg, _) = assignments(&syms, EXH_BITS, ASSIGN_CAP);
    for vals in asg.iter() {
        let env = make_env(&mut ctx, &syms, vals);
        let expected = eval_ref(&ctx, e, &env);
        for dense in [false, true] {
            let (st, _) = store_for(&mut ctx, &syms, vals, dense);
            let ok = matches!(catch(|| eval_expr(&ctx, &st, e)), Ok(v) if baa_to_val(&v) == expected);
            if !ok {
                any = true;
                if !is_sparse_is_equal_defect(&mut ctx, &st, t, &env) {
                    return Some(false);
                }
            }
        }
    }
    for inner in t.kids() {
        if inner.is_leaf() {
            continue;
        }
        let ie = inner.build(&mut ctx);
        if ie == e || !nodes_of(&ctx, &[e]).contains(&ie) {
            continue;
        }
        let mut outside = vec![];
        syms_outside(t, inner, &mut outside);
        let ity = inner.ty();
        let ivals = value_alphabet(ity, ity.bits() <= 3, true);
        let (asg, _) = assignments(&outside, 6, 64);
        for iv in ivals.iter() {
            for vals in asg.iter() {
                let mut env = make_env(&mut ctx, &outside, vals);
                env.insert(ie, iv.clone());
                let expected = eval_ref(&ctx, e, &env);
                let (mut st, _) = store_for(&mut ctx, &outside, vals, false);
                match iv {
                    Val::B(b) => st.define_bv(ie, &bv_to_baa(b)),
                    Val::A(a) => st.define_array(ie, arr_to_baa(a, false)),
                }
                let ok = matches!(catch(|| eval_expr(&ctx, &st, e)), Ok(v) if baa_to_val(&v) == expected);
                if !ok {
                    any = true;
                    if !is_sparse_is_equal_defect(&mut ctx, &st, t, &env) {
                        return Some(false);
                    }
                }
            }
        }
    }
    if any { Some(true) } else { None }
}

/// descriptor of the failing set of a shrunk binary term (keeps distinct defects of one operator apart)
fn failing_descriptor(min: &T) -> &'static str {
    if let T::Bin(_, a, b) = min {
        if a == b {
            return "same-operand";
        }
        if a.is_leaf() && b.is_leaf() {
            let syms = min.symbols();
            if syms.len() == 2 && syms[0].1 == syms[1].1 {
                // every failing assignment has equal operand values?
                let mut ctx = Context::default();
                let e = min.build(&mut ctx);
                let (asg, _) = assignments(&syms, EXH_BITS, ASSIGN_CAP);
                let mut any = false;
                let mut all_eq = true;
                for vals in asg.iter() {
                    let env = make_env(&mut ctx, &syms, vals);
                    let expected = eval_ref(&ctx, e, &env);
                    let (st, _) = store_for(&mut ctx, &syms, vals, false);
                    let ok = match catch(|| eval_expr(&ctx, &st, e)) {
                        Ok(v) => baa_to_val(&v) == expected,
                        Err(_) => false,
                    };
                    if !ok {
                        any = true;
                        if vals[0] != vals[1] {
                            all_eq = false;
                        }
                    }
                }
                if any && all_eq {
                    return "eq-operands-only";
                }
            }
        }
    }
    ""
}

pub fn check_term(t: &T, order: u64, rep: &Report, _count: bool) -> bool {
    match check_once(t, true) {
        None => !t.is_leaf(),
        Some(_) => {
            let min = shrink(t, &|s| !s.contains_divrem() && check_once(s, true).is_some());
            let (class, what) = check_once(&min, true).unwrap_or_else(|| check_once(t, true).unwrap());
            let class = class.replace("|eq-operands", "");
            let mut d = failing_descriptor(&min);
            let mut shape = sig_shape(&min);
            // one call site, one finding: whatever the operands look like, a false "different" from baa's
            // sparse is_equal on operands that patronus evaluated correctly is the same defect
            if (class == "value" || class == "shortcircuit-value") && only_sparse_is_equal_failures(&min) == Some(true) {
                d = "content-equal-operands";
                shape = "eq[arr]".to_string();
            }
            let sig = format!("C06|{}|{}|{}|{}", class, shape, wclass(operand_width(&min)), d);
            rep.violation(Violation { sig, what, case: json!({"term": min.to_string(), "found_in": t.to_string()}), order });
            false
        }
    }
}
