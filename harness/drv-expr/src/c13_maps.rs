//! C13 (containers) — explicit-state search over operation histories of the simplifier's result caches.
//!
//! The caches behind `Simplifier` are `SparseExprMap<Option<ExprRef>>` and `DenseExprMetaData<Option<ExprRef>>`
//! driven through `Index` / `IndexMut` and `get_fixed_point` (meta.rs). Cache transparency of the simplifier
//! rests on three facts about them, checked here directly on the real containers against a `BTreeMap`:
//!
//! * default-value semantics: a key that was never written reads as `None`, whatever was written elsewhere
//!   (dense: beyond and below the vector's length; sparse: entries created by a mutable access that wrote nothing);
//! * `get_fixed_point(m, k)` returns the end of the chain starting at `k` (`None` when the chain runs into an
//!   unset key) and leaves the fixed point of *every* key unchanged (it may compress paths);
//! * the dense and the sparse container are observationally the same map.
//!
//! State = the reference map plus what the real objects reveal about their representation (dense length,
//! sparse touched keys) so that representation-dependent futures are not merged away. Breadth-first, every
//! operation of the alphabet from every state, all observations after every transition.

use patronus::expr::{DenseExprMetaData, DenseExprSet, ExprMap, ExprRef, ExprSet, SparseExprMap, SparseExprSet, get_fixed_point};
use pvcore::run::*;
use serde_json::json;
use std::collections::{BTreeMap, BTreeSet, HashSet, VecDeque};

type RefMap = BTreeMap<usize, Option<usize>>;

#[derive(Clone, Debug, PartialEq, Eq, Hash, PartialOrd, Ord)]
pub enum Op {
    /// `m[k] = v`
    Set(usize, Option<usize>),
    /// `let _ = &mut m[k];` — a mutable access that writes nothing
    Touch(usize),
    /// `get_fixed_point(&mut m, k)`
    Gfp(usize),
    /// continue on a clone, drop the original
    Clone,
}

impl Op {
    fn show(&self) -> String {
        match self {
            Op::Set(k, None) => format!("m[{k}]=None"),
            Op::Set(k, Some(v)) => format!("m[{k}]=Some({v})"),
            Op::Touch(k) => format!("&mut m[{k}]"),
            Op::Gfp(k) => format!("get_fixed_point(m,{k})"),
            Op::Clone => "m=m.clone()".into(),
        }
    }
}

fn r(k: usize) -> ExprRef {
    k.into()
}

/// end of the chain from k in the reference map: Ok(Some(fixed point)), Ok(None) (runs into an unset key),
/// Err(()) when the chain enters a cycle longer than one (get_fixed_point's precondition excludes it)
fn chase(m: &RefMap, k: usize) -> Result<Option<usize>, ()> {
    let mut cur = k;
    let mut seen = BTreeSet::new();
    loop {
        if !seen.insert(cur) {
            return Err(());
        }
        match m.get(&cur).cloned().flatten() {
            None => return Ok(None),
            Some(n) if n == cur => return Ok(Some(cur)),
            Some(n) => cur = n,
        }
    }
}

fn read_all<M: ExprMap<Option<ExprRef>>>(m: &M, probe: &[usize]) -> Vec<Option<usize>> {
    probe.iter().map(|k| m[r(*k)].map(usize::from)).collect()
}

fn non_default<M: ExprMap<Option<ExprRef>>>(m: &M) -> BTreeSet<usize> {
    m.non_default_value_keys().map(usize::from).collect()
}

fn iter_non_default<M: ExprMap<Option<ExprRef>>>(m: &M) -> BTreeMap<usize, Option<usize>> {
    m.iter().filter(|(_, v)| v.is_some()).map(|(k, v)| (usize::from(k), v.map(usize::from))).collect()
}

#[derive(Clone)]
struct Node {
    refm: RefMap,
    dense: DenseExprMetaData<Option<ExprRef>>,
    sparse: SparseExprMap<Option<ExprRef>>,
    hist: Vec<Op>,
}

fn state_key(n: &Node) -> (Vec<(usize, Option<usize>)>, usize, Vec<usize>) {
    let refm: Vec<(usize, Option<usize>)> = n.refm.iter().filter(|(_, v)| v.is_some()).map(|(k, v)| (*k, *v)).collect();
    let dense_len = n.dense.clone().into_vec().len();
    let mut touched: Vec<usize> = n.sparse.iter().map(|(k, _)| usize::from(k)).collect();
    touched.sort();
    (refm, dense_len, touched)
}

/// apply `op` to a copy of the node; Err((class, what)) on a discrepancy
fn step(n: &Node, op: &Op, probe: &[usize]) -> Result<Option<Node>, (String, String)> {
    let mut nx = n.clone();
    nx.hist.push(op.clone());
    let hist = || nx_hist(&nx.hist);
    fn nx_hist(h: &[Op]) -> String {
        h.iter().map(|o| o.show()).collect::<Vec<_>>().join("; ")
    }
    match op {
        Op::Set(k, v) => {
            nx.refm.insert(*k, *v);
            nx.dense[r(*k)] = v.map(r);
            nx.sparse[r(*k)] = v.map(r);
        }
        Op::Touch(k) => {
            let _ = &mut nx.dense[r(*k)];
            let _ = &mut nx.sparse[r(*k)];
        }
        Op::Clone => {
            nx.dense = n.dense.clone();
            nx.sparse = n.sparse.clone();
        }
        Op::Gfp(k) => {
            let want = match chase(&n.refm, *k) {
                Ok(w) => w,
                Err(()) => return Ok(None), // outside the precondition: not an enabled operation
            };
            let before: Vec<Result<Option<usize>, ()>> = probe.iter().map(|q| chase(&n.refm, *q)).collect();
            let gd = match catch(|| {
                let mut d = nx.dense.clone();
                let g = get_fixed_point(&mut d, r(*k));
                (d, g)
            }) {
                Ok((d, g)) => {
                    nx.dense = d;
                    g
                }
                Err(p) => return Err(("gfp-panic|dense".into(), format!("get_fixed_point panicked on the dense cache after [{}]: {} ({})", hist(), p.msg, p.short_loc()))),
            };
            let gs = match catch(|| {
                let mut d = nx.sparse.clone();
                let g = get_fixed_point(&mut d, r(*k));
                (d, g)
            }) {
                Ok((d, g)) => {
                    nx.sparse = d;
                    g
                }
                Err(p) => return Err(("gfp-panic|sparse".into(), format!("get_fixed_point panicked on the sparse cache after [{}]: {} ({})", hist(), p.msg, p.short_loc()))),
            };
            for (kind, g) in [("dense", gd), ("sparse", gs)] {
                if g.map(usize::from) != want {
                    return Err((format!("gfp-result|{kind}"), format!("[{}] returns {:?} on the {kind} cache, the chain from {k} ends in {:?}", hist(), g.map(usize::from), want)));
                }
            }
            // the call may compress paths: the new contents become the reference, but every key keeps its fixed point
            let after_d = read_all(&nx.dense, probe);
            let after_s = read_all(&nx.sparse, probe);
            if after_d != after_s {
                return Err(("gfp-dense-vs-sparse".into(), format!("[{}] leaves different contents in the dense and the sparse cache: {:?} vs {:?} (keys {:?})", hist(), after_d, after_s, probe)));
            }
            for (q, v) in probe.iter().zip(after_d.iter()) {
                if v.is_some() || nx.refm.contains_key(q) {
                    nx.refm.insert(*q, *v);
                }
            }
            for (q, b) in probe.iter().zip(before.iter()) {
                let a = chase(&nx.refm, *q);
                if *b != a {
                    return Err(("gfp-changes-fixed-point".into(), format!("[{}] changes the fixed point of key {q} from {:?} to {:?}", hist(), b, a)));
                }
            }
        }
    }
    // observations after the transition
    let want: Vec<Option<usize>> = probe.iter().map(|k| nx.refm.get(k).cloned().flatten()).collect();
    let want_keys: BTreeSet<usize> = nx.refm.iter().filter(|(_, v)| v.is_some()).map(|(k, _)| *k).collect();
    let want_map: BTreeMap<usize, Option<usize>> = nx.refm.iter().filter(|(_, v)| v.is_some()).map(|(k, v)| (*k, *v)).collect();
    let got_d = read_all(&nx.dense, probe);
    let got_s = read_all(&nx.sparse, probe);
    if got_d != want {
        return Err(("read|dense".into(), format!("after [{}] the dense cache reads {:?} at keys {:?}, expected {:?}", hist(), got_d, probe, want)));
    }
    if got_s != want {
        return Err(("read|sparse".into(), format!("after [{}] the sparse cache reads {:?} at keys {:?}, expected {:?}", hist(), got_s, probe, want)));
    }
    if non_default(&nx.dense) != want_keys {
        return Err(("keys|dense".into(), format!("after [{}] non_default_value_keys of the dense cache is {:?}, expected {:?}", hist(), non_default(&nx.dense), want_keys)));
    }
    if non_default(&nx.sparse) != want_keys {
        return Err(("keys|sparse".into(), format!("after [{}] non_default_value_keys of the sparse cache is {:?}, expected {:?}", hist(), non_default(&nx.sparse), want_keys)));
    }
    if iter_non_default(&nx.dense) != want_map {
        return Err(("iter|dense".into(), format!("after [{}] iter() of the dense cache yields {:?} as set entries, expected {:?}", hist(), iter_non_default(&nx.dense), want_map)));
    }
    if iter_non_default(&nx.sparse) != want_map {
        return Err(("iter|sparse".into(), format!("after [{}] iter() of the sparse cache yields {:?} as set entries, expected {:?}", hist(), iter_non_default(&nx.sparse), want_map)));
    }
    Ok(Some(nx))
}

/// breadth-first search; keys: the written keys, probe: keys that are read after every step (a superset)
fn search_maps(keys: &[usize], probe: &[usize], max_depth: usize, rep: &Report, budget: &Budget) -> bool {
    let mut ops: Vec<Op> = vec![];
    for k in keys {
        ops.push(Op::Set(*k, None));
        for v in keys {
            ops.push(Op::Set(*k, Some(*v)));
        }
        ops.push(Op::Touch(*k));
        ops.push(Op::Gfp(*k));
    }
    ops.push(Op::Clone);
    let init = Node { refm: RefMap::new(), dense: DenseExprMetaData::default(), sparse: SparseExprMap::default(), hist: vec![] };
    let mut seen = HashSet::new();
    seen.insert(state_key(&init));
    let mut frontier = VecDeque::from([init]);
    let (mut states, mut transitions, mut gfps, mut compress) = (1u64, 0u64, 0u64, 0u64);
    let mut max_seen_depth = 0usize;
    let mut complete = true;
    while let Some(n) = frontier.pop_front() {
        if n.hist.len() >= max_depth {
            continue;
        }
        if budget.exceeded() {
            complete = false;
            break;
        }
        for op in ops.iter() {
            match step(&n, op, probe) {
                Ok(None) => {}
                Ok(Some(nx)) => {
                    transitions += 1;
                    if let Op::Gfp(_) = op {
                        gfps += 1;
                        if nx.refm != n.refm {
                            compress += 1;
                        }
                    }
                    if seen.insert(state_key(&nx)) {
                        states += 1;
                        max_seen_depth = max_seen_depth.max(nx.hist.len());
                        frontier.push_back(nx);
                    }
                }
                Err((class, what)) => {
                    let mut h = n.hist.clone();
                    h.push(op.clone());
                    rep.violation(Violation {
                        sig: format!("C13|containers|{class}|{}", match op {
                            Op::Set(..) => "set",
                            Op::Touch(_) => "touch",
                            Op::Gfp(_) => "get_fixed_point",
                            Op::Clone => "clone",
                        }),
                        what,
                        case: json!({"kind": "containers", "keys": keys, "probe": probe, "history": h.iter().map(|o| o.show()).collect::<Vec<_>>()}),
                        order: transitions,
                    });
                    return false;
                }
            }
        }
    }
    rep.add("container_states", states);
    rep.add("container_transitions", transitions);
    rep.add("container_get_fixed_point_calls", gfps);
    rep.add("container_get_fixed_point_calls_that_compressed_a_path", compress);
    rep.add("states", states);
    rep.add("transitions", transitions);
    rep.max("container_depth_reached", max_seen_depth as u64);
    if !complete {
        rep.cap_hit(&format!("budget: container search over keys {keys:?} cut short at depth {max_seen_depth}"));
    }
    // vacuity (enumerator side): chains of length >= 2 must have been chased
    if complete && compress == 0 {
        eprintln!("MACHINERY: C13 container search never compressed a path");
        std::process::exit(2);
    }
    true
}

/// the two set containers (visited sets of the traversals) against a BTreeSet: every subset of the key set is
/// a state, insert / remove / contains of every key from every state, return values compared
fn search_sets(keys: &[usize], rep: &Report) -> bool {
    #[derive(Clone)]
    struct S {
        r: BTreeSet<usize>,
        d: DenseExprSet,
        s: SparseExprSet,
        hist: Vec<String>,
    }
    let init = S { r: BTreeSet::new(), d: DenseExprSet::default(), s: SparseExprSet::default(), hist: vec![] };
    // the dense set's representation depends on the largest key ever inserted: part of the state key
    let mut seen: HashSet<(Vec<usize>, usize)> = HashSet::new();
    seen.insert((vec![], 0));
    let mut frontier = VecDeque::from([(init, 0usize)]);
    let (mut states, mut transitions) = (1u64, 0u64);
    while let Some((n, hi)) = frontier.pop_front() {
        for k in keys {
            for op in ["insert", "remove"] {
                let mut nx = n.clone();
                nx.hist.push(format!("{op}({k})"));
                let res = catch(|| if op == "insert" { (nx.r.insert(*k), nx.d.insert(r(*k)), nx.s.insert(r(*k))) } else { (nx.r.remove(k), nx.d.remove(&r(*k)), nx.s.remove(&r(*k))) });
                transitions += 1;
                let (want, gd, gs) = match res {
                    Ok(x) => x,
                    Err(p) => {
                        rep.violation(Violation { sig: format!("C13|containers|set-panic|{}|{op}", p.file()), what: format!("[{}] panics: {} ({})", nx.hist.join("; "), p.msg, p.short_loc()), case: json!({"kind": "containers-set", "keys": keys, "history": nx.hist}), order: transitions });
                        return false;
                    }
                };
                let mut bad: Option<(String, String)> = None;
                if gd != want {
                    bad = Some((format!("set-{op}-result|dense"), format!("[{}] returns {gd} on DenseExprSet, expected {want}", nx.hist.join("; "))));
                } else if gs != want {
                    bad = Some((format!("set-{op}-result|sparse"), format!("[{}] returns {gs} on SparseExprSet, expected {want}", nx.hist.join("; "))));
                } else {
                    for q in keys.iter().chain([5usize, 62, 66, 126, 129, 1000].iter()) {
                        let w = nx.r.contains(q);
                        if nx.d.contains(&r(*q)) != w {
                            bad = Some(("set-contains|dense".into(), format!("after [{}] DenseExprSet::contains({q}) is {}, expected {w}", nx.hist.join("; "), !w)));
                            break;
                        }
                        if nx.s.contains(&r(*q)) != w {
                            bad = Some(("set-contains|sparse".into(), format!("after [{}] SparseExprSet::contains({q}) is {}, expected {w}", nx.hist.join("; "), !w)));
                            break;
                        }
                    }
                }
                if let Some((class, what)) = bad {
                    rep.violation(Violation { sig: format!("C13|containers|{class}|{op}"), what, case: json!({"kind": "containers-set", "keys": keys, "history": nx.hist}), order: transitions });
                    return false;
                }
                let hi2 = if op == "insert" { hi.max(*k) } else { hi };
                if seen.insert((nx.r.iter().cloned().collect(), hi2)) {
                    states += 1;
                    frontier.push_back((nx, hi2));
                }
            }
        }
    }
    rep.add("container_set_states", states);
    rep.add("container_set_transitions", transitions);
    rep.add("states", states);
    rep.add("transitions", transitions);
    true
}

pub fn run(rep: &Report, thorough: bool, budget: &Budget) {
    // small dense key set: complete to a fixpoint of the state graph in quick
    let small: Vec<usize> = vec![0, 1, 2, 3];
    let probe_small: Vec<usize> = vec![0, 1, 2, 3, 4, 7, 70];
    if !search_maps(&small, &probe_small, usize::MAX, rep, budget) {
        return;
    }
    // keys far apart (dense resize, keys below the length that were never written)
    let wide: Vec<usize> = if thorough { vec![0, 2, 63, 64, 70] } else { vec![1, 64, 70] };
    let mut probe_wide: Vec<usize> = wide.clone();
    probe_wide.extend([3usize, 62, 65, 69, 71, 5000]);
    if !search_maps(&wide, &probe_wide, usize::MAX, rep, budget) {
        return;
    }
    let set_keys: Vec<usize> = if thorough { vec![0, 1, 63, 64, 65, 127, 128, 191, 192, 300] } else { vec![0, 1, 63, 64, 65, 127, 128, 300] };
    search_sets(&set_keys, rep);
}

pub fn replay(case: &serde_json::Value, rep: &Report) {
    // the searches are deterministic and small: re-run them; the same history is found again if it still fails
    let _ = case;
    let budget = Budget::new(600.0);
    run(rep, false, &budget);
}
