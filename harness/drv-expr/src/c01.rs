//! C01 — simplification preserves meaning and type (single expression, cached simplifier, whole system).

use crate::stages;
use patronus::expr::{Context, DenseExprMetaData, ExprRef, Simplifier, TypeCheck, simplify_single_expression};
use patronus::system::{State, TransitionSystem, transform::simplify_expressions};
use pvcore::bv::Val;
use pvcore::evalref::*;
use pvcore::run::*;
use pvcore::sweep::*;
use pvcore::terms::*;
use serde_json::{Value, json};

pub const EXH_BITS: u64 = 8;
pub const ASSIGN_CAP: usize = 1200;

pub fn meta(rep: &mut Report) {
    rep.rule = "terms T1/T2(/T3) over all 35 operators incl. arrays and div/rem, universes listed under coverage.stages; each term goes through simplify_single_expression, a Simplifier with the dense cache, and system::transform::simplify_expressions (term as output / bad / init / next of a one-state system); every result must have the input's type, type-check at every node (reference checker and patronus' own) and evaluate (reference evaluator) to the same value under every assignment (exhaustive when the symbols total <= 8 bits, else full product of the boundary alphabet). distinct_nontrivial = distinct terms for which the simplifier returned a reference different from its input (a rewrite fired)".into();
    rep.assumptions = vec![
        "reference semantics pvcore::bv (num-bigint), self-checked at start".into(),
        "values wider than 8 bits in total come from the boundary alphabet only".into(),
        "terms have at most 2 (quick) / 3 (thorough, narrow) operators".into(),
    ];
}

pub fn run(opts: &Opts, rep: &Report) {
    let tier = match opts.mode {
        Mode::Run(t) => t,
        _ => unreachable!(),
    };
    let budget = Budget::new(opts.budget_s);
    // bare leaves as roots (a state whose init / next is directly a symbol or a literal, an output that is an input)
    for (k, t) in leaf_roots().iter().enumerate() {
        rep.add("evaluations", 1);
        rep.add("leaf_roots", 1);
        check_term(t, (1u64 << 60) + k as u64, rep);
    }
    let st = stages(tier, opts.seed, true, true);
    run_stages(&st, rep, &budget, &|_| true, &|t, order| check_term(t, order, rep));
}

fn leaf_roots() -> Vec<T> {
    let mut out = vec![];
    for w in [1u32, 2, 8, 64, 65, 129] {
        out.push(T::Sym("a".into(), Ty::Bv(w)));
        out.push(T::Lit(pvcore::bv::Bv::zero(w)));
        out.push(T::Lit(pvcore::bv::Bv::ones(w)));
    }
    for (iw, dw) in [(1u32, 1u32), (1, 2), (2, 1)] {
        out.push(T::Sym("m".into(), Ty::Arr(iw, dw)));
        out.push(T::AConst(iw, Box::new(T::Lit(pvcore::bv::Bv::zero(dw)))));
        out.push(T::AConst(iw, Box::new(T::Sym("d".into(), Ty::Bv(dw)))));
    }
    out
}

pub fn replay(case: &Value, rep: &Report) {
    let t = parse_t(case["term"].as_str().expect("term")).expect("parse term");
    let _ = check_term(&t, 0, rep);
}

/// compare `orig` and `simp` (both in ctx) under all assignments of orig's symbols
fn equivalent(ctx: &mut Context, t: &T, orig: ExprRef, simp: ExprRef, via: &str) -> Option<(String, String)> {
    let ty_o = type_ref(ctx, orig).expect("generator produced an ill-typed term");
    match type_ref(ctx, simp) {
        Err(m) => return Some((format!("illtyped-{via}"), format!("{via}: simplified form of {t} is ill-typed: {m}"))),
        Ok(ty_s) => {
            if ty_s != ty_o {
                return Some((format!("type-changed-{via}"), format!("{via}: {t} has type {ty_o} but its simplified form has type {ty_s}")));
            }
        }
    }
    for n in nodes_of(ctx, &[simp]) {
        if let Err(e) = n.type_check(ctx) {
            return Some((format!("typecheck-{via}"), format!("{via}: a node of the simplified form of {t} fails patronus' type_check: {}", e.get_msg())));
        }
    }
    let new_syms: Vec<ExprRef> = symbols_of(ctx, &[simp]).into_iter().filter(|s| !symbols_of(ctx, &[orig]).contains(s)).collect();
    if !new_syms.is_empty() {
        return Some((format!("new-symbol-{via}"), format!("{via}: simplified form of {t} mentions a symbol the input does not")));
    }
    let syms = t.symbols();
    let (asg, _) = assignments(&syms, EXH_BITS, ASSIGN_CAP);
    for vals in asg.iter() {
        let env = make_env(ctx, &syms, vals);
        let a = eval_ref(ctx, orig, &env);
        let b = eval_ref(ctx, simp, &env);
        if a != b {
            use patronus::expr::SerializableIrNode;
            return Some((
                format!("value-{via}"),
                format!(
                    "{via}: {t} simplifies to `{}` which evaluates to {} instead of {} with {}",
                    simp.serialize_to_str(ctx),
                    b.show(),
                    a.show(),
                    show_assignment(&syms, vals)
                ),
            ));
        }
    }
    None
}

/// returns (failure, rewrite_fired)
fn check_once(t: &T) -> (Option<(String, String)>, bool) {
    let mut ctx = Context::default();
    let e = t.build(&mut ctx);
    // 1. single expression
    let r = match catch(|| simplify_single_expression(&mut ctx, e)) {
        Ok(r) => r,
        Err(p) => return (Some((format!("panic-single|{}", p.file()), format!("simplify_single_expression panicked on {t}: {} ({})", p.msg, p.short_loc()))), false),
    };
    let fired = r != e;
    if fired && let Some(f) = equivalent(&mut ctx, t, e, r, "single") {
        return (Some(f), fired);
    }
    // 2. dense cache
    let mut ctx2 = Context::default();
    let e2 = t.build(&mut ctx2);
    let rd = match catch(|| Simplifier::new(DenseExprMetaData::default()).simplify(&mut ctx2, e2)) {
        Ok(r) => r,
        Err(p) => return (Some((format!("panic-dense|{}", p.file()), format!("Simplifier(dense cache) panicked on {t}: {} ({})", p.msg, p.short_loc()))), fired),
    };
    // contexts were built identically, so references are comparable; only re-check when different
    if (rd != r || e2 != e) && rd != e2 && let Some(f) = equivalent(&mut ctx2, t, e2, rd, "dense") {
        return (Some(f), fired);
    }
    // 3. whole system: the term in every slot its type allows
    let mut ctx3 = Context::default();
    let e3 = t.build(&mut ctx3);
    let ty = t.ty();
    let mut sys = TransitionSystem::new("c01".to_string());
    let st_sym = T::Sym("st_c01".into(), ty).build(&mut ctx3);
    // an input for every symbol of the term so that the system is well-formed
    for (n, sty) in t.symbols() {
        let s = T::Sym(n, sty).build(&mut ctx3);
        sys.add_input(&ctx3, s);
    }
    sys.add_state(&ctx3, State { symbol: st_sym, init: Some(e3), next: Some(e3) });
    if let Ty::Bv(w) = ty {
        sys.add_output(&mut ctx3, "out".into(), e3);
        if w == 1 {
            sys.bad_states.push(e3);
            sys.constraints.push(e3);
        }
    }
    if let Err(p) = catch(|| simplify_expressions(&mut ctx3, &mut sys)) {
        return (Some((format!("panic-system|{}", p.file()), format!("simplify_expressions panicked on a system containing {t}: {} ({})", p.msg, p.short_loc()))), fired);
    }
    let mut slots: Vec<(&str, ExprRef)> = vec![];
    slots.push(("init", sys.states[0].init.unwrap_or(e3)));
    match sys.states[0].next {
        Some(n) => slots.push(("next", n)),
        None => return (Some(("system-dropped-next".into(), format!("simplify_expressions removed the next function of a state whose next is {t}"))), fired),
    }
    if sys.states[0].init.is_none() {
        return (Some(("system-dropped-init".into(), format!("simplify_expressions removed the init expression of a state whose init is {t}"))), fired);
    }
    if sys.states[0].symbol != st_sym {
        return (Some(("system-state-symbol".into(), format!("simplify_expressions changed the state symbol of a system containing {t}"))), fired);
    }
    for o in sys.outputs.iter() {
        slots.push(("output", o.expr));
    }
    for b in sys.bad_states.iter() {
        slots.push(("bad", *b));
    }
    for c in sys.constraints.iter() {
        slots.push(("constraint", *c));
    }
    let mut seen = vec![];
    for (slot, s) in slots {
        if s == e3 || seen.contains(&s) {
            continue;
        }
        seen.push(s);
        if let Some((c, w)) = equivalent(&mut ctx3, t, e3, s, "system") {
            return (Some((c, format!("[slot {slot}] {w}"))), fired);
        }
    }
    (None, fired)
}

fn failing_descriptor(min: &T) -> &'static str {
    if let T::Bin(_, a, b) = min {
        if a == b {
            return "same-operand";
        }
        if a.is_leaf() && b.is_leaf() {
            let syms = min.symbols();
            if syms.len() == 2 && syms[0].1 == syms[1].1 {
                let mut ctx = Context::default();
                let e = min.build(&mut ctx);
                if let Ok(r) = catch(|| simplify_single_expression(&mut ctx, e)) {
                    let (asg, _) = assignments(&syms, EXH_BITS, ASSIGN_CAP);
                    let (mut any, mut all_eq) = (false, true);
                    for vals in asg.iter() {
                        let env = make_env(&mut ctx, &syms, vals);
                        let ok = catch(|| eval_ref(&ctx, e, &env) == eval_ref(&ctx, r, &env)).unwrap_or(false);
                        if !ok {
                            any = true;
                            if vals[0] != vals[1] {
                                all_eq = false;
                            }
                        }
                    }
                    if any && all_eq {
                        return "eq-operands-only";
                    }
                }
            }
        }
    }
    ""
}

/// literal-operand class for signatures (which literal shapes trigger the failure)
fn lit_class(min: &T) -> String {
    let mut out = vec![];
    for (i, k) in min.kids().iter().enumerate() {
        if let T::Lit(b) = k {
            let c = if b.is_zero() {
                "0".to_string()
            } else if *b == pvcore::bv::Bv::ones(b.w) {
                "ones".to_string()
            } else if b.v.bits() > 32 {
                "ge2^32".to_string()
            } else if b.v >= num_bigint::BigUint::from(b.w) {
                "ge-width".to_string()
            } else {
                "other".to_string()
            };
            out.push(format!("arg{i}={c}"));
        }
    }
    out.join(",")
}

pub fn check_term(t: &T, order: u64, rep: &Report) -> bool {
    let (f, fired) = check_once(t);
    if f.is_some() {
        let min = shrink(t, &|s| check_once(s).0.is_some());
        let (class, what) = check_once(&min).0.unwrap_or_else(|| check_once(t).0.unwrap());
        let d = failing_descriptor(&min);
        let sig = format!("C01|{}|{}|{}|{}|{}", class, sig_shape(&min), wclass(operand_width(&min)), lit_class(&min), d);
        rep.violation(Violation { sig, what, case: json!({"term": min.to_string(), "found_in": t.to_string()}), order });
        return false;
    }
    fired
}

#[allow(dead_code)]
fn _unused(_: Val) {}
