//! C12 — expression references are canonical and stable.
//!
//! Explicit-state search over construction histories of a real `patronus::expr::Context`.
//! A history is a sequence of *pool elements*; every element is executed through the public
//! `Context` / `Builder` constructors (each such invocation is one transition) and every returned
//! reference is compared with a shadow map kept by the harness:
//!
//!   structural key (operator, operand refs, parameters | width + numeric value | name + type)
//!       -> first reference returned for it
//!
//! same key => same reference; new key => a reference never seen before; the node behind the
//! reference decodes to exactly that key, has the expected type and name; after every call every
//! earlier reference of the history still holds an `Expr` equal to the one recorded, decodes to
//! the same key, has the same type and symbol name; `get_true()/get_false()` stay the references
//! of the 1-bit literals 1/0; normalising builders return their argument.
//!
//! Histories start from a fresh context, from a context holding 1 unrelated insertion, and from a
//! context holding 70 000 unrelated insertions (more than 2^16 strings and expressions); after
//! the last call the whole history is rebuilt (every call must be a hit on the same reference).

use crate::c12_lits::{Kind, Route};
use baa::BitVecOps;
use num_bigint::BigUint;
use patronus::expr::{ArrayType, Context, Expr, ExprRef, StringRef, Type, TypeCheck};
use pvcore::bv::Bv;
use pvcore::run::*;
use pvcore::terms::Ty;
use rayon::prelude::*;
use rustc_hash::{FxHashMap, FxHashSet};
use serde_json::{Value, json};
use std::collections::BTreeMap;
use std::sync::Arc;

// ------------------------------------------------------------------------------------ keys

/// Structural key of a node: everything the property calls "the same expression".
#[derive(Clone, PartialEq, Eq, Hash, Debug)]
pub enum Key {
    Sym(String, Ty),
    /// width, numeric value (raw: a non-canonical stored value decodes to a number >= 2^width)
    Lit(u32, BigUint),
    /// Expr variant, its parameters, operand references
    Op(&'static str, [u32; 2], Vec<ExprRef>),
}

impl Key {
    pub fn show(&self) -> String {
        match self {
            Key::Sym(n, Ty::Bv(w)) => format!("symbol {n}:bv<{w}>"),
            Key::Sym(n, Ty::Arr(i, d)) => format!("symbol {n}:bv<{i}>->bv<{d}>"),
            Key::Lit(w, v) => format!("literal {w}'d{v}"),
            Key::Op(t, p, k) => format!("{t}{p:?}{k:?}"),
        }
    }
    pub fn variant(&self) -> &'static str {
        match self {
            Key::Sym(_, Ty::Bv(_)) => "BVSymbol",
            Key::Sym(_, Ty::Arr(..)) => "ArraySymbol",
            Key::Lit(..) => "BVLiteral",
            Key::Op(t, ..) => t,
        }
    }
}

pub const ALL_VARIANTS: [&str; 35] = [
    "BVSymbol", "BVLiteral", "BVZeroExt", "BVSignExt", "BVSlice", "BVNot", "BVNegate", "BVEqual", "BVImplies",
    "BVGreater", "BVGreaterSigned", "BVGreaterEqual", "BVGreaterEqualSigned", "BVConcat", "BVAnd", "BVOr", "BVXor",
    "BVShiftLeft", "BVArithmeticShiftRight", "BVShiftRight", "BVAdd", "BVMul", "BVSignedDiv", "BVUnsignedDiv",
    "BVSignedMod", "BVSignedRem", "BVUnsignedRem", "BVSub", "BVArrayRead", "BVIte", "ArraySymbol", "ArrayConstant",
    "ArrayEqual", "ArrayStore", "ArrayIte",
];

/// Decode the node behind `r` into its structural key, reading only public fields.
pub fn decode(ctx: &Context, r: ExprRef) -> Key {
    use Expr::*;
    let op = |t: &'static str, p: [u32; 2], k: Vec<ExprRef>| Key::Op(t, p, k);
    match ctx[r].clone() {
        BVSymbol { name, width } => Key::Sym(ctx[name].clone(), Ty::Bv(width)),
        ArraySymbol { name, index_width, data_width } => Key::Sym(ctx[name].clone(), Ty::Arr(index_width, data_width)),
        BVLiteral(v) => {
            let x = v.get(ctx);
            // the width is taken from the index, the words from the store
            Key::Lit(v.width(), Bv::from_words(x.width(), x.words()).v)
        }
        BVZeroExt { e, by, width } => op("BVZeroExt", [by, width], vec![e]),
        BVSignExt { e, by, width } => op("BVSignExt", [by, width], vec![e]),
        BVSlice { e, hi, lo } => op("BVSlice", [hi, lo], vec![e]),
        BVNot(e, w) => op("BVNot", [w, 0], vec![e]),
        BVNegate(e, w) => op("BVNegate", [w, 0], vec![e]),
        BVEqual(a, b) => op("BVEqual", [0, 0], vec![a, b]),
        BVImplies(a, b) => op("BVImplies", [0, 0], vec![a, b]),
        BVGreater(a, b) => op("BVGreater", [0, 0], vec![a, b]),
        BVGreaterSigned(a, b, w) => op("BVGreaterSigned", [w, 0], vec![a, b]),
        BVGreaterEqual(a, b) => op("BVGreaterEqual", [0, 0], vec![a, b]),
        BVGreaterEqualSigned(a, b, w) => op("BVGreaterEqualSigned", [w, 0], vec![a, b]),
        BVConcat(a, b, w) => op("BVConcat", [w, 0], vec![a, b]),
        BVAnd(a, b, w) => op("BVAnd", [w, 0], vec![a, b]),
        BVOr(a, b, w) => op("BVOr", [w, 0], vec![a, b]),
        BVXor(a, b, w) => op("BVXor", [w, 0], vec![a, b]),
        BVShiftLeft(a, b, w) => op("BVShiftLeft", [w, 0], vec![a, b]),
        BVArithmeticShiftRight(a, b, w) => op("BVArithmeticShiftRight", [w, 0], vec![a, b]),
        BVShiftRight(a, b, w) => op("BVShiftRight", [w, 0], vec![a, b]),
        BVAdd(a, b, w) => op("BVAdd", [w, 0], vec![a, b]),
        BVMul(a, b, w) => op("BVMul", [w, 0], vec![a, b]),
        BVSignedDiv(a, b, w) => op("BVSignedDiv", [w, 0], vec![a, b]),
        BVUnsignedDiv(a, b, w) => op("BVUnsignedDiv", [w, 0], vec![a, b]),
        BVSignedMod(a, b, w) => op("BVSignedMod", [w, 0], vec![a, b]),
        BVSignedRem(a, b, w) => op("BVSignedRem", [w, 0], vec![a, b]),
        BVUnsignedRem(a, b, w) => op("BVUnsignedRem", [w, 0], vec![a, b]),
        BVSub(a, b, w) => op("BVSub", [w, 0], vec![a, b]),
        BVArrayRead { array, index, width } => op("BVArrayRead", [width, 0], vec![array, index]),
        BVIte { cond, tru, fals } => op("BVIte", [0, 0], vec![cond, tru, fals]),
        ArrayConstant { e, index_width, data_width } => op("ArrayConstant", [index_width, data_width], vec![e]),
        ArrayEqual(a, b) => op("ArrayEqual", [0, 0], vec![a, b]),
        ArrayStore { array, index, data } => op("ArrayStore", [0, 0], vec![array, index, data]),
        ArrayIte { cond, tru, fals } => op("ArrayIte", [0, 0], vec![cond, tru, fals]),
    }
}

/// `decode(ctx, r) == *key` without allocating for symbols and literals (used on the 70 000
/// unrelated insertions)
pub fn key_matches(ctx: &Context, r: ExprRef, key: &Key) -> bool {
    match (&ctx[r], key) {
        (Expr::BVSymbol { name, width }, Key::Sym(n, Ty::Bv(w))) => width == w && ctx[*name] == *n,
        (Expr::ArraySymbol { name, index_width, data_width }, Key::Sym(n, Ty::Arr(i, d))) => index_width == i && data_width == d && ctx[*name] == *n,
        (Expr::BVLiteral(v), Key::Lit(w, num)) => {
            let x = v.get(ctx);
            if v.width() != *w || x.width() != *w {
                return false;
            }
            let words = x.words();
            let mut n = words.len();
            while n > 0 && words[n - 1] == 0 {
                n -= 1;
            }
            num.iter_u64_digits().len() == n && num.iter_u64_digits().zip(words.iter()).all(|(a, b)| a == *b)
        }
        (_, Key::Op(..)) => decode(ctx, r) == *key,
        _ => false,
    }
}

// ------------------------------------------------------------------------------------ calls

#[derive(Clone, Copy, Debug, PartialEq, Eq)]
pub enum Op {
    Not, Neg, ZExt(u32), SExt(u32), Slice(u32, u32),
    Eq, Implies, Ugt, Sgt, Uge, Sge, Concat,
    And, Or, Xor, Shl, Ashr, Lshr, Add, Mul, Sdiv, Udiv, Smod, Srem, Urem, Sub,
    Read, Ite, AConst(u32), Store,
    // convenience constructors that expand into several nodes
    Distinct, Xor3, Majority, Extend(u32, bool), ZeroArray(u32, u32),
}

impl Op {
    pub fn name(&self) -> String {
        match self {
            Op::ZExt(b) => format!("zext{b}"),
            Op::SExt(b) => format!("sext{b}"),
            Op::Slice(h, l) => format!("slice{h}_{l}"),
            Op::AConst(i) => format!("aconst{i}"),
            Op::Extend(b, s) => format!("extend{b}{}", if *s { "s" } else { "u" }),
            Op::ZeroArray(i, d) => format!("zeroarray{i}_{d}"),
            o => format!("{o:?}").to_lowercase(),
        }
    }
}

#[derive(Clone, Copy, Debug, PartialEq, Eq)]
pub enum SymVia {
    /// `bv_symbol` / `array_symbol`
    Direct,
    /// `string` then `symbol(StringRef, Type)`
    StrRef,
    /// `build(|b| b.bv_symbol(..))` / `build(|b| b.symbol(..))`
    Builder,
}

/// One pool element: a small construction executed bottom-up through the public constructors.
#[derive(Clone, Debug, PartialEq)]
pub enum N {
    Sym(&'static str, Ty, SymVia),
    Str(&'static str),
    Lit(u32, Kind, Route),
    Op(Op, Vec<N>, bool),
    /// result of the k-th previous pool element of the history (1 = the one just before)
    Prev(usize),
}

impl N {
    pub fn name(&self) -> String {
        match self {
            N::Sym(n, Ty::Bv(w), v) => format!("sym.{n}.{w}.{v:?}"),
            N::Sym(n, Ty::Arr(i, d), v) => format!("asym.{n}.{i}.{d}.{v:?}"),
            N::Str(s) => format!("str.{s}"),
            N::Lit(w, k, r) => format!("lit.{w}.{k:?}.{r:?}"),
            N::Op(o, kids, b) => {
                format!("{}{}({})", if *b { "B." } else { "" }, o.name(), kids.iter().map(|k| k.name()).collect::<Vec<_>>().join(","))
            }
            N::Prev(k) => format!("prev{k}"),
        }
    }
    /// short class of the outermost call (for signatures)
    pub fn kind(&self) -> String {
        match self {
            N::Sym(_, Ty::Bv(_), v) => format!("bv_symbol[{v:?}]"),
            N::Sym(_, Ty::Arr(..), v) => format!("array_symbol[{v:?}]"),
            N::Str(_) => "string".into(),
            N::Lit(_, _, r) => format!("lit:{r:?}"),
            N::Op(o, _, b) => format!("{}{}", if *b { "builder." } else { "" }, format!("{o:?}").split('(').next().unwrap().to_lowercase()),
            N::Prev(_) => "prev".into(),
        }
    }
}

/// expected shape of a returned reference
pub enum Exp {
    /// a leaf whose reference is known
    Ref(ExprRef, Ty),
    /// a literal of the given width and number
    Lit(u32, BigUint),
    Sym(String, Ty),
    /// Expr variant, parameters, operands, result type
    Node(&'static str, [u32; 2], Vec<Exp>, Ty),
}

impl Exp {
    pub fn ty(&self) -> Ty {
        match self {
            Exp::Ref(_, t) | Exp::Sym(_, t) | Exp::Node(_, _, _, t) => *t,
            Exp::Lit(w, _) => Ty::Bv(*w),
        }
    }
}

fn bw(t: Ty) -> u32 {
    match t {
        Ty::Bv(w) => w,
        Ty::Arr(..) => panic!("harness: bit-vector operand expected"),
    }
}

/// What the property says a constructor call must produce (own type computation).
/// `None` = the call is not applicable to operands of these types.
pub fn expected(op: Op, k: Vec<Exp>) -> Option<Exp> {
    let t: Vec<Ty> = k.iter().map(|x| x.ty()).collect();
    let all_bv = t.iter().all(|x| matches!(x, Ty::Bv(_)));
    let node = |tag: &'static str, p: [u32; 2], k: Vec<Exp>, ty: Ty| Some(Exp::Node(tag, p, k, ty));
    let same2 = |t: &[Ty]| t.len() == 2 && all_bv && t[0] == t[1];
    match op {
        Op::Not | Op::Neg => {
            if !(t.len() == 1 && all_bv) {
                return None;
            }
            let w = bw(t[0]);
            node(if op == Op::Not { "BVNot" } else { "BVNegate" }, [w, 0], k, Ty::Bv(w))
        }
        Op::ZExt(by) | Op::SExt(by) | Op::Extend(by, _) => {
            if !(t.len() == 1 && all_bv) {
                return None;
            }
            let w = bw(t[0]);
            if by == 0 {
                // normalising builder: returns its argument
                return k.into_iter().next();
            }
            let signed = matches!(op, Op::SExt(_) | Op::Extend(_, true));
            node(if signed { "BVSignExt" } else { "BVZeroExt" }, [by, w + by], k, Ty::Bv(w + by))
        }
        Op::Slice(hi, lo) => {
            if !(t.len() == 1 && all_bv) {
                return None;
            }
            let w = bw(t[0]);
            if hi >= w || lo > hi {
                return None;
            }
            if lo == 0 && hi + 1 == w {
                return k.into_iter().next();
            }
            node("BVSlice", [hi, lo], k, Ty::Bv(hi - lo + 1))
        }
        Op::Eq => {
            if t.len() != 2 || t[0] != t[1] {
                return None;
            }
            node(if all_bv { "BVEqual" } else { "ArrayEqual" }, [0, 0], k, Ty::Bv(1))
        }
        Op::Distinct => {
            if t.len() != 2 || t[0] != t[1] {
                return None;
            }
            let eq = Exp::Node(if all_bv { "BVEqual" } else { "ArrayEqual" }, [0, 0], k, Ty::Bv(1));
            node("BVNot", [1, 0], vec![eq], Ty::Bv(1))
        }
        Op::Implies => {
            if !(same2(&t) && t[0] == Ty::Bv(1)) {
                return None;
            }
            node("BVImplies", [0, 0], k, Ty::Bv(1))
        }
        Op::Ugt | Op::Uge => {
            if !same2(&t) {
                return None;
            }
            node(if op == Op::Ugt { "BVGreater" } else { "BVGreaterEqual" }, [0, 0], k, Ty::Bv(1))
        }
        Op::Sgt | Op::Sge => {
            if !same2(&t) {
                return None;
            }
            let w = bw(t[0]);
            node(if op == Op::Sgt { "BVGreaterSigned" } else { "BVGreaterEqualSigned" }, [w, 0], k, Ty::Bv(1))
        }
        Op::Concat => {
            if !(t.len() == 2 && all_bv) {
                return None;
            }
            let w = bw(t[0]) + bw(t[1]);
            node("BVConcat", [w, 0], k, Ty::Bv(w))
        }
        Op::And | Op::Or | Op::Xor | Op::Shl | Op::Ashr | Op::Lshr | Op::Add | Op::Mul | Op::Sdiv | Op::Udiv | Op::Smod
        | Op::Srem | Op::Urem | Op::Sub => {
            if !same2(&t) {
                return None;
            }
            let w = bw(t[0]);
            let tag = match op {
                Op::And => "BVAnd",
                Op::Or => "BVOr",
                Op::Xor => "BVXor",
                Op::Shl => "BVShiftLeft",
                Op::Ashr => "BVArithmeticShiftRight",
                Op::Lshr => "BVShiftRight",
                Op::Add => "BVAdd",
                Op::Mul => "BVMul",
                Op::Sdiv => "BVSignedDiv",
                Op::Udiv => "BVUnsignedDiv",
                Op::Smod => "BVSignedMod",
                Op::Srem => "BVSignedRem",
                Op::Urem => "BVUnsignedRem",
                _ => "BVSub",
            };
            node(tag, [w, 0], k, Ty::Bv(w))
        }
        Op::Xor3 => {
            if !(t.len() == 3 && all_bv && t[0] == t[1] && t[1] == t[2]) {
                return None;
            }
            let w = bw(t[0]);
            let mut it = k.into_iter();
            let (a, b, c) = (it.next().unwrap(), it.next().unwrap(), it.next().unwrap());
            let x = Exp::Node("BVXor", [w, 0], vec![a, b], Ty::Bv(w));
            node("BVXor", [w, 0], vec![x, c], Ty::Bv(w))
        }
        Op::Majority => {
            // only used on leaves (references): a&b, a&c, b&c, or, or
            if !(t.len() == 3 && all_bv && t[0] == t[1] && t[1] == t[2]) {
                return None;
            }
            let w = bw(t[0]);
            let r: Vec<(ExprRef, Ty)> = k
                .iter()
                .map(|x| match x {
                    Exp::Ref(r, t) => (*r, *t),
                    _ => panic!("harness: majority takes leaves"),
                })
                .collect();
            let leaf = |i: usize| Exp::Ref(r[i].0, r[i].1);
            let and = |i: usize, j: usize| Exp::Node("BVAnd", [w, 0], vec![leaf(i), leaf(j)], Ty::Bv(w));
            let x = Exp::Node("BVOr", [w, 0], vec![and(0, 1), and(0, 2)], Ty::Bv(w));
            node("BVOr", [w, 0], vec![x, and(1, 2)], Ty::Bv(w))
        }
        Op::Read => {
            match (t.first(), t.get(1)) {
                (Some(Ty::Arr(i, d)), Some(Ty::Bv(x))) if i == x && t.len() == 2 => {
                    let d = *d;
                    node("BVArrayRead", [d, 0], k, Ty::Bv(d))
                }
                _ => None,
            }
        }
        Op::Ite => {
            if !(t.len() == 3 && t[0] == Ty::Bv(1) && t[1] == t[2]) {
                return None;
            }
            let ty = t[1];
            node(if matches!(ty, Ty::Bv(_)) { "BVIte" } else { "ArrayIte" }, [0, 0], k, ty)
        }
        Op::AConst(iw) => {
            if !(t.len() == 1 && all_bv) {
                return None;
            }
            let d = bw(t[0]);
            node("ArrayConstant", [iw, d], k, Ty::Arr(iw, d))
        }
        Op::ZeroArray(iw, dw) => {
            if !k.is_empty() {
                return None;
            }
            node("ArrayConstant", [iw, dw], vec![Exp::Lit(dw, BigUint::from(0u32))], Ty::Arr(iw, dw))
        }
        Op::Store => match (t.first(), t.get(1), t.get(2)) {
            (Some(Ty::Arr(i, d)), Some(Ty::Bv(x)), Some(Ty::Bv(y))) if i == x && d == y && t.len() == 3 => {
                let ty = t[0];
                node("ArrayStore", [0, 0], k, ty)
            }
            _ => None,
        },
    }
}

/// the real constructor call (directly on the context or through `Context::build` + `Builder`)
#[allow(unused_mut)]
pub fn real_call(ctx: &mut Context, op: Op, a: &[ExprRef], via_builder: bool) -> ExprRef {
    macro_rules! c {
        ($m:ident ( $($x:expr),* )) => {
            if via_builder { ctx.build(|mut b| b.$m($($x),*)) } else { ctx.$m($($x),*) }
        };
    }
    match op {
        Op::Not => c!(not(a[0])),
        Op::Neg => c!(negate(a[0])),
        Op::ZExt(by) => c!(zero_extend(a[0], by)),
        Op::SExt(by) => c!(sign_extend(a[0], by)),
        Op::Extend(by, s) => c!(extend(a[0], by, s)),
        Op::Slice(hi, lo) => c!(slice(a[0], hi, lo)),
        Op::Eq => c!(equal(a[0], a[1])),
        Op::Distinct => ctx.distinct(a[0], a[1]),
        Op::Implies => c!(implies(a[0], a[1])),
        Op::Ugt => c!(greater(a[0], a[1])),
        Op::Sgt => c!(greater_signed(a[0], a[1])),
        Op::Uge => c!(greater_or_equal(a[0], a[1])),
        Op::Sge => c!(greater_or_equal_signed(a[0], a[1])),
        Op::Concat => c!(concat(a[0], a[1])),
        Op::And => c!(and(a[0], a[1])),
        Op::Or => c!(or(a[0], a[1])),
        Op::Xor => c!(xor(a[0], a[1])),
        Op::Shl => c!(shift_left(a[0], a[1])),
        Op::Ashr => c!(arithmetic_shift_right(a[0], a[1])),
        Op::Lshr => c!(shift_right(a[0], a[1])),
        Op::Add => c!(add(a[0], a[1])),
        Op::Mul => c!(mul(a[0], a[1])),
        Op::Sdiv => c!(signed_div(a[0], a[1])),
        Op::Udiv => c!(div(a[0], a[1])),
        Op::Smod => c!(signed_mod(a[0], a[1])),
        Op::Srem => c!(signed_remainder(a[0], a[1])),
        Op::Urem => c!(remainder(a[0], a[1])),
        Op::Sub => c!(sub(a[0], a[1])),
        Op::Xor3 => c!(xor3(a[0], a[1], a[2])),
        Op::Majority => c!(majority(a[0], a[1], a[2])),
        Op::Read => c!(array_read(a[0], a[1])),
        Op::Ite => c!(ite(a[0], a[1], a[2])),
        Op::AConst(iw) => c!(array_const(a[0], iw)),
        Op::ZeroArray(iw, dw) => c!(zero_array(ArrayType { index_width: iw, data_width: dw })),
        Op::Store => c!(array_store(a[0], a[1], a[2])),
    }
}

// ------------------------------------------------------------------------------------ failures

#[derive(Clone, Debug)]
pub struct Fail {
    /// dup | alias | content | type | name | normalise | unstable-* | true-false | string-* | rebuild |
    /// noncanonical-lit | panic|<file> | filler-*
    pub class: String,
    /// kind of the call that was being checked
    pub kind: String,
    pub w: u32,
    pub detail: String,
    pub what: String,
}

fn fail(class: &str, what: String) -> Fail {
    Fail { class: class.into(), kind: String::new(), w: 0, detail: String::new(), what }
}

fn ty_w(t: Ty) -> u32 {
    match t {
        Ty::Bv(w) => w,
        Ty::Arr(_, d) => d,
    }
}

// ------------------------------------------------------------------------------------ pre-filled contexts

/// A context holding `level` unrelated insertions (fresh symbol names f<i>, 32-bit literals
/// 1000+i, `not` nodes) together with what the harness recorded about them.
pub struct Base {
    pub level: usize,
    pub ctx: Context,
    pub recs: Vec<(ExprRef, Expr, Type, Key)>,
    pub refs: FxHashSet<ExprRef>,
    pub strs: FxHashSet<StringRef>,
    pub calls: u64,
}

fn filler_insert(
    ctx: &mut Context,
    prefix: &str,
    i: usize,
    mut seen: impl FnMut(ExprRef) -> bool,
    out: &mut Vec<(ExprRef, Expr, Type, Key)>,
    strs: &mut FxHashSet<StringRef>,
) -> Result<u64, Fail> {
    let mut calls = 0;
    let mut rec = |ctx: &Context, r: ExprRef, key: Key, what: &str| -> Result<(), Fail> {
        if seen(r) {
            return Err(fail("filler-alias", format!("unrelated insertion {what} returned the reference {r:?} of an existing different expression")));
        }
        let d = decode(ctx, r);
        if d != key {
            return Err(fail("filler-content", format!("unrelated insertion {what} produced a node that decodes to {}", d.show())));
        }
        out.push((r, ctx[r].clone(), r.get_type(ctx), key));
        Ok(())
    };
    let name = format!("{prefix}{i}");
    let s = ctx.bv_symbol(&name, 16);
    calls += 1;
    rec(ctx, s, Key::Sym(name.clone(), Ty::Bv(16)), &format!("bv_symbol({name},16)"))?;
    if let Expr::BVSymbol { name: sr, .. } = ctx[s] {
        if !strs.insert(sr) {
            return Err(fail("filler-string", format!("fresh name {name} got the StringRef of an earlier different string")));
        }
    }
    if i % 4 == 1 {
        let v = if prefix == "f" { 1000 } else { 1_000_000_000 } + i as u64;
        let l = ctx.bv_lit(&baa::BitVecValue::from_u64(v, 32));
        calls += 1;
        rec(ctx, l, Key::Lit(32, BigUint::from(v)), &format!("literal 32'd{v}"))?;
        if i % 8 == 5 {
            // a multi-word value (the value store keeps those in a separate table)
            let big = (BigUint::from(v) << 64usize) | BigUint::from(v);
            let l = ctx.bv_lit(&pvcore::evalref::bv_to_baa(&Bv::new(96, big.clone())));
            calls += 1;
            rec(ctx, l, Key::Lit(96, big), &format!("literal 96'd({v}<<64|{v})"))?;
        }
    }
    if i % 4 == 3 {
        let n = ctx.not(s);
        calls += 1;
        rec(ctx, n, Key::Op("BVNot", [16, 0], vec![s]), &format!("not({name})"))?;
    }
    Ok(calls)
}

impl Base {
    pub fn build(level: usize) -> Result<Base, Fail> {
        let mut ctx = Context::default();
        let (t, f) = (ctx.get_true(), ctx.get_false());
        let mut recs = vec![];
        let mut refs: FxHashSet<ExprRef> = FxHashSet::default();
        let mut strs = FxHashSet::default();
        let mut calls = 0;
        for i in 0..level {
            let before = recs.len();
            calls += filler_insert(&mut ctx, "f", i, |r| r == t || r == f || refs.contains(&r), &mut recs, &mut strs)?;
            // two insertions of one step must also differ from each other
            for k in before..recs.len() {
                if !refs.insert(recs[k].0) {
                    return Err(fail("filler-alias", format!("two different unrelated insertions of step {i} share reference {:?}", recs[k].0)));
                }
            }
        }
        Ok(Base { level, ctx, recs, refs, strs, calls })
    }
}

// ------------------------------------------------------------------------------------ one history on a real context

#[derive(Clone, Debug)]
struct Rec {
    r: ExprRef,
    key: Key,
    expr: Expr,
    ty: Type,
    name: Option<String>,
}

#[derive(Clone, Debug, Default)]
pub struct Stats {
    pub calls: u64,
    pub hits: u64,
    pub misses: u64,
    pub norm: u64,
    pub inapplicable: u64,
    pub variants: u64,
    pub max_index: usize,
    pub noncanon_inputs: u64,
}

pub struct Run<'a> {
    pub ctx: Context,
    base: &'a Base,
    map: FxHashMap<Key, ExprRef>,
    recs: Vec<Rec>,
    by_ref: FxHashMap<ExprRef, usize>,
    strs: Vec<(String, StringRef)>,
    t: ExprRef,
    f: ExprRef,
    pub st: Stats,
    /// unrelated insertions made after the history (before its rebuild)
    post: Vec<(ExprRef, Expr, Type, Key)>,
    post_refs: FxHashSet<ExprRef>,
    post_strs: FxHashSet<StringRef>,
    /// emulated oracle bug for self-tests of the check (never set in normal runs)
    pub sabotage: u32,
}

fn variant_bit(v: &str) -> u64 {
    1u64 << ALL_VARIANTS.iter().position(|x| *x == v).expect("variant")
}

impl<'a> Run<'a> {
    pub fn new(base: &'a Base) -> Result<Run<'a>, Fail> {
        let ctx = base.ctx.clone();
        let (t, f) = (ctx.get_true(), ctx.get_false());
        let mut run = Run { ctx, base, map: Default::default(), recs: vec![], by_ref: Default::default(), strs: vec![], t, f, st: Default::default(), post: vec![], post_refs: Default::default(), post_strs: Default::default(), sabotage: 0 };
        if t == f {
            return Err(fail("true-false", "get_true() and get_false() are the same reference".into()));
        }
        for (r, v) in [(f, 0u32), (t, 1u32)] {
            let key = Key::Lit(1, BigUint::from(v));
            let d = decode(&run.ctx, r);
            if d != key {
                return Err(fail("true-false", format!("get_{}() denotes {} in a fresh context", if v == 1 { "true" } else { "false" }, d.show())));
            }
            run.insert(r, key);
        }
        Ok(run)
    }

    fn insert(&mut self, r: ExprRef, key: Key) {
        let name = match &key {
            Key::Sym(n, _) => Some(n.clone()),
            _ => None,
        };
        self.map.insert(key.clone(), r);
        self.by_ref.insert(r, self.recs.len());
        self.recs.push(Rec { r, key, expr: self.ctx[r].clone(), ty: r.get_type(&self.ctx), name });
        self.st.max_index = self.st.max_index.max(usize::from(r));
    }

    fn check_key(&mut self, r: ExprRef, key: Key, ty: Ty, name: Option<&str>) -> Result<(), Fail> {
        self.st.variants |= variant_bit(key.variant());
        let lookup_key = if self.sabotage == 1 {
            // self-test: the shadow map forgets the width parameter of operator keys
            match &key {
                Key::Op(t, _, k) => Key::Op(t, [0, 0], k.clone()),
                k => k.clone(),
            }
        } else {
            key.clone()
        };
        match self.map.get(&lookup_key) {
            Some(old) => {
                if *old != r {
                    return Err(fail("dup", format!("building {} again returned {r:?}, but the same expression was {old:?} before", key.show())));
                }
                self.st.hits += 1;
            }
            None => {
                if let Some(i) = self.by_ref.get(&r) {
                    return Err(fail("alias", format!("building the new expression {} returned {r:?}, the reference of the different expression {}", key.show(), self.recs[*i].key.show())));
                }
                if self.base.refs.contains(&r) || self.post_refs.contains(&r) {
                    return Err(fail("alias", format!("building the new expression {} returned {r:?}, the reference of an unrelated earlier insertion", key.show())));
                }
                if lookup_key != key {
                    self.map.insert(lookup_key, r);
                }
                self.insert(r, key.clone());
                self.st.misses += 1;
            }
        }
        let d = decode(&self.ctx, r);
        if d != key {
            return Err(fail("content", format!("the reference {r:?} returned for {} indexes {}", key.show(), d.show())));
        }
        let got = r.get_type(&self.ctx);
        if got != ty.to_patronus() {
            return Err(fail("type", format!("{} has type {got} instead of {}", key.show(), ty.to_patronus())));
        }
        let n = self.ctx.get_symbol_name(r);
        if n != name {
            return Err(fail("name", format!("{} has symbol name {n:?} instead of {name:?}", key.show())));
        }
        Ok(())
    }

    fn resolve(&mut self, r: ExprRef, exp: &Exp, top: bool) -> Result<(), Fail> {
        match exp {
            Exp::Ref(x, _) => {
                if r != *x {
                    let class = if top { "normalise" } else { "content" };
                    return Err(fail(class, format!("expected the existing reference {x:?} ({}), got {r:?} ({})", decode(&self.ctx, *x).show(), decode(&self.ctx, r).show())));
                }
                Ok(())
            }
            Exp::Lit(w, v) => self.check_key(r, Key::Lit(*w, v.clone()), Ty::Bv(*w), None),
            Exp::Sym(n, ty) => self.check_key(r, Key::Sym(n.clone(), *ty), *ty, Some(n.as_str())),
            Exp::Node(tag, p, kids, ty) => {
                let d = decode(&self.ctx, r);
                let mut refs = vec![];
                for (i, k) in kids.iter().enumerate() {
                    match k {
                        Exp::Ref(x, _) => refs.push(*x),
                        inner => {
                            let ri = match &d {
                                Key::Op(_, _, dk) if dk.len() == kids.len() => dk[i],
                                other => return Err(fail("content", format!("expected a {tag} node with {} operands, the returned reference {r:?} indexes {}", kids.len(), other.show()))),
                            };
                            self.resolve(ri, inner, false)?;
                            refs.push(ri);
                        }
                    }
                }
                self.check_key(r, Key::Op(tag, *p, refs), *ty, None)
            }
        }
    }

    /// every earlier reference still denotes what it denoted
    fn sweep(&self) -> Result<(), Fail> {
        for rec in self.recs.iter() {
            if self.ctx[rec.r] != rec.expr {
                return Err(fail("unstable-expr", format!("reference {:?} held {:?} when it was returned and holds {:?} now", rec.r, rec.expr, self.ctx[rec.r])));
            }
            let d = decode(&self.ctx, rec.r);
            if d != rec.key {
                return Err(fail("unstable-key", format!("reference {:?} denoted {} when it was returned and denotes {} now", rec.r, rec.key.show(), d.show())));
            }
            let ty = rec.r.get_type(&self.ctx);
            if ty != rec.ty {
                return Err(fail("unstable-type", format!("reference {:?} ({}) had type {} and has type {ty} now", rec.r, rec.key.show(), rec.ty)));
            }
            if self.ctx.get_symbol_name(rec.r) != rec.name.as_deref() {
                return Err(fail("unstable-name", format!("reference {:?} ({}) changed its symbol name", rec.r, rec.key.show())));
            }
        }
        for (s, sr) in self.strs.iter() {
            if &self.ctx[*sr] != s {
                return Err(fail("unstable-string", format!("string reference {sr:?} held {s:?} and holds {:?} now", self.ctx[*sr])));
            }
        }
        if self.ctx.get_true() != self.t || self.ctx.get_false() != self.f {
            return Err(fail("true-false", "get_true()/get_false() changed during the history".into()));
        }
        if !self.ctx[self.t].is_true() || !self.ctx[self.f].is_false() || self.ctx[self.t].is_false() || self.ctx[self.f].is_true() {
            return Err(fail("true-false", "Expr::is_true/is_false no longer recognise the constants".into()));
        }
        // spot check of the unrelated insertions (all of them are checked at the end of the history)
        for recs in [&self.base.recs, &self.post] {
            let n = recs.len();
            for i in [0usize, 1, 65_533, 65_534, 65_535, 65_536, n.wrapping_sub(1)] {
                if let Some((r, e, t, _)) = recs.get(i)
                    && (self.ctx[*r] != *e || r.get_type(&self.ctx) != *t)
                {
                    return Err(fail("unstable-filler", format!("unrelated earlier insertion {r:?} changed from {e:?} to {:?}", self.ctx[*r])));
                }
            }
        }
        Ok(())
    }

    fn full_base_check(&self) -> Result<(), Fail> {
        for (r, e, t, k) in self.base.recs.iter().chain(self.post.iter()) {
            if self.ctx[*r] != *e || r.get_type(&self.ctx) != *t {
                return Err(fail("unstable-filler", format!("unrelated earlier insertion {r:?} changed from {e:?} to {:?}", self.ctx[*r])));
            }
            if !key_matches(&self.ctx, *r, k) {
                return Err(fail("unstable-filler", format!("unrelated earlier insertion {r:?} denoted {} and denotes {} now", k.show(), decode(&self.ctx, *r).show())));
            }
        }
        Ok(())
    }

    fn string(&mut self, s: &str) -> Result<StringRef, Fail> {
        let sr = self.ctx.string(s.into());
        self.st.calls += 1;
        match self.strs.iter().find(|(n, _)| n == s) {
            Some((_, old)) => {
                if *old != sr {
                    return Err(fail("string-dup", format!("string({s:?}) returned {sr:?} but returned {old:?} before")));
                }
            }
            None => {
                if let Some((n, _)) = self.strs.iter().find(|(_, o)| *o == sr) {
                    return Err(fail("string-alias", format!("string({s:?}) returned {sr:?}, the reference of the different string {n:?}")));
                }
                if self.base.strs.contains(&sr) || self.post_strs.contains(&sr) {
                    return Err(fail("string-alias", format!("string({s:?}) returned {sr:?}, the reference of an unrelated earlier string")));
                }
                self.strs.push((s.to_string(), sr));
            }
        }
        if self.ctx[sr] != s {
            return Err(fail("string-content", format!("string({s:?}) returned a reference to {:?}", self.ctx[sr])));
        }
        Ok(sr)
    }

    /// note the string behind a symbol that was created without going through `string`
    fn note_symbol_string(&mut self, r: ExprRef, name: &str) -> Result<(), Fail> {
        if let Some(sr) = self.ctx[r].get_symbol_name_ref() {
            match self.strs.iter().find(|(n, _)| n == name) {
                Some((_, old)) if *old != sr => {
                    return Err(fail("string-dup", format!("symbol {name} uses string reference {sr:?} but the same string was {old:?} before")));
                }
                Some(_) => {}
                None => {
                    if self.strs.iter().any(|(_, o)| *o == sr) || self.base.strs.contains(&sr) || self.post_strs.contains(&sr) {
                        return Err(fail("string-alias", format!("symbol {name} uses string reference {sr:?} which belongs to a different string")));
                    }
                    self.strs.push((name.to_string(), sr));
                }
            }
        }
        Ok(())
    }

    fn done_call(&mut self, r: ExprRef, exp: &Exp) -> Result<(), Fail> {
        self.st.calls += 1;
        self.resolve(r, exp, true)?;
        self.sweep()
    }

    /// execute one pool element; `prev` = results of the earlier elements of the history
    pub fn exec(&mut self, n: &N, prev: &[Option<(ExprRef, Ty)>]) -> Result<Option<(ExprRef, Ty)>, Fail> {
        let tag = |mut f: Fail, n: &N, w: u32| {
            if f.kind.is_empty() {
                f.kind = n.kind();
                f.w = w;
            }
            f
        };
        match n {
            N::Prev(k) => Ok(if *k >= 1 && *k <= prev.len() { prev[prev.len() - k] } else { None }),
            N::Str(s) => {
                self.string(s).map_err(|f| tag(f, n, 0))?;
                self.sweep().map_err(|f| tag(f, n, 0))?;
                Ok(None)
            }
            N::Sym(name, ty, via) => {
                let w = ty_w(*ty);
                let tpe = ty.to_patronus();
                let r = match (via, ty) {
                    (SymVia::Direct, Ty::Bv(w)) => self.ctx.bv_symbol(name, *w),
                    (SymVia::Direct, Ty::Arr(i, d)) => self.ctx.array_symbol(name, *i, *d),
                    (SymVia::StrRef, _) => {
                        let sr = self.string(name).map_err(|f| tag(f, n, w))?;
                        self.ctx.symbol(sr, tpe)
                    }
                    (SymVia::Builder, Ty::Bv(w)) => self.ctx.build(|b| b.bv_symbol(name, *w)),
                    (SymVia::Builder, Ty::Arr(..)) => {
                        let sr = self.string(name).map_err(|f| tag(f, n, w))?;
                        self.ctx.build(|b| b.symbol(sr, tpe))
                    }
                };
                self.note_symbol_string(r, name).map_err(|f| tag(f, n, w))?;
                self.done_call(r, &Exp::Sym(name.to_string(), *ty)).map_err(|f| tag(f, n, w))?;
                Ok(Some((r, *ty)))
            }
            N::Lit(w, kind, route) => {
                use crate::c12_lits::{CtxCall, How, Made, make};
                let w = *w;
                let t = kind.value(w).expect("literal group");
                let Some(made) = make(*route, w, &t) else {
                    self.st.inapplicable += 1;
                    return Ok(None);
                };
                let exp = Exp::Lit(w, t.v.clone());
                let r = match made {
                    Made::Ctx(c, via_b) => {
                        let ctx = &mut self.ctx;
                        let r = match (c, via_b) {
                            (CtxCall::BitVecVal(v), false) => ctx.bit_vec_val(v, w),
                            (CtxCall::BitVecVal(v), true) => ctx.build(|b| b.bit_vec_val(v, w)),
                            (CtxCall::Zero, false) => ctx.zero(w),
                            (CtxCall::Zero, true) => ctx.build(|b| b.zero(w)),
                            (CtxCall::One, false) => ctx.one(w),
                            (CtxCall::One, true) => ctx.build(|b| b.one(w)),
                            (CtxCall::Ones, false) => ctx.ones(w),
                            (CtxCall::Ones, true) => ctx.build(|b| b.ones(w)),
                            (CtxCall::True, false) => ctx.get_true(),
                            (CtxCall::True, true) => ctx.build(|b| b.get_true()),
                            (CtxCall::False, false) => ctx.get_false(),
                            (CtxCall::False, true) => ctx.build(|b| b.get_false()),
                        };
                        self.done_call(r, &exp).map_err(|f| tag(f, n, w))?;
                        r
                    }
                    Made::Val(v, how, note) => {
                        let raw = Bv::from_words(v.width(), v.words());
                        let noncanon = !raw.is_canonical() || v.width() != w;
                        if noncanon {
                            self.st.noncanon_inputs += 1;
                        }
                        let reclass = |mut f: Fail| {
                            if noncanon {
                                f.what = format!(
                                    "baa computed `{note}` = {w}'d{} as the non-canonical value with raw words {:x?} (bits set above the width); handed to bv_lit this gives a second literal for the same number: {}",
                                    t.v,
                                    v.words(),
                                    f.what
                                );
                                let mut demo = Context::default();
                                let r1 = demo.bv_lit(&pvcore::evalref::bv_to_baa(&t));
                                let r2 = demo.bv_lit(&v);
                                f.what = format!("{} [first failing check: {}; in a fresh context the canonical value of this number is interned as {r1:?} and this value as {r2:?}]", f.what, f.class);
                                f.detail = String::new();
                                f.class = "noncanonical-lit".into();
                            }
                            tag(f, n, w)
                        };
                        let r = match how {
                            How::BvLit => self.ctx.bv_lit(&v),
                            How::ValueLit => self.ctx.lit(baa::Value::BitVec(v.clone())),
                            How::BuilderBvLit => self.ctx.build(|b| b.bv_lit(&v)),
                            How::WordsRef => {
                                let words: Vec<u64> = v.words().to_vec();
                                self.ctx.bv_lit(baa::BitVecValueRef::new(&words, w))
                            }
                            How::ReRead => {
                                let r1 = self.ctx.bv_lit(&v);
                                self.done_call(r1, &exp).map_err(reclass)?;
                                let owned: baa::BitVecValue = match &self.ctx[r1] {
                                    Expr::BVLiteral(l) => l.get(&self.ctx).into(),
                                    other => return Err(tag(fail("content", format!("bv_lit returned a reference to {other:?}")), n, w)),
                                };
                                self.ctx.bv_lit(&owned)
                            }
                        };
                        self.done_call(r, &exp).map_err(reclass)?;
                        r
                    }
                };
                Ok(Some((r, Ty::Bv(w))))
            }
            N::Op(op, kids, via_b) => {
                let mut args = vec![];
                for k in kids {
                    match self.exec(k, prev)? {
                        Some(x) => args.push(x),
                        None => {
                            self.st.inapplicable += 1;
                            return Ok(None);
                        }
                    }
                }
                let leaves: Vec<Exp> = args.iter().map(|(r, t)| Exp::Ref(*r, *t)).collect();
                let Some(exp) = expected(*op, leaves) else {
                    self.st.inapplicable += 1;
                    return Ok(None);
                };
                let mut refs: Vec<ExprRef> = args.iter().map(|a| a.0).collect();
                let mut called = *op;
                // self-tests of the check: emulate a context that confuses operand order (2) or
                // fails to normalise an extension by zero (3)
                if self.sabotage == 2 && *op == Op::And && refs[0] > refs[1] {
                    refs.reverse();
                }
                if self.sabotage == 3 && *op == Op::SExt(0) {
                    called = Op::SExt(1);
                }
                let r = real_call(&mut self.ctx, called, &refs, *via_b);
                let w = ty_w(exp.ty());
                if matches!(exp, Exp::Ref(..)) {
                    self.st.norm += 1;
                }
                self.done_call(r, &exp).map_err(|f| tag(f, n, w))?;
                Ok(Some((r, exp.ty())))
            }
        }
    }

    /// `k` more unrelated insertions after the history (names h<i>)
    fn post_fill(&mut self, k: usize) -> Result<(), Fail> {
        let mut out = std::mem::take(&mut self.post);
        let mut strs = std::mem::take(&mut self.post_strs);
        let mut refs = std::mem::take(&mut self.post_refs);
        for i in 0..k {
            let before = out.len();
            let (by_ref, base) = (&self.by_ref, self.base);
            let c = filler_insert(&mut self.ctx, "h", i, |r| by_ref.contains_key(&r) || base.refs.contains(&r) || refs.contains(&r), &mut out, &mut strs)?;
            self.st.calls += c;
            for rec in out[before..].iter() {
                if !refs.insert(rec.0) {
                    return Err(fail("filler-alias", format!("two different unrelated insertions share reference {:?}", rec.0)));
                }
                self.st.max_index = self.st.max_index.max(usize::from(rec.0));
            }
            if base.strs.iter().next().is_some()
                && let Expr::BVSymbol { name, .. } = self.ctx[out[before].0]
                && base.strs.contains(&name)
            {
                return Err(fail("filler-string", format!("fresh name h{i} got the StringRef of an earlier different string")));
            }
        }
        self.post = out;
        self.post_strs = strs;
        self.post_refs = refs;
        self.sweep()
    }
}

#[derive(Clone, Debug, Default)]
pub struct Outcome {
    pub fail: Option<(usize, Fail)>,
    pub first: Stats,
    pub total_calls: u64,
}

/// Run one history: `elems` on a clone of `base`, then `post` unrelated insertions, then the whole
/// history once more (every call must return the reference it returned the first time).
pub fn run_history(base: &Base, elems: &[&N], post: usize, sabotage: u32) -> Outcome {
    let mut out = Outcome::default();
    let r = catch(|| -> (Option<(usize, Fail)>, Stats, u64) {
        let mut run = match Run::new(base) {
            Ok(r) => r,
            Err(f) => return (Some((0, f)), Stats::default(), 0),
        };
        run.sabotage = sabotage;
        let mut results: Vec<Option<(ExprRef, Ty)>> = vec![];
        for (i, e) in elems.iter().enumerate() {
            match run.exec(e, &results) {
                Ok(r) => results.push(r),
                Err(f) => return (Some((i, f)), run.st.clone(), run.st.calls),
            }
        }
        let first = run.st.clone();
        if post > 0
            && let Err(mut f) = run.post_fill(post)
        {
            f.kind = "post-fill".into();
            return (Some((elems.len().saturating_sub(1), f)), first, run.st.calls);
        }
        // rebuild: every call must now be answered with the same reference
        let mut again: Vec<Option<(ExprRef, Ty)>> = vec![];
        for (i, e) in elems.iter().enumerate() {
            match run.exec(e, &again) {
                Ok(r) => {
                    if r != results[i] {
                        let f = Fail {
                            class: "rebuild".into(),
                            kind: e.kind(),
                            w: r.map(|x| ty_w(x.1)).unwrap_or(0),
                            detail: String::new(),
                            what: format!("rebuilding {} after {post} further insertions returned {:?} instead of {:?}", e.name(), r.map(|x| x.0), results[i].map(|x| x.0)),
                        };
                        return (Some((i, f)), first, run.st.calls);
                    }
                    again.push(r)
                }
                Err(mut f) => {
                    f.detail = format!("{}{}rebuild", f.detail, if f.detail.is_empty() { "" } else { "," });
                    return (Some((i, f)), first, run.st.calls);
                }
            }
        }
        if let Err(mut f) = run.full_base_check() {
            f.kind = "final-sweep".into();
            return (Some((elems.len().saturating_sub(1), f)), first, run.st.calls);
        }
        (None, first, run.st.calls)
    });
    match r {
        Ok((f, first, calls)) => {
            out.fail = f;
            out.first = first;
            out.total_calls = calls;
        }
        Err(p) => {
            out.fail = Some((
                0,
                Fail { class: format!("panic|{}", p.file()), kind: "history".into(), w: 0, detail: String::new(), what: format!("constructor panicked: {} ({})", p.msg, p.short_loc()) },
            ));
        }
    }
    out
}

// ------------------------------------------------------------------------------------ pools

fn sym(n: &'static str, ty: Ty) -> N {
    N::Sym(n, ty, SymVia::Direct)
}
fn op(o: Op, kids: Vec<N>) -> N {
    N::Op(o, kids, false)
}

struct Leaves {
    a8: N,
    b8: N,
    a1: N,
    b1: N,
    arr_a: N,
    m: N,
    l8: N,
    tru: N,
}

fn leaves() -> Leaves {
    Leaves {
        a8: sym("a", Ty::Bv(8)),
        b8: sym("b", Ty::Bv(8)),
        a1: sym("a", Ty::Bv(1)),
        b1: sym("b", Ty::Bv(1)),
        // an array symbol carrying a bit-vector's name
        arr_a: sym("a", Ty::Arr(1, 8)),
        m: sym("m", Ty::Arr(1, 8)),
        l8: N::Lit(8, Kind::Pat, Route::BitVecVal),
        tru: N::Lit(1, Kind::One, Route::BitVecVal),
    }
}

/// operator calls over leaves: every builder, both operand orders of some, both type families
fn op_pool() -> Vec<N> {
    let l = leaves();
    let (a8, b8, a1, b1, aa, m, l8, tru) = (l.a8, l.b8, l.a1, l.b1, l.arr_a, l.m, l.l8, l.tru);
    let mut v = vec![];
    for o in [
        Op::Not, Op::Neg, Op::ZExt(1), Op::ZExt(2), Op::SExt(1), Op::ZExt(0), Op::SExt(0), Op::Slice(7, 0), Op::Slice(3, 0),
        Op::Slice(7, 4), Op::Slice(0, 0), Op::AConst(1), Op::AConst(2), Op::Extend(1, true), Op::Extend(1, false), Op::Extend(0, true),
    ] {
        v.push(op(o, vec![a8.clone()]));
    }
    for o in [Op::Not, Op::Slice(0, 0), Op::ZExt(1)] {
        v.push(op(o, vec![a1.clone()]));
    }
    for o in [
        Op::And, Op::Or, Op::Xor, Op::Shl, Op::Ashr, Op::Lshr, Op::Add, Op::Mul, Op::Sdiv, Op::Udiv, Op::Smod, Op::Srem, Op::Urem, Op::Sub,
        Op::Eq, Op::Ugt, Op::Sgt, Op::Uge, Op::Sge, Op::Concat,
    ] {
        v.push(op(o, vec![a8.clone(), b8.clone()]));
    }
    for o in [Op::And, Op::Sub, Op::Eq, Op::Concat, Op::Ugt] {
        v.push(op(o, vec![b8.clone(), a8.clone()]));
    }
    v.push(op(Op::And, vec![a8.clone(), a8.clone()]));
    v.push(op(Op::Eq, vec![a8.clone(), a8.clone()]));
    v.push(op(Op::And, vec![a1.clone(), b1.clone()]));
    v.push(op(Op::Implies, vec![a1.clone(), b1.clone()]));
    v.push(op(Op::Implies, vec![b1.clone(), a1.clone()]));
    v.push(op(Op::Eq, vec![a1.clone(), b1.clone()]));
    v.push(op(Op::Concat, vec![a1.clone(), a8.clone()]));
    v.push(op(Op::Concat, vec![a8.clone(), a1.clone()]));
    v.push(op(Op::Or, vec![a1.clone(), tru.clone()]));
    v.push(op(Op::Add, vec![a8.clone(), l8.clone()]));
    v.push(op(Op::Eq, vec![a8.clone(), l8.clone()]));
    v.push(op(Op::Ite, vec![a1.clone(), a8.clone(), b8.clone()]));
    v.push(op(Op::Ite, vec![a1.clone(), b8.clone(), a8.clone()]));
    v.push(op(Op::Ite, vec![a1.clone(), m.clone(), aa.clone()]));
    v.push(op(Op::Ite, vec![tru.clone(), a8.clone(), b8.clone()]));
    v.push(op(Op::Eq, vec![m.clone(), aa.clone()]));
    v.push(op(Op::Read, vec![m.clone(), a1.clone()]));
    v.push(op(Op::Store, vec![m.clone(), a1.clone(), a8.clone()]));
    v.push(op(Op::Store, vec![aa.clone(), a1.clone(), a8.clone()]));
    // operands that are themselves operator calls in the shapes a "no-op elimination" in a builder would look at:
    // a store of the value read at the same index (same array / ANOTHER array), a read of a store, a store over
    // a store, same-operand and double applications, adjacent slices, equal branches
    let rd = |arr: &N| op(Op::Read, vec![arr.clone(), a1.clone()]);
    v.push(op(Op::Store, vec![m.clone(), a1.clone(), rd(&m)]));
    v.push(op(Op::Store, vec![m.clone(), a1.clone(), rd(&aa)]));
    v.push(op(Op::Store, vec![aa.clone(), a1.clone(), rd(&m)]));
    v.push(op(Op::Store, vec![m.clone(), b1.clone(), rd(&m)]));
    v.push(op(Op::Read, vec![op(Op::Store, vec![m.clone(), a1.clone(), a8.clone()]), a1.clone()]));
    v.push(op(Op::Read, vec![op(Op::Store, vec![m.clone(), a1.clone(), a8.clone()]), b1.clone()]));
    v.push(op(Op::Store, vec![op(Op::Store, vec![m.clone(), a1.clone(), a8.clone()]), a1.clone(), b8.clone()]));
    v.push(op(Op::Not, vec![op(Op::Not, vec![a8.clone()])]));
    v.push(op(Op::Neg, vec![op(Op::Neg, vec![a8.clone()])]));
    v.push(op(Op::Xor, vec![a8.clone(), a8.clone()]));
    v.push(op(Op::Sub, vec![a8.clone(), a8.clone()]));
    v.push(op(Op::Or, vec![a8.clone(), a8.clone()]));
    v.push(op(Op::And, vec![a8.clone(), op(Op::Not, vec![a8.clone()])]));
    v.push(op(Op::Add, vec![a8.clone(), N::Lit(8, Kind::Zero, Route::ZeroOneOnes)]));
    v.push(op(Op::Ite, vec![a1.clone(), a8.clone(), a8.clone()]));
    v.push(op(Op::Ite, vec![op(Op::Not, vec![a1.clone()]), a8.clone(), b8.clone()]));
    v.push(op(Op::Concat, vec![op(Op::Slice(7, 4), vec![a8.clone()]), op(Op::Slice(3, 0), vec![a8.clone()])]));
    v.push(op(Op::Concat, vec![op(Op::Slice(7, 4), vec![a8.clone()]), op(Op::Slice(3, 0), vec![b8.clone()])]));
    v.push(op(Op::ZExt(1), vec![op(Op::ZExt(1), vec![a8.clone()])]));
    v.push(op(Op::SExt(1), vec![op(Op::ZExt(1), vec![a8.clone()])]));
    v.push(op(Op::Eq, vec![m.clone(), m.clone()]));
    v.push(op(Op::ZeroArray(1, 8), vec![]));
    v.push(op(Op::AConst(1), vec![N::Lit(8, Kind::Zero, Route::ZeroOneOnes)]));
    v.push(op(Op::Distinct, vec![a8.clone(), b8.clone()]));
    v.push(op(Op::Distinct, vec![m.clone(), aa.clone()]));
    v.push(op(Op::Xor3, vec![a8.clone(), b8.clone(), l8.clone()]));
    v.push(op(Op::Majority, vec![a1.clone(), b1.clone(), tru.clone()]));
    v
}

fn prev_pool() -> Vec<N> {
    let l = leaves();
    vec![
        op(Op::Not, vec![N::Prev(1)]),
        op(Op::And, vec![N::Prev(1), N::Prev(2)]),
        op(Op::Eq, vec![N::Prev(1), N::Prev(1)]),
        op(Op::Eq, vec![N::Prev(1), N::Prev(2)]),
        op(Op::ZExt(0), vec![N::Prev(1)]),
        op(Op::Slice(7, 0), vec![N::Prev(1)]),
        op(Op::Concat, vec![N::Prev(1), N::Prev(2)]),
        op(Op::Ite, vec![l.a1.clone(), N::Prev(1), N::Prev(2)]),
        op(Op::AConst(1), vec![N::Prev(1)]),
    ]
}

fn leaf_pool() -> Vec<N> {
    let l = leaves();
    vec![
        l.a8,
        l.b8,
        l.a1,
        l.b1,
        l.arr_a,
        l.m,
        sym("a", Ty::Arr(8, 1)),
        sym("b", Ty::Arr(1, 8)),
        // same name, types that differ in exactly one component
        sym("m", Ty::Arr(2, 8)),
        sym("m", Ty::Arr(1, 9)),
        sym("a", Ty::Bv(9)),
        N::Sym("a", Ty::Bv(8), SymVia::StrRef),
        N::Sym("a", Ty::Arr(1, 8), SymVia::StrRef),
        N::Sym("b", Ty::Bv(8), SymVia::Builder),
        N::Sym("m", Ty::Arr(1, 8), SymVia::Builder),
        N::Str("a"),
        N::Str("zz"),
        // names a "helpful" normalisation would touch: SMT quoting, blanks, case, step suffixes, the empty name
        sym("|a|", Ty::Bv(8)),
        sym("|b", Ty::Bv(8)),
        sym(" a", Ty::Bv(8)),
        sym("a ", Ty::Bv(8)),
        sym("A", Ty::Bv(8)),
        sym("a@0", Ty::Bv(8)),
        sym("", Ty::Bv(8)),
        N::Sym("|a|", Ty::Bv(8), SymVia::StrRef),
        N::Sym("|a|", Ty::Arr(1, 8), SymVia::Builder),
        N::Str("|a|"),
        N::Lit(1, Kind::Zero, Route::TrueFalse),
        N::Lit(1, Kind::Zero, Route::Not),
        l.tru,
        N::Lit(8, Kind::Zero, Route::ZeroOneOnes),
        N::Lit(8, Kind::Ones, Route::ZeroOneOnes),
        l.l8,
        N::Lit(8, Kind::Pat, Route::AddWrap),
        N::Lit(64, Kind::Pat, Route::SliceHi),
        N::Lit(65, Kind::P64, Route::Words),
        N::Lit(65, Kind::P64, Route::AddCarry),
        N::Lit(128, Kind::P64, Route::Concat64),
        N::Lit(128, Kind::Ones, Route::Not),
        N::Lit(129, Kind::Msb, Route::BitStr),
    ]
}

pub fn full_pool() -> Vec<N> {
    let mut v = leaf_pool();
    v.extend(op_pool());
    v.extend(prev_pool());
    v
}

/// the operator calls once more, through `Context::build` and the `Builder` methods
pub fn builder_pool() -> Vec<N> {
    op_pool()
        .into_iter()
        .filter_map(|n| match n {
            N::Op(Op::Distinct, ..) => None, // Builder has no `distinct`
            N::Op(o, k, _) => Some(N::Op(o, k, true)),
            _ => None,
        })
        .collect()
}

/// reduced pool for the deepest histories and the large pre-filled context
pub fn core_pool() -> Vec<N> {
    let l = leaves();
    let (a8, b8, a1, b1, aa) = (l.a8.clone(), l.b8.clone(), l.a1.clone(), l.b1.clone(), l.arr_a.clone());
    vec![
        a8.clone(),
        b8.clone(),
        a1.clone(),
        aa.clone(),
        N::Sym("a", Ty::Bv(8), SymVia::StrRef),
        N::Str("a"),
        l.tru.clone(),
        N::Lit(8, Kind::Zero, Route::ZeroOneOnes),
        N::Lit(8, Kind::Pat, Route::AddWrap),
        l.l8.clone(),
        N::Lit(65, Kind::P64, Route::Words),
        N::Lit(65, Kind::P64, Route::AddCarry),
        op(Op::Not, vec![a8.clone()]),
        op(Op::Neg, vec![a8.clone()]),
        op(Op::ZExt(1), vec![a8.clone()]),
        op(Op::SExt(1), vec![a8.clone()]),
        op(Op::ZExt(0), vec![a8.clone()]),
        op(Op::Slice(7, 0), vec![a8.clone()]),
        op(Op::Slice(3, 0), vec![a8.clone()]),
        op(Op::And, vec![a8.clone(), b8.clone()]),
        op(Op::And, vec![b8.clone(), a8.clone()]),
        op(Op::Or, vec![a8.clone(), b8.clone()]),
        op(Op::Add, vec![a8.clone(), l.l8.clone()]),
        op(Op::Eq, vec![a8.clone(), b8.clone()]),
        op(Op::Eq, vec![l.m.clone(), aa.clone()]),
        op(Op::Sgt, vec![a8.clone(), b8.clone()]),
        op(Op::Concat, vec![a8.clone(), b8.clone()]),
        op(Op::Implies, vec![a1.clone(), b1.clone()]),
        op(Op::Ite, vec![a1.clone(), a8.clone(), b8.clone()]),
        op(Op::AConst(1), vec![a8.clone()]),
        op(Op::Store, vec![aa.clone(), a1.clone(), a8.clone()]),
        op(Op::Read, vec![aa.clone(), a1.clone()]),
        op(Op::Distinct, vec![a8.clone(), b8.clone()]),
        N::Op(Op::And, vec![a8.clone(), b8.clone()], true),
        op(Op::Not, vec![N::Prev(1)]),
        op(Op::And, vec![N::Prev(1), N::Prev(2)]),
        op(Op::Eq, vec![N::Prev(1), N::Prev(1)]),
        op(Op::ZExt(0), vec![N::Prev(1)]),
        op(Op::Concat, vec![N::Prev(1), N::Prev(2)]),
    ]
}

/// all routes that reach the number of group (w, kind)
pub fn route_pool(w: u32, kind: Kind) -> Vec<N> {
    let t = kind.value(w).expect("group");
    crate::c12_lits::ROUTES.iter().filter(|r| crate::c12_lits::make(**r, w, &t).is_some()).map(|r| N::Lit(w, kind, *r)).collect()
}

/// one number at all widths where it exists, a few routes each
pub fn cross_pool(kind: Kind) -> Vec<N> {
    let mut v = vec![];
    for w in crate::c12_lits::WIDTHS {
        if let Some(t) = kind.value(w) {
            for r in crate::c12_lits::CROSS_ROUTES {
                if crate::c12_lits::make(r, w, &t).is_some() {
                    v.push(N::Lit(w, kind, r));
                }
            }
        }
    }
    v
}

/// name -> element, over everything any stage can enumerate (used by replay)
pub fn registry() -> BTreeMap<String, N> {
    let mut m = BTreeMap::new();
    let mut all = full_pool();
    all.extend(builder_pool());
    all.extend(core_pool());
    all.extend(mini_pool());
    for (w, k, _) in crate::c12_lits::groups() {
        all.extend(route_pool(w, k));
    }
    for n in all {
        m.insert(n.name(), n);
    }
    m
}

// ------------------------------------------------------------------------------------ stages

pub const BIG_FILL: usize = 70_000;
pub const FILLS: [usize; 3] = [0, 1, BIG_FILL];

#[derive(Clone)]
pub struct Stage {
    pub name: String,
    pub pool: Vec<N>,
    pub len: usize,
    /// index into FILLS
    pub fill: usize,
    /// unrelated insertions between the history and its rebuild
    pub post: usize,
}

fn stage(name: &str, pool: &[N], len: usize, fill: usize, post: usize) -> Stage {
    Stage { name: format!("{name}/len{len}/pre{}/post{post}", FILLS[fill]), pool: pool.to_vec(), len, fill, post }
}

/// smallest pool (deepest histories on the large context)
pub fn mini_pool() -> Vec<N> {
    let keep = [
        "sym.a.8.Direct", "sym.b.8.Direct", "asym.a.1.8.Direct", "sym.a.8.StrRef", "str.a", "lit.1.One.BitVecVal", "lit.8.Pat.AddWrap",
        "lit.8.Pat.BitVecVal", "lit.65.P64.Words", "lit.65.P64.AddCarry",
    ];
    let mut v: Vec<N> = core_pool().into_iter().filter(|n| keep.contains(&n.name().as_str())).collect();
    let l = leaves();
    let (a8, b8, a1, aa) = (l.a8, l.b8, l.a1, l.arr_a);
    v.extend(vec![
        op(Op::Not, vec![a8.clone()]),
        op(Op::ZExt(0), vec![a8.clone()]),
        op(Op::Slice(7, 0), vec![a8.clone()]),
        op(Op::Slice(3, 0), vec![a8.clone()]),
        op(Op::And, vec![a8.clone(), b8.clone()]),
        op(Op::And, vec![b8.clone(), a8.clone()]),
        op(Op::Eq, vec![a8.clone(), b8.clone()]),
        op(Op::Concat, vec![a8.clone(), b8.clone()]),
        op(Op::Store, vec![aa.clone(), a1.clone(), a8.clone()]),
        op(Op::Distinct, vec![a8.clone(), b8.clone()]),
        N::Op(Op::And, vec![a8.clone(), b8.clone()], true),
        op(Op::Not, vec![N::Prev(1)]),
        op(Op::And, vec![N::Prev(1), N::Prev(2)]),
        op(Op::Eq, vec![N::Prev(1), N::Prev(1)]),
    ]);
    v
}

/// 16 elements: the deepest histories on the large context
pub fn micro_pool() -> Vec<N> {
    let keep = [
        "sym.a.8.Direct", "sym.b.8.Direct", "asym.a.1.8.Direct", "sym.a.8.StrRef", "str.a", "lit.8.Pat.AddWrap", "lit.8.Pat.BitVecVal",
        "lit.65.P64.Words", "lit.65.P64.AddCarry", "not(sym.a.8.Direct)", "slice7_0(sym.a.8.Direct)", "and(sym.a.8.Direct,sym.b.8.Direct)",
        "and(sym.b.8.Direct,sym.a.8.Direct)", "B.and(sym.a.8.Direct,sym.b.8.Direct)", "not(prev1)", "and(prev1,prev2)",
    ];
    let v: Vec<N> = mini_pool().into_iter().filter(|n| keep.contains(&n.name().as_str())).collect();
    assert_eq!(v.len(), keep.len(), "micro pool names");
    v
}

pub fn stages(tier: Tier) -> Vec<Stage> {
    let mut out = vec![];
    let thorough = tier.is_thorough();
    let full = full_pool();
    let mut fullb = full.clone();
    fullb.extend(builder_pool());
    let core = core_pool();
    let mini = mini_pool();
    let micro = micro_pool();
    let groups = crate::c12_lits::groups();
    let post = |fill: usize| FILLS[fill].min(1);
    let post_big = |fill: usize| FILLS[fill];
    // 1. literal routes, one group at a time: all sequences of routes to the same number
    //    (fresh / 1 insertion: up to 3 (quick) or 4 (thorough) routes; large context: 1 route
    //    (quick), 2 routes, and 3 routes for the multi-word numbers at widths 65 and 129 (thorough))
    let lit_len = if thorough { 4 } else { 3 };
    for len in 1..=lit_len {
        for (w, k, t) in groups.iter() {
            let pool = route_pool(*w, *k);
            for fill in 0..3 {
                let multiword = (*w == 65 || *w == 129) && t.v.bits() > 64;
                let big_ok = len == 1 || (thorough && (len == 2 || (len == 3 && multiword)));
                if fill == 2 && !big_ok {
                    continue;
                }
                out.push(stage(&format!("lit[{w},{k:?}]"), &pool, len, fill, post(fill)));
            }
        }
    }
    // 2. one number across widths (the value store shares words between widths)
    for len in 1..=3 {
        for k in crate::c12_lits::KINDS {
            let pool = cross_pool(k);
            for fill in 0..3 {
                if fill == 2 && len == 3 && !thorough {
                    continue;
                }
                let big_rebuild = len == 1 && (thorough || matches!(k, Kind::Zero | Kind::P64));
                out.push(stage(&format!("cross[{k:?}]"), &pool, len, fill, if big_rebuild { post_big(fill) } else { post(fill) }));
            }
        }
    }
    // 3. general pools (symbols, strings, literals, every operator, calls on earlier results)
    // single elements, rebuilt after as many further insertions as went before
    for fill in 0..3 {
        if thorough {
            out.push(stage("full+builder", &fullb, 1, fill, post_big(fill)));
        } else {
            out.push(stage("full+builder", &fullb, 1, fill, post(fill)));
            out.push(stage("core", &core, 1, fill, post_big(fill)));
        }
    }
    for fill in 0..2 {
        out.push(stage("full+builder", &fullb, 2, fill, post(fill)));
    }
    out.push(stage(if thorough { "full+builder" } else { "core" }, if thorough { &fullb } else { &core }, 2, 2, 1));
    for fill in 0..3 {
        out.push(stage("micro", &micro, 3, fill, post(fill)));
    }
    for fill in 0..2 {
        out.push(stage("mini", &mini, 3, fill, post(fill)));
        out.push(stage("core", &core, 3, fill, post(fill)));
        out.push(stage("full", &full, 3, fill, post(fill)));
    }
    if thorough {
        out.push(stage("mini", &mini, 3, 2, 1));
        out.push(stage("core", &core, 3, 2, 1));
        for fill in 0..3 {
            out.push(stage("micro", &micro, 4, fill, post(fill)));
        }
        for fill in 0..2 {
            out.push(stage("mini", &mini, 4, fill, post(fill)));
            out.push(stage("core", &core, 4, fill, post(fill)));
        }
    }
    // cheap and broad first, so that a budget cap removes depth before breadth
    let prio = |s: &Stage| -> u32 {
        let lit = s.name.starts_with("lit[") || s.name.starts_with("cross[");
        match (lit, s.len) {
            (false, 1) | (false, 2) => 0,
            (false, 3) if s.name.starts_with("micro") => 0,
            (true, 1) | (true, 2) => 1,
            (false, 3) => 2,
            (true, 3) => 3,
            _ => 4,
        }
    };
    // ... and the stages on the large context (two orders of magnitude dearer per history) last
    out.sort_by_key(|s| (if s.fill == 2 || s.post == BIG_FILL { 10 } else { 0 }) + prio(s));
    out
}

// ------------------------------------------------------------------------------------ driver

#[derive(Default)]
struct Acc {
    histories: u64,
    calls: u64,
    hits: u64,
    misses: u64,
    norm: u64,
    inapplicable: u64,
    noncanon_inputs: u64,
    variants: u64,
    max_index: usize,
    failing: u64,
    nontrivial: Vec<u64>,
    classes: BTreeMap<String, u64>,
}

impl Acc {
    fn merge(mut self, o: Acc) -> Acc {
        self.histories += o.histories;
        self.calls += o.calls;
        self.hits += o.hits;
        self.misses += o.misses;
        self.norm += o.norm;
        self.inapplicable += o.inapplicable;
        self.noncanon_inputs += o.noncanon_inputs;
        self.variants |= o.variants;
        self.max_index = self.max_index.max(o.max_index);
        self.failing += o.failing;
        self.nontrivial.extend(o.nontrivial);
        for (k, v) in o.classes {
            *self.classes.entry(k).or_insert(0) += v;
        }
        self
    }
    fn add(&mut self, text: &str, o: &Outcome) {
        self.histories += 1;
        self.calls += o.total_calls;
        self.hits += o.first.hits;
        self.misses += o.first.misses;
        self.norm += o.first.norm;
        self.inapplicable += o.first.inapplicable;
        self.noncanon_inputs += o.first.noncanon_inputs;
        self.variants |= o.first.variants;
        self.max_index = self.max_index.max(o.first.max_index);
        if o.first.hits > 0 && o.first.misses > 0 {
            self.nontrivial.push(hash64(text));
        }
        if let Some((_, f)) = &o.fail {
            self.failing += 1;
            *self.classes.entry(f.class.clone()).or_insert(0) += 1;
        }
    }
}

fn history_text(elems: &[&N], pre: usize, post: usize) -> String {
    format!("pre{pre};{};post{post}", elems.iter().map(|e| e.name()).collect::<Vec<_>>().join(";"))
}

fn signature(f: &Fail) -> String {
    format!("C12|{}|{}|{}|{}", f.class, f.kind, if f.w == 0 { "-" } else { wclass(f.w) }, f.detail)
}

pub struct Bases {
    b: Vec<Arc<Base>>,
}

impl Bases {
    fn get(&self, level: usize) -> Arc<Base> {
        self.b.iter().find(|b| b.level == level).cloned().unwrap_or_else(|| Arc::new(Base::build(level).expect("base")))
    }
}

/// minimise a failing history: smaller pre/post fill, fewer elements; the failure must keep class and call kind
fn shrink_history(bases: &Bases, elems: &[&N], pre: usize, post: usize, f: &Fail, sabotage: u32) -> (Vec<N>, usize, usize, Fail) {
    let same = |o: &Outcome| o.fail.as_ref().map(|(_, g)| g.class == f.class && g.kind == f.kind).unwrap_or(false);
    let mut cur: Vec<N> = elems.iter().map(|e| (*e).clone()).collect();
    let (mut pre, mut post) = (pre, post);
    let mut best = f.clone();
    loop {
        let mut changed = false;
        for (p2, q2) in [(0usize, 0usize), (0, post), (pre, 0), (1.min(pre), 1.min(post))] {
            if (p2, q2) != (pre, post) && p2 <= pre && q2 <= post {
                let refs: Vec<&N> = cur.iter().collect();
                let o = run_history(&bases.get(p2), &refs, q2, sabotage);
                if same(&o) {
                    pre = p2;
                    post = q2;
                    best = o.fail.unwrap().1;
                    changed = true;
                    break;
                }
            }
        }
        if !changed {
            for i in 0..cur.len() {
                if cur.len() == 1 {
                    break;
                }
                let mut c = cur.clone();
                c.remove(i);
                let refs: Vec<&N> = c.iter().collect();
                let o = run_history(&bases.get(pre), &refs, post, sabotage);
                if same(&o) {
                    cur = c;
                    best = o.fail.unwrap().1;
                    changed = true;
                    break;
                }
            }
        }
        if !changed {
            break;
        }
    }
    (cur, pre, post, best)
}

struct Reporter<'a> {
    rep: &'a Report,
    bases: &'a Bases,
    seen: std::sync::Mutex<BTreeMap<String, u64>>,
    sabotage: u32,
}

impl Reporter<'_> {
    fn report(&self, elems: &[&N], pre: usize, post: usize, at: usize, f: &Fail, order: u64) {
        // shrink only when no failure of this (class, kind, width class) with a smaller order was handled
        let pre_sig = signature(f);
        {
            let mut g = self.seen.lock().unwrap();
            match g.get(&pre_sig) {
                Some(o) if *o <= order => return,
                _ => {
                    g.insert(pre_sig, order);
                }
            }
        }
        let (min, p2, q2, g) = shrink_history(self.bases, elems, pre, post, f, self.sabotage);
        let names: Vec<String> = min.iter().map(|e| e.name()).collect();
        let what = format!("history [{}] after {p2} unrelated insertions (rebuilt after {q2} more): {}", names.join("; "), g.what);
        self.rep.violation(Violation {
            sig: signature(&g),
            what,
            case: json!({"history": names, "pre_fill": p2, "post_fill": q2,
                "found_in": {"history": elems.iter().map(|e| e.name()).collect::<Vec<_>>(), "pre_fill": pre, "post_fill": post, "failing_element": at}}),
            order,
        });
    }
}

fn decode_index(mut idx: u64, n: usize, len: usize) -> Vec<usize> {
    let mut d = vec![0usize; len];
    for i in (0..len).rev() {
        d[i] = (idx % n as u64) as usize;
        idx /= n as u64;
    }
    d
}

fn run_stage(si: usize, st: &Stage, bases: &Bases, budget: &Budget, rp: &Reporter) -> (Acc, bool) {
    let n = st.pool.len();
    let total = (n as u64).pow(st.len as u32);
    let base = bases.get(FILLS[st.fill]);
    let stop = std::sync::atomic::AtomicBool::new(false);
    let chunk: u64 = if st.post == BIG_FILL || FILLS[st.fill] == BIG_FILL { 1 } else { 1024 };
    let n_chunks = total.div_ceil(chunk);
    let acc = (0..n_chunks)
        .into_par_iter()
        .fold(Acc::default, |mut acc, ci| {
            if stop.load(std::sync::atomic::Ordering::Relaxed) {
                return acc;
            }
            if budget.exceeded() {
                stop.store(true, std::sync::atomic::Ordering::Relaxed);
                return acc;
            }
            for idx in (ci * chunk)..((ci + 1) * chunk).min(total) {
                let digits = decode_index(idx, n, st.len);
                let elems: Vec<&N> = digits.iter().map(|d| &st.pool[*d]).collect();
                let o = run_history(&base, &elems, st.post, rp.sabotage);
                let text = history_text(&elems, FILLS[st.fill], st.post);
                acc.add(&text, &o);
                if idx % 250_007 == 0 {
                    rp.rep.sample(json!({"stage": st.name, "history": elems.iter().map(|e| e.name()).collect::<Vec<_>>(), "constructor_calls": o.total_calls}));
                }
                if let Some((at, f)) = &o.fail {
                    rp.report(&elems, FILLS[st.fill], st.post, *at, f, ((si as u64) << 44) + idx);
                }
            }
            acc
        })
        .reduce(Acc::default, Acc::merge);
    (acc, stop.load(std::sync::atomic::Ordering::Relaxed))
}

pub fn meta(rep: &mut Report) {
    rep.rule = "explicit-state search over construction histories of a real Context: every sequence of <= 3 (quick) / 4 (thorough, reduced pool) pool elements, per stage listed under coverage.stages; pools: 42 literal routes (Context convenience constructors, baa constructors, baa add/sub/not/neg/and/or/xor/mul/slice/extend/concat/shift results, Value/Builder/read-back) to 7 numbers at widths 1,8,64,65,128,129 grouped per number and per number across widths; symbols of names a,b,m with bit-vector and array types (array symbol named like a bit-vector symbol; via bv_symbol/array_symbol, string+symbol, Builder); strings; every operator constructor of Context over those leaves, the same through Builder, and calls on the results of the previous one or two elements. Every history runs on a fresh context, a context with 1 and one with 70 000 unrelated insertions (fresh names, literals, nodes: more than 2^16 strings and expressions), and is rebuilt after 0/1/70 000 (single-element and the two whole-pool histories) further insertions. Each constructor call is compared with the shadow map (structural key -> first reference). states = histories executed (every prefix is itself an enumerated history), transitions = constructor calls, traces_validated_against_impl = histories replayed on a real Context and compared call by call. distinct_nontrivial = distinct histories in which the shadow map predicted at least one hit (existing reference) and at least one miss (new reference)".into();
    rep.assumptions = vec![
        "operand references are only those produced in the same history (contexts are never mixed)".into(),
        "unrelated insertions use names f<i>/h<i>, width 16/32 and never collide with pool keys by construction".into(),
        "in the 70 000-insertion contexts the unrelated insertions are re-checked in full once per history and spot-checked (first, last, around index 2^16) after every call".into(),
        "baa multiplication above 128 bits (todo!()) is not used as a literal route".into(),
    ];
}

fn sabotage_level() -> u32 {
    std::env::var("C12_SABOTAGE").ok().and_then(|s| s.parse().ok()).unwrap_or(0)
}

/// `Context::lit` of an ARRAY value builds a store chain: the same array value (same default, same entries),
/// whatever the order in which it was filled and whichever instance holds it, is "the same literal value" and
/// must give the same reference - also a second time.
fn array_lit_probe(rep: &Report) {
    use baa::{ArrayMutOps, ArrayValue};
    let mut n = 0u64;
    for (iw, dw) in [(2u32, 2u32), (3, 1), (8, 8), (70, 3)] {
        for k in 1..=5usize {
            if iw < 20 && k > (1usize << iw) {
                continue;
            }
            // pairwise different indices (a repeated index would make the two fill orders two different values)
            let idx: Vec<Bv> = (0..k).map(|i| Bv::from_u64(iw, if iw >= 8 { i as u64 * 37 + 1 } else { i as u64 })).collect();
            let dat: Vec<Bv> = (0..k).map(|i| Bv::from_u64(dw, ((i as u64 + 1) % ((1u64 << dw) - 1)) + 1)).collect();
            let build = |order: &[usize]| -> ArrayValue {
                let mut a = ArrayValue::new_sparse(iw, &pvcore::evalref::bv_to_baa(&Bv::zero(dw)));
                for i in order {
                    a.store(&pvcore::evalref::bv_to_baa(&idx[*i]), &pvcore::evalref::bv_to_baa(&dat[*i]));
                }
                a
            };
            let fwd: Vec<usize> = (0..k).collect();
            let rev: Vec<usize> = (0..k).rev().collect();
            let r = catch(|| {
                let mut ctx = Context::default();
                let r1 = ctx.lit(baa::Value::Array(build(&fwd)));
                let mut all = vec![r1];
                for _ in 0..6 {
                    all.push(ctx.lit(baa::Value::Array(build(&fwd))));
                    all.push(ctx.lit(baa::Value::Array(build(&rev))));
                }
                all
            });
            n += 1;
            rep.add("array_literal_probes", 1);
            match r {
                Ok(all) => {
                    if all.iter().any(|r| *r != all[0]) {
                        let distinct: std::collections::BTreeSet<usize> = all.iter().map(|r| usize::from(*r)).collect();
                        rep.violation(Violation {
                            sig: format!("C12|dup|lit:ArrayValue|entries{}|", if k == 1 { "1" } else { "2+" }),
                            what: format!("Context::lit of one and the same array value ({iw}->{dw}, {k} non-default entries), built 13 times (entries stored in forward and in reverse order), returned {} different references: the store chain follows the iteration order of a hash map", distinct.len()),
                            case: json!({"history": [], "array_literal": {"iw": iw, "dw": dw, "entries": k}}),
                            order: (1u64 << 61) + n,
                        });
                    }
                }
                Err(p) if p.file().contains("baa-") => rep.add("array_literal_probe_baa_panics", 1),
                Err(p) => rep.violation(Violation { sig: format!("C12|panic|lit:ArrayValue|{}|", p.file()), what: format!("Context::lit of an array value panics: {} ({})", p.msg, p.short_loc()), case: json!({"history": [], "array_literal": {"iw": iw, "dw": dw, "entries": k}}), order: (1u64 << 61) + n }),
            }
        }
    }
}

/// The same for DENSE array values (the representation the simulator and the evaluator work with): the same
/// contents - including contents in which two values occur equally often, so that no value is "the" default -
/// must give the same reference every time, in one context.
fn dense_array_lit_probe(rep: &Report) {
    use baa::{ArrayMutOps, ArrayValue};
    let mut n = 0u64;
    // (index width, data width, contents by index)
    let mut shapes: Vec<(u32, u32, Vec<u64>)> = vec![];
    for dw in [1u32, 2, 3, 4, 8, 9, 16, 64, 65, 80] {
        let m = if dw >= 64 { u64::MAX } else { (1u64 << dw) - 1 };
        shapes.push((1, dw, vec![0, m]));
        shapes.push((1, dw, vec![m, m]));
        shapes.push((2, dw, vec![1 & m, 0, 1 & m, 0]));
        shapes.push((2, dw, vec![m, m >> 1, m >> 1, m]));
        shapes.push((2, dw, vec![0, 1 & m, m, m >> 1]));
        shapes.push((3, dw, vec![5 & m, 5 & m, 6 & m, 6 & m, 7 & m, 7 & m, m, m]));
        shapes.push((3, dw, vec![0, 0, 0, m, m, m, 1 & m, 1 & m]));
    }
    for (iw, dw, vals) in shapes {
        let build = || -> ArrayValue {
            let mut a = ArrayValue::new_dense(iw, &pvcore::evalref::bv_to_baa(&Bv::zero(dw)));
            for (i, v) in vals.iter().enumerate() {
                a.store(&pvcore::evalref::bv_to_baa(&Bv::from_u64(iw, i as u64)), &pvcore::evalref::bv_to_baa(&Bv::from_u64(dw, *v)));
            }
            a
        };
        let r = catch(|| {
            let mut ctx = Context::default();
            let all = (0..24).map(|_| ctx.lit(baa::Value::Array(build()))).collect::<Vec<_>>();
            // the literal denotes the contents it was built from
            let denotes = match pvcore::evalref::eval_ref(&ctx, all[0], &Default::default()) {
                pvcore::bv::Val::A(a) => a.table().iter().map(|b| b.bit_str()).collect::<Vec<String>>(),
                _ => vec![],
            };
            (all, denotes)
        });
        n += 1;
        rep.add("dense_array_literal_probes", 1);
        let wc = if dw <= 8 { "dw<=8" } else if dw <= 64 { "dw9-64" } else { "dw65+" };
        match r {
            Ok((all, denotes)) => {
                let want: Vec<String> = vals.iter().map(|v| Bv::from_u64(dw, *v).bit_str()).collect();
                if denotes != want {
                    rep.violation(Violation {
                        sig: format!("C12|denotation|lit:DenseArrayValue|{wc}|"),
                        what: format!("Context::lit of the dense array value ({iw}->{dw}) with contents {want:?} builds an expression that denotes {denotes:?}"),
                        case: json!({"history": [], "dense_array_literal": {"iw": iw, "dw": dw, "vals": vals}}),
                        order: (1u64 << 61) + 2000 + n,
                    });
                }
                if all.iter().any(|r| *r != all[0]) {
                    let distinct: std::collections::BTreeSet<usize> = all.iter().map(|r| usize::from(*r)).collect();
                    rep.violation(Violation {
                        sig: format!("C12|dup|lit:DenseArrayValue|{wc}|"),
                        what: format!("Context::lit of one and the same dense array value ({iw}->{dw}, contents {vals:?}), built 24 times in one context, returned {} different references", distinct.len()),
                        case: json!({"history": [], "dense_array_literal": {"iw": iw, "dw": dw, "vals": vals}}),
                        order: (1u64 << 61) + 1000 + n,
                    });
                }
            }
            Err(p) => rep.violation(Violation {
                sig: format!("C12|panic|lit:DenseArrayValue|{}|{wc}", p.file()),
                what: format!("Context::lit of a dense array value ({iw}->{dw}, contents {vals:?}) panics: {} ({})", p.msg, p.short_loc()),
                case: json!({"history": [], "dense_array_literal": {"iw": iw, "dw": dw, "vals": vals}}),
                order: (1u64 << 61) + 1000 + n,
            }),
        }
    }
}

pub fn run(opts: &Opts, rep: &Report) {
    let tier = match opts.mode {
        Mode::Run(t) => t,
        _ => unreachable!(),
    };
    let budget = Budget::new(opts.budget_s);
    array_lit_probe(rep);
    dense_array_lit_probe(rep);
    let mut bases = Bases { b: vec![] };
    for level in FILLS {
        match Base::build(level) {
            Ok(b) => {
                rep.add("filler_calls", b.calls);
                bases.b.push(Arc::new(b));
            }
            Err(f) => {
                let mut f = f;
                f.kind = "filler".into();
                rep.violation(Violation { sig: signature(&f), what: format!("while inserting {level} unrelated expressions: {}", f.what), case: json!({"history": [], "pre_fill": level, "post_fill": 0}), order: 0 });
                return;
            }
        }
    }
    let big = bases.get(BIG_FILL);
    if big.recs.len() <= 65_536 || big.strs.len() <= 65_536 {
        eprintln!("MACHINERY: the large context does not pass the 2^16 mark ({} nodes, {} strings)", big.recs.len(), big.strs.len());
        std::process::exit(2);
    }
    let rp = Reporter { rep, bases: &bases, seen: Default::default(), sabotage: sabotage_level() };
    let sts = stages(tier);
    let mut total = Acc::default();
    let mut log = vec![];
    let mut capped = false;
    let mut per_fill = [0u64; 3];
    for (si, st) in sts.iter().enumerate() {
        if budget.exceeded() {
            rep.cap_hit(&format!("budget: stage {} not started", st.name));
            log.push(json!({"stage": st.name, "status": "skipped"}));
            capped = true;
            continue;
        }
        let t0 = std::time::Instant::now();
        let (acc, stopped) = run_stage(si + 1, st, &bases, &budget, &rp);
        if stopped {
            rep.cap_hit(&format!("budget: stage {} stopped after {} histories", st.name, acc.histories));
            capped = true;
        }
        per_fill[st.fill] += acc.histories;
        log.push(json!({"stage": st.name, "pool": st.pool.len(), "histories": acc.histories, "constructor_calls": acc.calls, "failing_histories": acc.failing, "wall_s": (t0.elapsed().as_secs_f64() * 100.0).round() / 100.0}));
        rep.distinct_hashes(&acc.nontrivial);
        let mut a = acc;
        a.nontrivial = vec![];
        total = total.merge(a);
    }
    // two long histories: the whole pool in one context (forwards / backwards), 70 000 unrelated
    // insertions, then everything rebuilt
    if !budget.exceeded() {
        let mut pool = full_pool();
        pool.extend(builder_pool());
        for (w, k, _) in crate::c12_lits::groups() {
            // without the routes known to produce non-canonical baa values (they end a history)
            pool.extend(route_pool(w, k).into_iter().filter(|n| !matches!(n, N::Lit(_, _, Route::Shl))));
        }
        for (i, rev) in [false, true].into_iter().enumerate() {
            let mut elems: Vec<&N> = pool.iter().collect();
            if rev {
                elems.reverse();
            }
            let o = run_history(&bases.get(0), &elems, BIG_FILL, rp.sabotage);
            let text = format!("long{i}");
            total.add(&text, &o);
            per_fill[0] += 1;
            log.push(json!({"stage": format!("whole-pool{}/post{BIG_FILL}", if rev { "-reversed" } else { "" }), "pool": pool.len(), "histories": 1, "constructor_calls": o.total_calls, "failing_histories": o.fail.is_some() as u64}));
            if let Some((at, f)) = &o.fail {
                // reported unshrunk apart from the fill (the history is one object)
                rp.report(&elems[..=*at], 0, BIG_FILL, *at, f, (1u64 << 60) + i as u64);
            }
        }
    } else {
        rep.cap_hit("budget: whole-pool histories not run");
        capped = true;
    }
    rep.add("evaluations", total.histories);
    rep.add("states", total.histories);
    rep.add("transitions", total.calls);
    rep.add("traces_validated_against_impl", total.histories);
    rep.add("shadow:hit", total.hits);
    rep.add("shadow:miss", total.misses);
    rep.add("shadow:normalised", total.norm);
    rep.add("element_inapplicable", total.inapplicable);
    rep.add("noncanonical_baa_inputs", total.noncanon_inputs);
    rep.add("failing_histories", total.failing);
    rep.max("max_reference_index", total.max_index as u64);
    for (i, f) in FILLS.iter().enumerate() {
        rep.add(&format!("histories:pre_fill_{f}"), per_fill[i]);
    }
    for (k, v) in total.classes.iter() {
        rep.add(&format!("failing:{k}"), *v);
    }
    if std::env::var("C12_LOG").is_ok() {
        for l in log.iter() {
            eprintln!("{l}");
        }
    }
    rep.note("stages", Value::Array(log));
    // vacuity guards (decided by the enumerator and the shadow map only)
    let missing: Vec<&str> = ALL_VARIANTS.iter().filter(|v| total.variants & variant_bit(v) == 0).cloned().collect();
    let mut bad = vec![];
    if !capped && !missing.is_empty() {
        bad.push(format!("Expr variants never expected: {missing:?}"));
    }
    if total.hits == 0 || total.misses == 0 || total.norm == 0 {
        bad.push(format!("degenerate shadow outcomes: hits {} misses {} normalised {}", total.hits, total.misses, total.norm));
    }
    if !capped && per_fill.iter().any(|x| *x == 0) {
        bad.push(format!("a fill level was never used: {per_fill:?}"));
    }
    if !capped && total.max_index <= 65_536 {
        bad.push(format!("no history-built reference beyond index 2^16 (max {})", total.max_index));
    }
    for (w, k, _) in crate::c12_lits::groups() {
        if route_pool(w, k).len() < 8 {
            bad.push(format!("literal group ({w},{k:?}) has fewer than 8 routes"));
        }
    }
    if !bad.is_empty() {
        eprintln!("MACHINERY: C12 vacuity guard: {}", bad.join("; "));
        std::process::exit(2);
    }
}

pub fn replay(case: &Value, rep: &Report) {
    let reg = registry();
    let names: Vec<String> = case["history"].as_array().expect("history").iter().map(|v| v.as_str().expect("name").to_string()).collect();
    let elems: Vec<&N> = names
        .iter()
        .map(|n| {
            reg.get(n).unwrap_or_else(|| {
                eprintln!("unknown pool element {n}");
                std::process::exit(2)
            })
        })
        .collect();
    let pre = case["pre_fill"].as_u64().unwrap_or(0) as usize;
    let post = case["post_fill"].as_u64().unwrap_or(0) as usize;
    let base = match Base::build(pre) {
        Ok(b) => b,
        Err(mut f) => {
            f.kind = "filler".into();
            rep.violation(Violation { sig: signature(&f), what: f.what.clone(), case: case.clone(), order: 0 });
            return;
        }
    };
    let o = run_history(&base, &elems, post, sabotage_level());
    if let Some((_, f)) = o.fail {
        rep.violation(Violation { sig: signature(&f), what: format!("history [{}] after {pre} unrelated insertions (rebuilt after {post} more): {}", names.join("; "), f.what), case: case.clone(), order: 0 });
    }
}
