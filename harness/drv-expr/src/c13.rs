//! C13 — simplification terminates, is idempotent and cache-transparent.
//!
//! (i)   termination: every `simplify` call is timed; a watchdog thread sees calls that run longer
//!       than the deadline (>= 100x the slowest call observed so far, at least 5 s); such a term is
//!       re-run in a fresh thread with the same deadline and reported when it exceeds it again.
//! (ii)  idempotence over the C01 term space: `simplify(simplify(t)) == simplify(t)` as references,
//!       with the same simplifier instance and with a fresh one, sparse and dense cache,
//!       and `simplify_single_expression`.
//! (iii) cache transparency over histories: all ordered sequences of <= 2 (quick) / 3 (thorough)
//!       terms of a pool that shares sub-terms, fed to ONE simplifier in ONE context that already
//!       holds the whole pool: the result for the last term equals what a fresh simplifier
//!       returns (same context: equal references; pristine identically-built context: equal
//!       structure, equal reference when the node existed there).
//! (iv)  sparse and dense cache containers agree call by call.
//!
//! Terms on which the simplifier panics (baa `todo!()`/overflow at widths > 64) belong to C01 and
//! are skipped (counted).

use crate::c12::{Key, decode};
use crate::stages;
use patronus::expr::{Context, DenseExprMetaData, Expr, ExprRef, Simplifier, SparseExprMap, simplify_single_expression};
use pvcore::run::*;
use pvcore::sweep::*;
use pvcore::terms::*;
use rayon::prelude::*;
use rustc_hash::FxHashSet;
use serde_json::{Value, json};
use std::sync::atomic::{AtomicBool, AtomicU64, Ordering};
use std::sync::{Arc, Mutex};
use std::time::{Duration, Instant};

// ------------------------------------------------------------------------------------ subject wrapper

fn sabotage() -> u32 {
    static S: std::sync::OnceLock<u32> = std::sync::OnceLock::new();
    *S.get_or_init(|| std::env::var("C13_SABOTAGE").ok().and_then(|s| s.parse().ok()).unwrap_or(0))
}

#[derive(Clone, Copy, Debug, PartialEq, Eq)]
pub enum Kind {
    Sparse,
    Dense,
}

enum Inner {
    Sparse(Simplifier<SparseExprMap<Option<ExprRef>>>),
    Dense(Simplifier<DenseExprMetaData<Option<ExprRef>>>),
}

/// The real `Simplifier` (sparse or dense cache). With `C13_SABOTAGE` set (self-tests of this
/// check only) it is wrapped in a function that emulates a defect:
/// 1 = a stale cache entry: an expression whose first operand was itself simplified earlier by this
///     instance is answered with its first rewrite (itself) instead of the fixed point;
/// 2 = a result that is not a fixed point (operands of an `or` result are swapped);
/// 3 = non-termination on `xor` of two 3-bit symbols.
pub struct Simp {
    inner: Inner,
    asked: FxHashSet<ExprRef>,
}

impl Simp {
    pub fn new(kind: Kind) -> Simp {
        let inner = match kind {
            Kind::Sparse => Inner::Sparse(Simplifier::new(SparseExprMap::default())),
            Kind::Dense => Inner::Dense(Simplifier::new(DenseExprMetaData::default())),
        };
        Simp { inner, asked: Default::default() }
    }
    fn real(&mut self, ctx: &mut Context, e: ExprRef) -> ExprRef {
        match &mut self.inner {
            Inner::Sparse(s) => s.simplify(ctx, e),
            Inner::Dense(s) => s.simplify(ctx, e),
        }
    }
    /// one timed subject call
    pub fn simplify(&mut self, ctx: &mut Context, e: ExprRef) -> ExprRef {
        let sab = sabotage();
        let t0 = watch_begin();
        let r = if sab == 0 {
            self.real(ctx, e)
        } else {
            let first_kid = pvcore::evalref::children(&ctx[e]).first().cloned();
            let stale = sab == 1 && first_kid.map(|k| self.asked.contains(&k) && !ctx[k].is_symbol()).unwrap_or(false);
            self.asked.insert(e);
            if sab == 3
                && let Expr::BVXor(a, b, 3) = ctx[e]
                && ctx[a].is_symbol()
                && ctx[b].is_symbol()
            {
                loop {
                    std::thread::sleep(Duration::from_millis(200));
                }
            }
            if stale {
                e
            } else {
                let r = self.real(ctx, e);
                match ctx[r] {
                    Expr::BVOr(a, b, _) if sab == 2 && a != b => ctx.or(b, a),
                    _ => r,
                }
            }
        };
        watch_end(t0);
        r
    }
}

// ------------------------------------------------------------------------------------ watchdog

/// smallest deadline; the effective one is max(this, 100 x slowest observed call)
pub const MIN_DEADLINE_MS: u64 = 5_000;

struct Slot {
    /// start of the running subject call in ns since `EPOCH` (0 = none running)
    start: AtomicU64,
    /// what the thread is working on (term or history text)
    what: Mutex<String>,
}

static SLOTS: Mutex<Vec<Arc<Slot>>> = Mutex::new(vec![]);
static SLOWEST_NS: AtomicU64 = AtomicU64::new(0);
static CALLS: AtomicU64 = AtomicU64::new(0);
static EPOCH: std::sync::OnceLock<Instant> = std::sync::OnceLock::new();

thread_local! {
    static MY: Arc<Slot> = {
        let s = Arc::new(Slot { start: AtomicU64::new(0), what: Mutex::new(String::new()) });
        SLOTS.lock().unwrap().push(s.clone());
        s
    };
    static LOCAL_CALLS: std::cell::Cell<u64> = const { std::cell::Cell::new(0) };
}

fn now_ns() -> u64 {
    EPOCH.get_or_init(Instant::now).elapsed().as_nanos() as u64 + 1
}

fn watch_set(what: impl FnOnce() -> String) {
    MY.with(|s| *s.what.lock().unwrap() = what());
}

fn watch_begin() -> u64 {
    let t = now_ns();
    MY.with(|s| s.start.store(t, Ordering::Relaxed));
    t
}

fn watch_end(t0: u64) {
    let d = now_ns().saturating_sub(t0);
    MY.with(|s| s.start.store(0, Ordering::Relaxed));
    SLOWEST_NS.fetch_max(d, Ordering::Relaxed);
    LOCAL_CALLS.with(|c| c.set(c.get() + 1));
}

fn flush_calls() {
    LOCAL_CALLS.with(|c| {
        CALLS.fetch_add(c.get(), Ordering::Relaxed);
        c.set(0);
    });
}

fn deadline_ns() -> u64 {
    (MIN_DEADLINE_MS * 1_000_000).max(100 * SLOWEST_NS.load(Ordering::Relaxed))
}

/// run `f` in a fresh thread; `None` when it does not return within the deadline (the thread is
/// left behind; the process exits at the end of the run)
fn with_deadline<R: Send + 'static>(f: impl FnOnce() -> R + Send + 'static, deadline: Duration) -> Option<R> {
    let (tx, rx) = std::sync::mpsc::channel();
    std::thread::spawn(move || {
        let r = f();
        let _ = tx.send(r);
    });
    rx.recv_timeout(deadline).ok()
}

/// `what` is either an s-expression (a term of the sweep) or `history: t1 ;; t2 ;; ...`
fn rerun_text(what: &str) {
    if let Some(h) = what.strip_prefix("history: ") {
        let terms: Vec<T> = h.split(" ;; ").filter_map(|s| parse_t(s).ok()).collect();
        let pool = Pool::build();
        let idx: Vec<usize> = terms.iter().filter_map(|t| pool.terms.iter().position(|p| p == t)).collect();
        let _ = history_once(&pool, &idx, Kind::Sparse);
        let _ = history_once(&pool, &idx, Kind::Dense);
    } else if let Some(h) = what.strip_prefix("childparent: ") {
        let terms: Vec<T> = h.split(" ;; ").filter_map(|s| parse_t(s).ok()).collect();
        if terms.len() == 2 {
            let _ = check_child_parent(&terms[0], &terms[1]);
        }
    } else if let Ok(t) = parse_t(what) {
        let _ = term_outcome(&t);
    }
}

fn nonterm_violation(rep: &Report, what: &str, waited_ms: u64) {
    let (shape, w, case) = if let Some(h) = what.strip_prefix("history: ") {
        let terms: Vec<String> = h.split(" ;; ").map(|s| s.to_string()).collect();
        let last = terms.last().and_then(|s| parse_t(s).ok());
        (last.as_ref().map(sig_shape).unwrap_or_default(), last.as_ref().map(operand_width).unwrap_or(0), json!({"kind": "history", "terms": terms}))
    } else if let Some(h) = what.strip_prefix("childparent: ") {
        let terms: Vec<String> = h.split(" ;; ").map(|s| s.to_string()).collect();
        let last = terms.last().and_then(|s| parse_t(s).ok());
        (
            last.as_ref().map(sig_shape).unwrap_or_default(),
            last.as_ref().map(operand_width).unwrap_or(0),
            json!({"kind": "child-parent", "child": terms.first().cloned().unwrap_or_default(), "parent": terms.last().cloned().unwrap_or_default()}),
        )
    } else {
        let t = parse_t(what).ok();
        (t.as_ref().map(sig_shape).unwrap_or_default(), t.as_ref().map(operand_width).unwrap_or(0), json!({"kind": "term", "term": what}))
    };
    rep.violation(Violation {
        sig: format!("C13|nontermination|{shape}|{}|", wclass(w.max(1))),
        what: format!("simplify did not return within {waited_ms} ms (>= 100x the slowest other call), twice, on {what}"),
        case,
        order: 0,
    });
}

/// Poll the slots; on a call running past the deadline re-run its input in a fresh thread and,
/// when that also exceeds the deadline, record the violation, write the evidence and exit.
fn watchdog(rep: &Report, done: &AtomicBool) {
    while !done.load(Ordering::Relaxed) {
        std::thread::sleep(Duration::from_millis(100));
        let slots: Vec<Arc<Slot>> = SLOTS.lock().unwrap().clone();
        let now = now_ns();
        for s in slots {
            let st = s.start.load(Ordering::Relaxed);
            let dl = deadline_ns();
            if st != 0 && now.saturating_sub(st) > dl {
                let what = s.what.lock().unwrap().clone();
                rep.add("watchdog_suspects", 1);
                let w2 = what.clone();
                let again = with_deadline(move || rerun_text(&w2), Duration::from_nanos(dl));
                if again.is_none() {
                    nonterm_violation(rep, &what, dl / 1_000_000);
                    rep.cap_hit("a simplify call did not terminate: the sweep was abandoned");
                    let code = rep.finish();
                    std::process::exit(code);
                }
                // finished on the second attempt: give the original thread one more deadline
                std::thread::sleep(Duration::from_nanos(dl));
                if s.start.load(Ordering::Relaxed) == st {
                    eprintln!("MACHINERY: C13 a simplify call hangs in-process but not when repeated: {what}");
                    std::process::exit(2);
                }
                rep.add("watchdog_slow_but_finished", 1);
            }
        }
    }
}

// ------------------------------------------------------------------------------------ structure of a result

/// context-independent text of the expression behind `e` (own traversal over the decoded keys)
pub fn structure(ctx: &Context, e: ExprRef) -> String {
    match decode(ctx, e) {
        Key::Sym(n, ty) => format!("{n}:{ty:?}"),
        Key::Lit(w, v) => format!("{w}'d{v}"),
        Key::Op(tag, p, kids) => {
            let k: Vec<String> = kids.iter().map(|k| structure(ctx, *k)).collect();
            format!("({tag} {} {} {})", p[0], p[1], k.join(" "))
        }
    }
}

// ------------------------------------------------------------------------------------ (i)(ii)(iv) per term

#[derive(Debug, Clone)]
pub enum TermOutcome {
    Ok { fired: bool },
    SkippedPanic(String),
    Fail { class: String, what: String },
}

pub fn term_outcome(t: &T) -> TermOutcome {
    watch_set(|| t.to_string());
    let fail = |class: &str, what: String| TermOutcome::Fail { class: class.into(), what };
    // sparse cache: result, same-instance and fresh-instance idempotence
    let mut ctx = Context::default();
    let e = t.build(&mut ctx);
    let mut s = Simp::new(Kind::Sparse);
    let r1 = match catch(|| s.simplify(&mut ctx, e)) {
        Ok(r) => r,
        Err(p) => return TermOutcome::SkippedPanic(p.file()),
    };
    let show = |ctx: &Context, r: ExprRef| structure(ctx, r);
    match catch(|| s.simplify(&mut ctx, r1)) {
        Ok(r2) if r2 != r1 => {
            return fail("idempotence-same-instance", format!("simplify({t}) = `{}` but simplifying that again with the same simplifier gives `{}`", show(&ctx, r1), show(&ctx, r2)));
        }
        Ok(_) => {}
        Err(p) => return fail(&format!("panic-resimplify|{}", p.file()), format!("simplifying the result `{}` of {t} again panicked: {} ({})", show(&ctx, r1), p.msg, p.short_loc())),
    }
    match catch(|| Simp::new(Kind::Sparse).simplify(&mut ctx, r1)) {
        Ok(r3) if r3 != r1 => {
            return fail("idempotence", format!("simplify({t}) = `{}` but a fresh simplifier turns that into `{}`", show(&ctx, r1), show(&ctx, r3)));
        }
        Ok(_) => {}
        Err(p) => return fail(&format!("panic-resimplify|{}", p.file()), format!("simplifying the result `{}` of {t} with a fresh simplifier panicked: {} ({})", show(&ctx, r1), p.msg, p.short_loc())),
    }
    match catch(|| Simp::new(Kind::Dense).simplify(&mut ctx, r1)) {
        Ok(r3) if r3 != r1 => {
            return fail("idempotence-dense", format!("simplify({t}) = `{}` but a fresh simplifier with the dense cache turns that into `{}`", show(&ctx, r1), show(&ctx, r3)));
        }
        Ok(_) => {}
        Err(p) => return fail(&format!("panic-resimplify|{}", p.file()), format!("simplifying the result of {t} with the dense cache panicked: {} ({})", p.msg, p.short_loc())),
    }
    // dense cache in an identically built context: same reference, call by call
    let mut ctx2 = Context::default();
    let e2 = t.build(&mut ctx2);
    let mut d = Simp::new(Kind::Dense);
    match catch(|| {
        let d1 = d.simplify(&mut ctx2, e2);
        let d2 = d.simplify(&mut ctx2, d1);
        (d1, d2)
    }) {
        Ok((d1, d2)) => {
            if e2 != e || d1 != r1 {
                return fail("sparse-dense", format!("simplify({t}) gives `{}` ({r1:?}) with the sparse cache and `{}` ({d1:?}) with the dense cache in an identically built context", show(&ctx, r1), show(&ctx2, d1)));
            }
            if d2 != d1 {
                return fail("idempotence-same-instance-dense", format!("dense cache: simplify({t}) = `{}` but simplifying that again gives `{}`", show(&ctx2, d1), show(&ctx2, d2)));
            }
        }
        Err(p) => return fail(&format!("panic-dense-only|{}", p.file()), format!("the dense-cache simplifier panicked on {t} although the sparse one did not: {} ({})", p.msg, p.short_loc())),
    }
    // the one-shot entry point
    let mut ctx3 = Context::default();
    let e3 = t.build(&mut ctx3);
    watch_set(|| t.to_string());
    let t0 = watch_begin();
    let r = catch(|| simplify_single_expression(&mut ctx3, e3));
    watch_end(t0);
    match r {
        Ok(r) if r != r1 => return fail("single-vs-instance", format!("simplify_single_expression({t}) gives `{}` but a Simplifier instance gives `{}`", show(&ctx3, r), show(&ctx, r1))),
        Ok(_) => {}
        Err(p) => return fail(&format!("panic-single-only|{}", p.file()), format!("simplify_single_expression panicked on {t} although Simplifier::simplify did not: {} ({})", p.msg, p.short_loc())),
    }
    TermOutcome::Ok { fired: r1 != e }
}

fn check_term(t: &T, order: u64, rep: &Report) -> bool {
    match term_outcome(t) {
        TermOutcome::Ok { fired } => fired,
        TermOutcome::SkippedPanic(file) => {
            rep.add("skipped_simplifier_panic", 1);
            rep.add(&format!("skipped_panic:{file}"), 1);
            false
        }
        TermOutcome::Fail { class, .. } => {
            let same = |s: &T| matches!(term_outcome(s), TermOutcome::Fail { class: c, .. } if c == class);
            let min = shrink(t, &same);
            let (class, what) = match term_outcome(&min) {
                TermOutcome::Fail { class, what } => (class, what),
                _ => match term_outcome(t) {
                    TermOutcome::Fail { class, what } => (class, what),
                    _ => return false,
                },
            };
            rep.violation(Violation {
                sig: format!("C13|{}|{}|{}|", class, sig_shape(&min), wclass(operand_width(&min))),
                what,
                case: json!({"kind": "term", "term": min.to_string(), "found_in": t.to_string()}),
                order,
            });
            false
        }
    }
}

// ------------------------------------------------------------------------------------ (iii) histories

pub struct Pool {
    pub terms: Vec<T>,
    pub base: Context,
    pub refs: Vec<ExprRef>,
    pub base_len: usize,
}

/// every T1 term over the two 4-bit symbols (no literals, no div/rem) plus T2 terms that extend
/// some of them (with 1-bit and 4-bit symbols and the reduced literals)
pub fn pool_terms() -> Vec<T> {
    let mut c1 = Cfg::new(&[4]);
    c1.lits = Lits::None;
    c1.ext_by = vec![1];
    c1.divrem = false;
    let mut out = t1(&c1);
    let mut c2 = Cfg::new(&[1, 4]);
    c2.lits = Lits::Reduced;
    c2.ext_by = vec![1];
    c2.divrem = false;
    let a = T::sym(&sym_name(Ty::Bv(4), 0), Ty::Bv(4));
    let b = T::sym(&sym_name(Ty::Bv(4), 1), Ty::Bv(4));
    let inners = vec![
        T::bin(Bin::And, a.clone(), b.clone()),
        T::bin(Bin::Or, a.clone(), b.clone()),
        T::not(a.clone()),
        T::not(b.clone()),
        T::bin(Bin::Add, a.clone(), b.clone()),
        T::bin(Bin::Concat, a.clone(), b.clone()),
        T::Slice(2, 1, Box::new(a.clone())),
        T::ZExt(1, Box::new(a.clone())),
        T::bin(Bin::Eq, a.clone(), b.clone()),
        T::bin(Bin::Ugt, a.clone(), b.clone()),
    ];
    for i in inners.iter() {
        let ws = wrap_all(i, &c2);
        let step = (ws.len() / 6).max(1);
        for w in ws.into_iter().step_by(step).take(6) {
            if !out.contains(&w) {
                out.push(w);
            }
        }
    }
    // rule-bearing combinations of two pool members
    let extra = vec![
        T::bin(Bin::And, T::not(a.clone()), T::not(b.clone())),
        T::bin(Bin::Or, T::not(a.clone()), T::not(b.clone())),
        T::not(T::not(a.clone())),
        T::bin(Bin::And, T::bin(Bin::And, a.clone(), b.clone()), T::not(T::bin(Bin::And, a.clone(), b.clone()))),
        T::bin(Bin::Eq, T::bin(Bin::Concat, a.clone(), b.clone()), T::Lit(pvcore::bv::Bv::from_u64(8, 0xA5))),
        T::ite(T::bin(Bin::Eq, a.clone(), b.clone()), T::bin(Bin::And, a.clone(), b.clone()), T::bin(Bin::Or, a.clone(), b.clone())),
        T::Slice(1, 0, Box::new(T::Slice(2, 1, Box::new(a.clone())))),
        T::Slice(4, 1, Box::new(T::ZExt(1, Box::new(a.clone())))),
        T::bin(Bin::Implies, T::bin(Bin::Eq, a.clone(), b.clone()), T::bin(Bin::Ugt, a.clone(), b.clone())),
    ];
    for e in extra {
        if !out.contains(&e) {
            out.push(e);
        }
    }
    out
}

impl Pool {
    pub fn build() -> Pool {
        let terms = pool_terms();
        let mut base = Context::default();
        let refs: Vec<ExprRef> = terms.iter().map(|t| t.build(&mut base)).collect();
        let base_len = 1 + refs.iter().map(|r| usize::from(*r)).max().unwrap_or(0);
        Pool { terms, base, refs, base_len }
    }
}

/// results of one history with one cache kind; `Err` = the simplifier panicked (history skipped)
pub struct HistRun {
    pub ctx: Context,
    pub results: Vec<ExprRef>,
    pub resimplified_last: ExprRef,
    pub fresh_last: ExprRef,
    pub calls: u64,
}

pub fn history_once(pool: &Pool, idx: &[usize], kind: Kind) -> Result<HistRun, PanicInfo> {
    let mut ctx = pool.base.clone();
    let mut s = Simp::new(kind);
    let mut results = vec![];
    let mut calls = 0;
    catch(|| {
        for i in idx {
            results.push(s.simplify(&mut ctx, pool.refs[*i]));
            calls += 1;
        }
        let last = *results.last().unwrap();
        let again = s.simplify(&mut ctx, last);
        // a fresh simplifier in the very same context
        let fresh = Simp::new(kind).simplify(&mut ctx, pool.refs[*idx.last().unwrap()]);
        (again, fresh)
    })
    .map(|(again, fresh)| HistRun { ctx, results, resimplified_last: again, fresh_last: fresh, calls })
}

pub struct Baseline {
    pub refs: Vec<Option<ExprRef>>,
    pub structure: Vec<Option<String>>,
}

pub fn baseline(pool: &Pool) -> Baseline {
    let mut refs = vec![];
    let mut st = vec![];
    for (i, r) in pool.refs.iter().enumerate() {
        watch_set(|| pool.terms[i].to_string());
        let mut ctx = pool.base.clone();
        match catch(|| Simp::new(Kind::Sparse).simplify(&mut ctx, *r)) {
            Ok(x) => {
                refs.push(Some(x));
                st.push(Some(structure(&ctx, x)));
            }
            Err(_) => {
                refs.push(None);
                st.push(None);
            }
        }
    }
    Baseline { refs, structure: st }
}

/// None = fine, Some((class, what))
pub fn history_check(pool: &Pool, bl: &Baseline, idx: &[usize]) -> (Option<(String, String)>, u64, bool) {
    watch_set(|| format!("history: {}", idx.iter().map(|i| pool.terms[*i].to_string()).collect::<Vec<_>>().join(" ;; ")));
    let last = *idx.last().unwrap();
    let names = || idx.iter().map(|i| pool.terms[*i].to_string()).collect::<Vec<_>>().join(" ; ");
    let (sp, de) = match (history_once(pool, idx, Kind::Sparse), history_once(pool, idx, Kind::Dense)) {
        (Ok(a), Ok(b)) => (a, b),
        (Err(_), Err(_)) => return (None, 0, true),
        (Err(p), Ok(_)) | (Ok(_), Err(p)) => {
            return (Some((format!("panic-one-cache-kind|{}", p.file()), format!("history [{}]: the simplifier panicked with one cache container only: {} ({})", names(), p.msg, p.short_loc()))), 0, false);
        }
    };
    let calls = sp.calls + de.calls;
    let t = &pool.terms[last];
    for (run, kind) in [(&sp, "sparse"), (&de, "dense")] {
        let r = *run.results.last().unwrap();
        if run.fresh_last != r {
            return (
                Some((
                    format!("cache-history-{kind}"),
                    format!("after simplifying [{}] with one {kind}-cache simplifier, {t} simplifies to `{}` but a fresh simplifier in the same context gives `{}`", names(), structure(&run.ctx, r), structure(&run.ctx, run.fresh_last)),
                )),
                calls,
                false,
            );
        }
        if run.resimplified_last != r {
            return (
                Some((
                    format!("idempotence-in-history-{kind}"),
                    format!("after [{}], the result `{}` of {t} is simplified further to `{}` by the same simplifier", names(), structure(&run.ctx, r), structure(&run.ctx, run.resimplified_last)),
                )),
                calls,
                false,
            );
        }
        if let (Some(b_ref), Some(b_st)) = (bl.refs[last], bl.structure[last].as_ref()) {
            let st = structure(&run.ctx, r);
            if &st != b_st {
                return (
                    Some((format!("cache-baseline-{kind}"), format!("alone in an identically built context {t} simplifies to `{b_st}`, after [{}] with one {kind}-cache simplifier to `{st}`", names()))),
                    calls,
                    false,
                );
            }
            // nodes that exist in the pool context have the same reference in every clone of it
            if (usize::from(r) < pool.base_len || usize::from(b_ref) < pool.base_len || idx.len() == 1) && r != b_ref {
                return (
                    Some((format!("cache-baseline-ref-{kind}"), format!("alone in an identically built context {t} simplifies to {b_ref:?}, after [{}] to {r:?} (same structure `{st}`)", names()))),
                    calls,
                    false,
                );
            }
        }
    }
    for (j, (a, b)) in sp.results.iter().zip(de.results.iter()).enumerate() {
        if a != b {
            return (
                Some((
                    "sparse-dense-history".into(),
                    format!("history [{}]: call {} returns `{}` ({a:?}) with the sparse cache and `{}` ({b:?}) with the dense cache", names(), j + 1, structure(&sp.ctx, *a), structure(&de.ctx, *b)),
                )),
                calls,
                false,
            );
        }
    }
    (None, calls, false)
}

fn report_history(rep: &Report, pool: &Pool, bl: &Baseline, idx: &[usize], class: &str, order: u64) {
    // minimise: drop elements other than the last while the same class fails
    let mut cur = idx.to_vec();
    loop {
        let mut changed = false;
        for i in 0..cur.len().saturating_sub(1) {
            let mut c = cur.clone();
            c.remove(i);
            if let (Some((cl, _)), _, _) = history_check(pool, bl, &c)
                && cl == class
            {
                cur = c;
                changed = true;
                break;
            }
        }
        if !changed {
            break;
        }
    }
    let (class, what) = match history_check(pool, bl, &cur).0 {
        Some(x) => x,
        None => return,
    };
    let last = &pool.terms[*cur.last().unwrap()];
    rep.violation(Violation {
        sig: format!("C13|{}|{}|{}|len{}", class, sig_shape(last), wclass(operand_width(last)), cur.len()),
        what,
        case: json!({"kind": "history", "terms": cur.iter().map(|i| pool.terms[*i].to_string()).collect::<Vec<_>>()}),
        order,
    });
}

fn run_histories(rep: &Report, budget: &Budget, max_len: usize) {
    let pool = Pool::build();
    let bl = baseline(&pool);
    let n = pool.terms.len();
    rep.add("history_pool_terms", n as u64);
    rep.add("history_pool_context_nodes", pool.base_len as u64);
    // vacuity: the pool shares sub-terms and contains terms the simplifier rewrites
    let rewritten = pool.refs.iter().zip(bl.refs.iter()).filter(|(a, b)| b.map(|b| b != **a).unwrap_or(false)).count();
    let shared = pool.terms.iter().filter(|t| t.kids().iter().any(|k| pool.terms.contains(k))).count();
    rep.add("history_pool_rewritten_by_baseline", rewritten as u64);
    rep.add("history_pool_terms_with_pool_subterm", shared as u64);
    if n < 60 || shared < 20 {
        eprintln!("MACHINERY: C13 history pool degenerate: {n} terms, {shared} with a pool member as operand");
        std::process::exit(2);
    }
    let states = AtomicU64::new(1); // the empty prefix
    for len in 1..=max_len {
        if budget.exceeded() {
            rep.cap_hit(&format!("budget: histories of length {len} not started"));
            continue;
        }
        let total = (n as u64).pow(len as u32);
        let stop = AtomicBool::new(false);
        let chunk = 256u64;
        let done: u64 = (0..total.div_ceil(chunk))
            .into_par_iter()
            .map(|ci| {
                if stop.load(Ordering::Relaxed) {
                    return 0;
                }
                if budget.exceeded() {
                    stop.store(true, Ordering::Relaxed);
                    return 0;
                }
                let (mut hist, mut calls, mut skipped, mut hs) = (0u64, 0u64, 0u64, vec![]);
                for h in (ci * chunk)..((ci + 1) * chunk).min(total) {
                    let mut idx = vec![0usize; len];
                    let mut x = h;
                    for i in (0..len).rev() {
                        idx[i] = (x % n as u64) as usize;
                        x /= n as u64;
                    }
                    let (f, c, skip) = history_check(&pool, &bl, &idx);
                    hist += 1;
                    calls += c;
                    if skip {
                        skipped += 1;
                    }
                    // non-trivial: the last term shares a node below the root with an earlier one
                    // and the simplifier rewrites it (decided on pool/baseline data only)
                    let last = *idx.last().unwrap();
                    if len > 1 && bl.refs[last].map(|b| b != pool.refs[last]).unwrap_or(false) {
                        hs.push(hash64(&format!("{idx:?}")));
                    }
                    if h % 100_003 == 0 {
                        rep.sample(json!({"history": idx.iter().map(|i| pool.terms[*i].to_string()).collect::<Vec<_>>()}));
                    }
                    if let Some((class, _)) = f {
                        report_history(rep, &pool, &bl, &idx, &class, (1u64 << 60) + ((len as u64) << 50) + h);
                    }
                }
                flush_calls();
                rep.add("histories", hist);
                rep.add("transitions", calls);
                rep.add("histories_skipped_panic", skipped);
                rep.distinct_hashes(&hs);
                hist
            })
            .sum();
        states.fetch_add(done, Ordering::Relaxed);
        if stop.load(Ordering::Relaxed) {
            rep.cap_hit(&format!("budget: histories of length {len}: {done}/{total}"));
        }
        rep.add(&format!("histories:len{len}"), done);
    }
    rep.add("states", states.load(Ordering::Relaxed));
    rep.add("traces_validated_against_impl", rep.get("histories"));
}


// ------------------------------------------------------------------------------------ (iii-b) child, then parent

/// Cache transparency on sub-term / parent pairs: for every T2 term `c` of a small universe and
/// every one-operator parent `p` of `c`, the reference ONE simplifier returns for `p` after it has
/// already simplified `c` must be the reference a fresh simplifier returns for `p` in the same
/// context (and both must be fixed points). Long rewrite chains of the child (1-bit add -> xor ->
/// not(not x) -> x) are what makes stale intermediate cache entries observable.
fn check_child_parent(c: &T, p: &T) -> (Option<(String, String)>, u64) {
    watch_set(|| format!("childparent: {c} ;; {p}"));
    let mut calls = 0u64;
    for kind in [Kind::Sparse, Kind::Dense] {
        let mut ctx = Context::default();
        let pe = p.build(&mut ctx);
        let ce = c.build(&mut ctx);
        let r = catch(|| {
            let mut s = Simp::new(kind);
            let rc = s.simplify(&mut ctx, ce);
            let rp = s.simplify(&mut ctx, pe);
            let rp_again = s.simplify(&mut ctx, rp);
            let fresh = Simp::new(kind).simplify(&mut ctx, pe);
            (rc, rp, rp_again, fresh)
        });
        calls += 4;
        let Ok((_rc, rp, rp_again, fresh)) = r else { return (None, calls) };
        if rp != fresh {
            return (
                Some((
                    format!("child-parent-history-{kind:?}"),
                    format!(
                        "one {kind:?}-cache simplifier that has already simplified the sub-term {c} returns `{}` for {p}, a fresh simplifier in the same context returns `{}`",
                        structure(&ctx, rp),
                        structure(&ctx, fresh)
                    ),
                )),
                calls,
            );
        }
        if rp_again != rp {
            return (Some((format!("child-parent-idempotence-{kind:?}"), format!("after simplifying {c} then {p}, simplifying the result `{}` again gives `{}`", structure(&ctx, rp), structure(&ctx, rp_again)))), calls);
        }
    }
    (None, calls)
}

fn run_child_parent(rep: &Report, budget: &Budget, thorough: bool) {
    let universes: Vec<Vec<u32>> = if thorough { vec![vec![1], vec![1, 2], vec![1, 4], vec![2, 3]] } else { vec![vec![1], vec![1, 2]] };
    for u in universes {
        if budget.exceeded() {
            rep.cap_hit(&format!("budget: child/parent universe {u:?} not started"));
            continue;
        }
        let mut cfg = Cfg::new(&u);
        cfg.lits = Lits::Reduced;
        cfg.ext_by = vec![1];
        cfg.divrem = false;
        let inner = t1(&cfg);
        let stop = AtomicBool::new(false);
        inner.par_iter().enumerate().for_each(|(ii, x)| {
            if stop.load(Ordering::Relaxed) {
                return;
            }
            if budget.exceeded() {
                stop.store(true, Ordering::Relaxed);
                return;
            }
            let (mut pairs, mut calls, mut hs) = (0u64, 0u64, vec![]);
            for (ci, c) in wrap_all(x, &cfg).iter().enumerate() {
                // only children the simplifier rewrites can leave intermediate cache entries
                watch_set(|| c.to_string());
                let mut probe = Context::default();
                let ce = c.build(&mut probe);
                let rewritten = catch(|| Simp::new(Kind::Sparse).simplify(&mut probe, ce)).map(|r| r != ce).unwrap_or(false);
                if !rewritten {
                    continue;
                }
                // parents: every operator over c and leaves, plus binary operators whose other
                // operand is itself a small non-leaf term (rules that look at two non-leaf children)
                let mut parents = wrap_all(c, &cfg);
                if let Ty::Bv(w) = c.ty() {
                    let sibs: Vec<T> = (0..2)
                        .flat_map(|k| {
                            let sy = T::Sym(sym_name(Ty::Bv(w), k), Ty::Bv(w));
                            vec![T::not(sy.clone()), T::Neg(Box::new(sy.clone())), T::bin(Bin::And, sy.clone(), T::Sym(sym_name(Ty::Bv(w), 1 - k), Ty::Bv(w)))]
                        })
                        .collect();
                    for sib in sibs.iter() {
                        for op in [Bin::And, Bin::Or, Bin::Xor, Bin::Eq, Bin::Add, Bin::Sub, Bin::Uge, Bin::Concat] {
                            parents.push(T::bin(op, c.clone(), sib.clone()));
                            parents.push(T::bin(op, sib.clone(), c.clone()));
                        }
                        if w == 1 {
                            parents.push(T::ite(c.clone(), sib.clone(), T::Sym(sym_name(Ty::Bv(1), 0), Ty::Bv(1))));
                            parents.push(T::bin(Bin::Implies, c.clone(), sib.clone()));
                        }
                    }
                }
                for (pi, p) in parents.iter().enumerate() {
                    let (f, n) = check_child_parent(c, p);
                    pairs += 1;
                    calls += n;
                    hs.push(hash64(&format!("{c}|{p}")));
                    if let Some((class, what)) = f {
                        rep.violation(Violation {
                            sig: format!("C13|{}|{}/{}|{}", class, p.op_name(), c.op_name(), wclass(operand_width(p))),
                            what,
                            case: json!({"kind": "child-parent", "child": c.to_string(), "parent": p.to_string()}),
                            order: (1u64 << 59) + ((ii as u64) << 30) + ((ci as u64) << 12) + pi as u64,
                        });
                    }
                }
            }
            flush_calls();
            rep.add("child_parent_pairs", pairs);
            rep.add("histories", pairs);
            rep.add("transitions", calls);
            rep.distinct_hashes(&hs);
        });
        if stop.load(Ordering::Relaxed) {
            rep.cap_hit(&format!("budget: child/parent universe {u:?} cut short"));
        }
    }
}

// ------------------------------------------------------------------------------------ driver

pub fn meta(rep: &mut Report) {
    rep.rule = "(ii)(iv) the C01 term space (T1/T2(/T3), stages listed under coverage.stages): per term Simplifier(sparse) result r; same instance and fresh instances (sparse, dense) must map r to r; Simplifier(dense) in an identically built context and simplify_single_expression must return the same reference r. (iii) histories: all ordered sequences of <= 2 (quick) / 3 (thorough) terms from a pool (every T1 term over two 4-bit symbols without literals and div/rem, plus T2 terms and rule-bearing combinations that contain pool members) fed to ONE simplifier in a clone of ONE context that already holds the whole pool, for the sparse and the dense cache; the last result must equal the result of a fresh simplifier in the same context (reference), of a fresh simplifier in a pristine clone (structure; reference for nodes of the pool context), be a fixed point of the same instance, and agree call by call between the cache kinds. (v) child/parent pairs: every rewritten T2 child x every one-operator parent (also with a non-leaf sibling): one simplifier that saw the child first must agree with a fresh one on the parent. (vii) creation order: every T1 term of the universes [1,2], [1,4] (thorough: five universes) is simplified alone in a pristine context and in contexts that already hold every T1 term of the universe, built in enumeration order and in reverse order (so every other one-operator term is older than it in one of them): same structure, fixed point, sparse and dense cache. (vi) depth: five chain patterns (1-bit add under implies/not, not, and-with-ones, ite with equal branches, slice of zero-extension) nested 1000 and 70000 times (thorough: up to 300000), sparse and dense cache: the result must be a fixed point of the same and of a fresh simplifier, must not depend on having simplified the half-depth sub-chain first, and must return within 180 s. (i) every call runs under a watchdog (deadline max(5 s, 100 x slowest observed call), confirmed by a second run). Terms/histories on which simplify panics are skipped and counted. states = distinct history prefixes, transitions = simplify calls inside histories, traces_validated_against_impl = histories compared; evaluations = terms of the sweep + histories; distinct_nontrivial = distinct sweep terms that the simplifier rewrites + distinct histories (length >= 2) whose last term is rewritten by the baseline".into();
    rep.assumptions = vec![
        "termination is bounded observation: a call is reported only when it exceeds the deadline twice".into(),
        "references of different contexts are compared only for identically built contexts with identical call sequences, otherwise structure is compared".into(),
        "terms on which the simplifier panics (baa todo!()/overflow above 64 bits) are C01's and skipped here".into(),
    ];
}

// ------------------------------------------------------------------------------------ creation order

/// (vii) The result must not depend on which nodes already exist in the context, nor on whether they are
/// older or younger than the expression being simplified: every T1 term of a small universe is simplified
/// by a fresh simplifier (a) alone in a pristine context, (b) in a context that holds ALL T1 terms of the
/// universe built in enumeration order, (c) in one that holds them built in reverse order - so every other
/// one-operator term (the intermediate forms of rewrite chains among them) is older than the term in (b) or
/// in (c). The three results must have the same structure and be fixed points.
fn run_prebuilt(rep: &Report, thorough: bool) {
    let universes: Vec<Vec<u32>> = if thorough { vec![vec![1, 2], vec![1, 3], vec![1, 4], vec![2, 3], vec![1, 8]] } else { vec![vec![1, 2], vec![1, 4]] };
    run_prebuilt_universes(rep, &universes, None);
}

fn run_prebuilt_universes(rep: &Report, universes: &[Vec<u32>], only: Option<&str>) {
    for u in universes.iter().cloned() {
        let mut cfg = Cfg::new(&u);
        cfg.lits = if u.iter().all(|w| *w <= 3) { Lits::Full } else { Lits::Reduced };
        cfg.ext_by = vec![1];
        cfg.divrem = false;
        let terms = t1(&cfg);
        let build_all = |rev: bool| -> (Context, Vec<ExprRef>) {
            let mut ctx = Context::default();
            let mut refs = vec![None; terms.len()];
            let order: Vec<usize> = if rev { (0..terms.len()).rev().collect() } else { (0..terms.len()).collect() };
            for i in order {
                refs[i] = Some(terms[i].build(&mut ctx));
            }
            (ctx, refs.into_iter().map(|r| r.unwrap()).collect())
        };
        let (cf, rf) = build_all(false);
        let (cr, rr) = build_all(true);
        terms.par_iter().enumerate().for_each(|(i, t)| {
            if only.map(|o| o != t.to_string()).unwrap_or(false) {
                return;
            }
            watch_set(|| t.to_string());
            let mut alone = Context::default();
            let e = t.build(&mut alone);
            let Ok(r0) = catch(|| Simp::new(Kind::Sparse).simplify(&mut alone, e)) else { return };
            let s0 = structure(&alone, r0);
            let mut hs = vec![];
            for (label, base, root) in [("older-first", &cf, rf[i]), ("younger-first", &cr, rr[i])] {
                for kind in [Kind::Sparse, Kind::Dense] {
                    let mut ctx = base.clone();
                    let r = catch(|| {
                        let mut s = Simp::new(kind);
                        let r1 = s.simplify(&mut ctx, root);
                        let r2 = s.simplify(&mut ctx, r1);
                        (r1, r2)
                    });
                    rep.add("prebuilt_context_runs", 1);
                    let Ok((r1, r2)) = r else { continue };
                    hs.push(hash64(&format!("prebuilt|{t}|{label}|{kind:?}")));
                    let s1 = structure(&ctx, r1);
                    let f = if s1 != s0 {
                        Some(("context-dependent".to_string(), format!("{t} simplifies to `{s0}` alone in a fresh context, but to `{s1}` ({kind:?} cache) in a context that already holds every one-operator term of the universe {u:?} ({label})")))
                    } else if r2 != r1 {
                        Some(("context-idempotence".to_string(), format!("in a context that already holds every one-operator term of the universe {u:?} ({label}), the result `{s1}` of {t} is simplified further to `{}`", structure(&ctx, r2))))
                    } else {
                        None
                    };
                    if let Some((class, what)) = f {
                        rep.violation(Violation {
                            sig: format!("C13|{class}|{}|{}|{label}", sig_shape(t), wclass(operand_width(t))),
                            what,
                            case: json!({"kind": "prebuilt", "term": t.to_string(), "universe": u, "reverse": label == "younger-first", "cache": format!("{kind:?}")}),
                            order: (1u64 << 58) + i as u64,
                        });
                    }
                }
            }
            flush_calls();
            rep.distinct_hashes(&hs);
        });
        // long-lived instances: ONE simplifier per (cache kind, call order) answers every term of the prebuilt
        // context in turn (hundreds of calls on one cache; orders: creation order, reverse, stride 7, and creation
        // order with every term asked twice). Whatever the instance has been asked before, the answer for a term
        // is the one a fresh simplifier gives in a fresh context (compared structurally).
        if only.is_none() {
            let fresh: Vec<Option<String>> = terms
                .par_iter()
                .map(|t| {
                    let mut alone = Context::default();
                    let e = t.build(&mut alone);
                    catch(|| Simp::new(Kind::Sparse).simplify(&mut alone, e)).ok().map(|r| structure(&alone, r))
                })
                .collect();
            let n = terms.len();
            let orders: Vec<(&str, Vec<usize>)> = vec![
                ("creation-order", (0..n).collect()),
                ("reverse-order", (0..n).rev().collect()),
                ("stride-7", (0..7).flat_map(|o| (o..n).step_by(7)).collect()),
                ("each-twice", (0..n).flat_map(|i| [i, i]).collect()),
            ];
            let jobs: Vec<(&str, &Vec<usize>, Kind, bool)> = orders.iter().flat_map(|(l, o)| [Kind::Sparse, Kind::Dense].into_iter().flat_map(move |k| [false, true].into_iter().map(move |rev| (*l, o, k, rev)))).collect();
            jobs.par_iter().for_each(|(label, order, kind, rev)| {
                let (base, refs) = if *rev { (&cr, &rr) } else { (&cf, &rf) };
                let mut ctx = base.clone();
                let mut s = Simp::new(*kind);
                for (pos, &i) in order.iter().enumerate() {
                    let Some(want) = &fresh[i] else { continue };
                    watch_set(|| format!("long-lived {kind:?} instance, call {pos}: {}", terms[i]));
                    let Ok(r) = catch(|| s.simplify(&mut ctx, refs[i])) else { break };
                    rep.add("long_lived_instance_calls", 1);
                    rep.add("transitions", 1);
                    let got = structure(&ctx, r);
                    if got != *want {
                        rep.violation(Violation {
                            sig: format!("C13|long-lived-instance|{}|{}|{kind:?}", sig_shape(&terms[i]), wclass(operand_width(&terms[i]))),
                            what: format!(
                                "a {kind:?}-cache simplifier that has answered {pos} other terms of the universe {u:?} ({label}, context built {}) simplifies {} to `{got}`; a fresh simplifier gives `{want}`",
                                if *rev { "younger-first" } else { "older-first" },
                                terms[i]
                            ),
                            case: json!({"kind": "prebuilt", "term": terms[i].to_string(), "universe": u, "reverse": rev, "cache": format!("{kind:?}")}),
                            order: (1u64 << 59) + pos as u64,
                        });
                        break;
                    }
                }
                flush_calls();
            });
        }
    }
}

// ------------------------------------------------------------------------------------ deep chains

const DEEP_PATTERNS: [&str; 5] = ["add1-under-implies", "not4", "and-ones4", "ite-same4", "slice-zext4"];

/// builds the n-fold chain of a pattern iteratively; returns (root, the root of the n/2-fold chain)
fn deep_chain(ctx: &mut Context, pat: usize, n: usize) -> (ExprRef, ExprRef) {
    let c = ctx.bv_symbol("c", 1);
    let (x, y) = if pat == 0 { (ctx.bv_symbol("x", 1), ctx.bv_symbol("y", 1)) } else { (ctx.bv_symbol("x", 4), ctx.bv_symbol("y", 4)) };
    let ones = ctx.ones(4);
    let mut e = x;
    let mut half = x;
    for i in 0..n {
        e = match pat {
            0 => ctx.add(e, if i % 2 == 0 { y } else { x }),
            1 => ctx.not(e),
            2 => ctx.and(e, ones),
            3 => ctx.ite(c, e, e),
            _ => {
                let z = ctx.zero_extend(e, 1);
                ctx.slice(z, 3, 0)
            }
        };
        if i + 1 == n / 2 {
            half = e;
        }
    }
    if pat == 0 {
        let nc = ctx.not(c);
        (ctx.implies(nc, e), half)
    } else {
        (e, half)
    }
}

/// idempotence and cache transparency on one deep chain (raw simplifiers: these long calls must not
/// stretch the watchdog's deadline for the term sweeps)
fn check_deep(pat: usize, n: usize, kind: Kind) -> Option<(String, String)> {
    let raw = |ctx: &mut Context, s: &mut Simp, e: ExprRef| s.real(ctx, e);
    let mut ctx = Context::default();
    let (e, half) = deep_chain(&mut ctx, pat, n);
    let mut s1 = Simp::new(kind);
    let r1 = raw(&mut ctx, &mut s1, e);
    let r1b = raw(&mut ctx, &mut s1, r1);
    let name = DEEP_PATTERNS[pat];
    if r1b != r1 {
        return Some(("deep-idempotence-same-instance".into(), format!("{name} chain of depth {n} ({kind:?} cache): the result {r1:?} of simplify is simplified further to {r1b:?} by the same simplifier")));
    }
    let r2 = raw(&mut ctx, &mut Simp::new(kind), r1);
    if r2 != r1 {
        return Some(("deep-idempotence-fresh-instance".into(), format!("{name} chain of depth {n} ({kind:?} cache): the result {r1:?} of simplify is simplified further to {r2:?} by a fresh simplifier")));
    }
    let mut s3 = Simp::new(kind);
    let _ = raw(&mut ctx, &mut s3, half);
    let r3 = raw(&mut ctx, &mut s3, e);
    if r3 != r1 {
        return Some(("deep-cache-history".into(), format!("{name} chain of depth {n} ({kind:?} cache): a fresh simplifier returns {r1:?}, one that has simplified the depth-{} sub-chain before returns {r3:?}", n / 2)));
    }
    let r4 = raw(&mut ctx, &mut Simp::new(kind), e);
    if r4 != r1 {
        return Some(("deep-nondeterministic".into(), format!("{name} chain of depth {n} ({kind:?} cache): two fresh simplifiers return {r1:?} and {r4:?}")));
    }
    None
}

fn deep_sizes(thorough: bool) -> Vec<usize> {
    if thorough { vec![1000, 20_000, 70_000, 140_000, 300_000] } else { vec![1000, 70_000] }
}

fn run_deep(rep: &Report, thorough: bool) {
    let mut cases = vec![];
    for pat in 0..DEEP_PATTERNS.len() {
        for n in deep_sizes(thorough) {
            for kind in [Kind::Sparse, Kind::Dense] {
                cases.push((pat, n, kind));
            }
        }
    }
    // a chain that misses the 180 s deadline while all chains run side by side is tried once more, ALONE and with a
    // longer deadline (quick 240 s, thorough 900 s), before it is called non-terminating: on a loaded machine the
    // 300000-deep chains of the thorough tier have missed the first deadline on the unchanged tree
    let retry_s = if thorough { 900 } else { 240 };
    let slow: std::sync::Mutex<Vec<(usize, usize, Kind)>> = std::sync::Mutex::new(vec![]);
    let first_pass = AtomicBool::new(true);
    let judge = |ci: usize, pat: usize, n: usize, kind: Kind, deadline_s: u64| {
        let r = with_deadline(move || catch(move || check_deep(pat, n, kind)), Duration::from_secs(deadline_s));
        if r.is_none() && first_pass.load(Ordering::Relaxed) {
            slow.lock().unwrap().push((pat, n, kind));
            rep.add("deep_chains_retried_alone", 1);
            return;
        }
        judge_deep(rep, ci, pat, n, kind, r, deadline_s);
    };
    cases.par_iter().enumerate().for_each(|(ci, (pat, n, kind))| judge(ci, *pat, *n, *kind, 180));
    first_pass.store(false, Ordering::Relaxed);
    let again: Vec<(usize, usize, Kind)> = slow.lock().unwrap().clone();
    for (k, (pat, n, kind)) in again.into_iter().enumerate() {
        judge(cases.len() + k, pat, n, kind, retry_s);
    }
}

fn judge_deep(rep: &Report, ci: usize, pat: usize, n: usize, kind: Kind, r: Option<Result<Option<(String, String)>, PanicInfo>>, deadline_s: u64) {
    {
        let (pat, n, kind) = (pat, n, kind);
        rep.add("deep_chains", 1);
        rep.max("deepest_chain", n as u64);
        rep.distinct_hashes(&[hash64(&format!("deep|{pat}|{n}|{kind:?}"))]);
        let f = match r {
            None => Some(("nontermination".to_string(), format!("{} chain of depth {n} ({kind:?} cache): simplify did not return within 180 s next to the other chains and not within {deadline_s} s alone", DEEP_PATTERNS[pat]))),
            Some(Err(p)) => Some((format!("deep-panic|{}", p.file()), format!("{} chain of depth {n}: panic {} ({})", DEEP_PATTERNS[pat], p.msg, p.short_loc()))),
            Some(Ok(f)) => f,
        };
        if let Some((class, what)) = f {
            rep.violation(Violation { sig: format!("C13|{class}|deep:{}|{}|", DEEP_PATTERNS[pat], if n > 65_536 { "n>65536" } else { "n<=65536" }), what, case: json!({"kind": "deep", "pattern": pat, "n": n, "cache": format!("{kind:?}")}), order: (1u64 << 60) + ci as u64 });
        }
    }
}

pub fn run(opts: &Opts, rep: &Report) {
    let tier = match opts.mode {
        Mode::Run(t) => t,
        _ => unreachable!(),
    };
    let budget = Budget::new(opts.budget_s);
    // histories get a quarter of the budget at the start (they are the cheaper, property-specific part)
    let hist_budget = Budget::new(opts.budget_s * if tier.is_thorough() { 0.35 } else { 0.3 });
    // the result caches themselves: explicit-state search over their operation histories (c13_maps)
    {
        let cb = Budget::new(if tier.is_thorough() { opts.budget_s * 0.2 } else { 6.0 });
        crate::c13_maps::run(rep, tier.is_thorough(), &cb);
    }
    let done = AtomicBool::new(false);
    std::thread::scope(|sc| {
        sc.spawn(|| watchdog(rep, &done));
        run_histories(rep, &hist_budget, if tier.is_thorough() { 3 } else { 2 });
        let cp_budget = Budget::new(opts.budget_s * 0.25);
        run_child_parent(rep, &cp_budget, tier.is_thorough());
        run_prebuilt(rep, tier.is_thorough());
        let st = stages(tier, opts.seed, true, true);
        run_stages(&st, rep, &budget, &|_| true, &|t, order| {
            let r = check_term(t, order, rep);
            flush_calls();
            r
        });
        done.store(true, Ordering::Relaxed);
    });
    run_deep(rep, tier.is_thorough());
    rep.add("evaluations", rep.get("deep_chains"));
    rep.add("evaluations", rep.get("histories"));
    rep.add("simplify_calls", CALLS.load(Ordering::Relaxed));
    rep.max("slowest_call_us", SLOWEST_NS.load(Ordering::Relaxed) / 1000);
    rep.max("deadline_ms", deadline_ns() / 1_000_000);
    // vacuity guards (enumerator side)
    if rep.get("histories") == 0 || rep.get("transitions") == 0 {
        eprintln!("MACHINERY: C13 no history was run");
        std::process::exit(2);
    }
}

pub fn replay(case: &Value, rep: &Report) {
    let kind = case["kind"].as_str().unwrap_or("term").to_string();
    if kind.starts_with("containers") {
        crate::c13_maps::replay(case, rep);
        return;
    }
    if kind == "prebuilt" {
        let u: Vec<u32> = case["universe"].as_array().map(|a| a.iter().filter_map(|x| x.as_u64()).map(|x| x as u32).collect()).unwrap_or_default();
        run_prebuilt_universes(rep, &[u], case["term"].as_str());
        return;
    }
    let case2 = case.clone();
    let dl = Duration::from_millis(MIN_DEADLINE_MS);
    // run in a thread with the deadline: a replayed non-termination must not hang the replay
    let work = move || -> Vec<Violation> {
        let mut out = vec![];
        if kind == "history" {
            let pool = Pool::build();
            let bl = baseline(&pool);
            let idx: Vec<usize> = case2["terms"]
                .as_array()
                .expect("terms")
                .iter()
                .map(|v| {
                    let t = parse_t(v.as_str().expect("term")).expect("parse term");
                    pool.terms.iter().position(|p| *p == t).unwrap_or_else(|| {
                        eprintln!("term {t} is not in the history pool");
                        std::process::exit(2)
                    })
                })
                .collect();
            if let (Some((class, what)), _, _) = history_check(&pool, &bl, &idx) {
                let last = &pool.terms[*idx.last().unwrap()];
                out.push(Violation { sig: format!("C13|{}|{}|{}|len{}", class, sig_shape(last), wclass(operand_width(last)), idx.len()), what, case: case2.clone(), order: 0 });
            }
        } else if kind == "deep" {
            let pat = case2["pattern"].as_u64().unwrap_or(0) as usize;
            let n = case2["n"].as_u64().unwrap_or(0) as usize;
            let k = if case2["cache"] == "Dense" { Kind::Dense } else { Kind::Sparse };
            if let Some((class, what)) = check_deep(pat, n, k) {
                out.push(Violation { sig: format!("C13|{class}|deep:{}|{}|", DEEP_PATTERNS[pat], if n > 65_536 { "n>65536" } else { "n<=65536" }), what, case: case2.clone(), order: 0 });
            }
        } else if kind == "child-parent" {
            let c = parse_t(case2["child"].as_str().expect("child")).expect("parse child");
            let p = parse_t(case2["parent"].as_str().expect("parent")).expect("parse parent");
            if let (Some((class, what)), _) = check_child_parent(&c, &p) {
                out.push(Violation { sig: format!("C13|{}|{}/{}|{}", class, p.op_name(), c.op_name(), wclass(operand_width(&p))), what, case: case2.clone(), order: 0 });
            }
        } else {
            let t = parse_t(case2["term"].as_str().expect("term")).expect("parse term");
            if let TermOutcome::Fail { class, what } = term_outcome(&t) {
                out.push(Violation { sig: format!("C13|{}|{}|{}|", class, sig_shape(&t), wclass(operand_width(&t))), what, case: case2.clone(), order: 0 });
            }
        }
        out
    };
    let text = if case["kind"] == "history" {
        format!("history: {}", case["terms"].as_array().map(|a| a.iter().filter_map(|v| v.as_str()).collect::<Vec<_>>().join(" ;; ")).unwrap_or_default())
    } else {
        case["term"].as_str().unwrap_or("").to_string()
    };
    match with_deadline(work.clone(), dl) {
        Some(vs) => {
            for v in vs {
                rep.violation(v);
            }
        }
        None => {
            if with_deadline(work, dl).is_none() {
                nonterm_violation(rep, &text, MIN_DEADLINE_MS);
            }
        }
    }
}
