//! C12 helper: literal values reached by different routes.
//!
//! A route takes a target number `t` (a reference bit-vector, num-bigint) and produces a baa
//! `BitVecValue` (or calls a `Context` convenience constructor) that must denote exactly `t`:
//! operands are derived from `t` with the reference arithmetic so that the *reference* result of
//! the baa operation is `t` (asserted on the harness side), then the real baa operation is applied.

use baa::{BitVecOps, BitVecValue};
use num_bigint::BigUint;
use num_traits::{One, Zero};
use pvcore::bv::{Bv, mask, pow2};
use pvcore::evalref::bv_to_baa;

pub const WIDTHS: [u32; 6] = [1, 8, 64, 65, 128, 129];

#[derive(Clone, Copy, Debug, PartialEq, Eq, Hash, PartialOrd, Ord)]
pub enum Kind {
    Zero,
    One,
    Ones,
    Msb,
    Pat,
    P64,
    P64m1,
}

pub const KINDS: [Kind; 7] = [Kind::Zero, Kind::One, Kind::Ones, Kind::Msb, Kind::Pat, Kind::P64, Kind::P64m1];

impl Kind {
    pub fn value(&self, w: u32) -> Option<Bv> {
        Some(match self {
            Kind::Zero => Bv::zero(w),
            Kind::One => Bv::one(w),
            Kind::Ones => Bv::ones(w),
            Kind::Msb => Bv::new(w, pow2(w - 1)),
            Kind::Pat => {
                if w < 8 {
                    return None;
                }
                let mut v = BigUint::zero();
                let mut i = 0;
                while i < w {
                    v |= BigUint::from(0xA5u32) << (i as usize);
                    i += 8;
                }
                Bv::new(w, v & mask(w))
            }
            Kind::P64 => {
                if w <= 64 {
                    return None;
                }
                Bv::new(w, pow2(64))
            }
            Kind::P64m1 => {
                if w < 64 {
                    return None;
                }
                Bv::new(w, mask(64))
            }
        })
    }
}

/// (width, kind) groups with pairwise different numbers per width
pub fn groups() -> Vec<(u32, Kind, Bv)> {
    let mut out: Vec<(u32, Kind, Bv)> = vec![];
    for w in WIDTHS {
        for k in KINDS {
            if let Some(v) = k.value(w)
                && !out.iter().any(|(w2, _, v2)| *w2 == w && *v2 == v)
            {
                out.push((w, k, v));
            }
        }
    }
    out
}

#[derive(Clone, Copy, Debug, PartialEq, Eq, Hash, PartialOrd, Ord)]
pub enum Route {
    // Context convenience constructors
    BitVecVal,
    ZeroOneOnes,
    TrueFalse,
    BBitVecVal,
    BZeroOneOnes,
    BTrueFalse,
    // baa constructors
    FromU64,
    FromU128,
    BitStr,
    HexStr,
    DecStr,
    BytesLe,
    FromI64,
    FromBool,
    Words,
    // baa arithmetic
    AddWrap,
    AddCarry,
    SubBorrow,
    Not,
    Neg,
    And,
    Or,
    Xor,
    MulNeg,
    // baa structure
    SliceHi,
    SliceLo,
    SliceMid,
    ZExt1,
    ZExt64,
    ZExtBit,
    SExt1,
    SExt64,
    SExtBit,
    ConcatHalf,
    Concat64,
    // baa shifts
    Shl,
    ShlHuge,
    Lshr,
    Ashr,
    // other ways into the context
    ValueLit,
    BBvLit,
    ReRead,
}

pub const ROUTES: [Route; 42] = [
    Route::BitVecVal, Route::ZeroOneOnes, Route::TrueFalse, Route::BBitVecVal, Route::BZeroOneOnes, Route::BTrueFalse,
    Route::FromU64, Route::FromU128, Route::BitStr, Route::HexStr, Route::DecStr, Route::BytesLe, Route::FromI64,
    Route::FromBool, Route::Words, Route::AddWrap, Route::AddCarry, Route::SubBorrow, Route::Not, Route::Neg, Route::And,
    Route::Or, Route::Xor, Route::MulNeg, Route::SliceHi, Route::SliceLo, Route::SliceMid, Route::ZExt1, Route::ZExt64,
    Route::ZExtBit, Route::SExt1, Route::SExt64, Route::SExtBit, Route::ConcatHalf, Route::Concat64, Route::Shl,
    Route::ShlHuge, Route::Lshr, Route::Ashr, Route::ValueLit, Route::BBvLit, Route::ReRead,
];

/// routes used when literals of one number are mixed across widths
pub const CROSS_ROUTES: [Route; 5] = [Route::Words, Route::BitVecVal, Route::AddWrap, Route::SliceHi, Route::Shl];

#[derive(Clone, Copy, Debug, PartialEq, Eq)]
pub enum CtxCall {
    BitVecVal(u128),
    Zero,
    One,
    Ones,
    True,
    False,
}

#[derive(Clone, Copy, Debug, PartialEq, Eq)]
pub enum How {
    BvLit,
    ValueLit,
    BuilderBvLit,
    WordsRef,
    ReRead,
}

pub enum Made {
    /// a convenience constructor of `Context` (bool: through `Builder`)
    Ctx(CtxCall, bool),
    /// a baa value handed to the context; the note describes the operation for messages
    Val(BitVecValue, How, String),
}

fn b(v: &Bv) -> BitVecValue {
    bv_to_baa(v)
}

fn fits(v: &Bv, bits: u32) -> bool {
    v.v.bits() <= bits as u64
}

fn alt(w: u32, phase: u32) -> Bv {
    let mut v = BigUint::zero();
    let mut i = phase;
    while i < w {
        v.set_bit(i as u64, true);
        i += 2;
    }
    Bv::new(w, v)
}

/// Produce the value of `route` for target `t` (width `w`); `None` when the route cannot reach `t`.
/// `refcheck` is asserted: the reference result of the described operation equals `t`.
pub fn make(route: Route, w: u32, t: &Bv) -> Option<Made> {
    assert_eq!(t.w, w);
    let val = |v: BitVecValue, note: String| Some(Made::Val(v, How::BvLit, note));
    let chk = |r: Bv, what: &str| {
        if &r != t {
            eprintln!("MACHINERY: C12 route {route:?} ({what}) does not reach {} (reference gives {})", t.show(), r.show());
            std::process::exit(2);
        }
    };
    let u128v = || -> Option<u128> {
        if fits(t, 128) {
            let d = t.v.to_u64_digits();
            let lo = *d.first().unwrap_or(&0) as u128;
            let hi = *d.get(1).unwrap_or(&0) as u128;
            Some(lo | (hi << 64))
        } else {
            None
        }
    };
    let zoo = || {
        if t.is_zero() {
            Some(CtxCall::Zero)
        } else if *t == Bv::ones(w) && w > 1 {
            Some(CtxCall::Ones)
        } else if *t == Bv::one(w) {
            Some(CtxCall::One)
        } else {
            None
        }
    };
    match route {
        Route::BitVecVal => u128v().map(|v| Made::Ctx(CtxCall::BitVecVal(v), false)),
        Route::BBitVecVal => u128v().map(|v| Made::Ctx(CtxCall::BitVecVal(v), true)),
        Route::ZeroOneOnes => {
            // at width 1 the number 1 is reached by both `one` and `ones`: `one` here, `ones` via B
            zoo().map(|c| Made::Ctx(c, false))
        }
        Route::BZeroOneOnes => {
            let c = if w == 1 && *t == Bv::one(1) { Some(CtxCall::Ones) } else { zoo() };
            c.map(|c| Made::Ctx(c, true))
        }
        Route::TrueFalse | Route::BTrueFalse => {
            if w != 1 {
                return None;
            }
            Some(Made::Ctx(if t.is_zero() { CtxCall::False } else { CtxCall::True }, route == Route::BTrueFalse))
        }
        Route::FromU64 => t.to_u64().map(|v| Made::Val(BitVecValue::from_u64(v, w), How::BvLit, format!("from_u64({v}, {w})"))),
        Route::FromU128 => u128v().map(|v| Made::Val(BitVecValue::from_u128(v, w), How::BvLit, format!("from_u128({v}, {w})"))),
        Route::BitStr => val(BitVecValue::from_bit_str(&t.bit_str()).expect("bit string"), "from_bit_str".into()),
        Route::HexStr => {
            if w % 4 != 0 {
                return None;
            }
            let s = format!("{:0>width$}", t.v.to_str_radix(16), width = (w / 4) as usize);
            val(BitVecValue::from_hex_str(&s).expect("hex string"), format!("from_hex_str({s})"))
        }
        Route::DecStr => {
            let s = t.v.to_str_radix(10);
            val(BitVecValue::from_str_radix(&s, 10, w).expect("decimal string"), format!("from_str_radix({s}, 10, {w})"))
        }
        Route::BytesLe => {
            let mut bytes = t.v.to_bytes_le();
            bytes.truncate(w.div_ceil(8) as usize);
            val(BitVecValue::from_bytes_le(&bytes, w), "from_bytes_le".into())
        }
        Route::FromI64 => {
            let v: i64 = if *t == Bv::ones(w) {
                -1
            } else if t.is_zero() {
                0
            } else if *t == Bv::one(w) {
                1
            } else {
                return None;
            };
            val(BitVecValue::from_i64(v, w), format!("from_i64({v}, {w})"))
        }
        Route::FromBool => {
            if w != 1 {
                return None;
            }
            val(BitVecValue::from_bool(!t.is_zero()), "from_bool".into())
        }
        Route::Words => Some(Made::Val(b(t), How::WordsRef, "BitVecValueRef::new(words)".into())),
        Route::ValueLit => Some(Made::Val(b(t), How::ValueLit, "Context::lit(Value::BitVec)".into())),
        Route::BBvLit => Some(Made::Val(b(t), How::BuilderBvLit, "Builder::bv_lit".into())),
        Route::ReRead => Some(Made::Val(b(t), How::ReRead, "value read back from the context".into())),
        Route::AddWrap => {
            let c = Bv::ones(w);
            let a = t.sub(&c);
            chk(a.add(&c), "add");
            val(b(&a).add(&b(&c)), format!("{} + {}", a.show(), c.show()))
        }
        Route::AddCarry => {
            let c = Bv::one(w);
            let a = t.sub(&c);
            chk(a.add(&c), "add");
            val(b(&a).add(&b(&c)), format!("{} + {}", a.show(), c.show()))
        }
        Route::SubBorrow => {
            let z = Bv::zero(w);
            let n = t.neg();
            chk(z.sub(&n), "sub");
            val(b(&z).sub(&b(&n)), format!("0 - {}", n.show()))
        }
        Route::Not => {
            let n = t.not();
            chk(n.not(), "not");
            val(b(&n).not(), format!("not {}", n.show()))
        }
        Route::Neg => {
            let n = t.neg();
            chk(n.neg(), "neg");
            val(b(&n).negate(), format!("neg {}", n.show()))
        }
        Route::And => {
            let x = t.or(&alt(w, 0).and(&t.not()));
            let y = t.or(&alt(w, 1).and(&t.not()));
            chk(x.and(&y), "and");
            val(b(&x).and(&b(&y)), format!("{} & {}", x.show(), y.show()))
        }
        Route::Or => {
            let x = t.and(&alt(w, 0));
            let y = t.and(&alt(w, 1));
            chk(x.or(&y), "or");
            val(b(&x).or(&b(&y)), format!("{} | {}", x.show(), y.show()))
        }
        Route::Xor => {
            let p = Bv::ones(w);
            let x = t.xor(&p);
            chk(x.xor(&p), "xor");
            val(b(&x).xor(&b(&p)), format!("{} ^ {}", x.show(), p.show()))
        }
        Route::MulNeg => {
            if w > 128 {
                // baa multiplication above 128 bits is todo!() (C01/C06 finding, not a C12 route)
                return None;
            }
            let m = Bv::ones(w);
            let n = t.neg();
            chk(m.mul(&n), "mul");
            val(b(&m).mul(&b(&n)), format!("{} * {}", m.show(), n.show()))
        }
        Route::SliceHi => {
            let x = t.concat(&Bv::from_u64(7, 0x55));
            chk(x.extract(w + 6, 7), "slice");
            val(b(&x).slice(w + 6, 7), format!("({})[{}:7]", x.show(), w + 6))
        }
        Route::SliceLo => {
            let x = Bv::ones(65).concat(t);
            chk(x.extract(w - 1, 0), "slice");
            val(b(&x).slice(w - 1, 0), format!("({})[{}:0]", x.show(), w - 1))
        }
        Route::SliceMid => {
            let x = Bv::ones(3).concat(t).concat(&Bv::ones(64));
            chk(x.extract(w + 63, 64), "slice");
            val(b(&x).slice(w + 63, 64), format!("({})[{}:64]", x.show(), w + 63))
        }
        Route::ZExt1 | Route::ZExt64 | Route::ZExtBit => {
            let nw = match route {
                Route::ZExt1 => w.checked_sub(1)?,
                Route::ZExt64 => 64,
                _ => 1,
            };
            if nw == 0 || nw >= w || !fits(t, nw) || (route == Route::ZExtBit && w == 2) {
                return None;
            }
            let x = t.extract(nw - 1, 0);
            chk(x.zext(w - nw), "zext");
            val(b(&x).zero_extend(w - nw), format!("zext({}, {})", x.show(), w - nw))
        }
        Route::SExt1 | Route::SExt64 | Route::SExtBit => {
            let nw = match route {
                Route::SExt1 => w.checked_sub(1)?,
                Route::SExt64 => 64,
                _ => 1,
            };
            if nw == 0 || nw >= w || (route == Route::SExtBit && w == 2) {
                return None;
            }
            let x = t.extract(nw - 1, 0);
            if &x.sext(w - nw) != t {
                return None;
            }
            val(b(&x).sign_extend(w - nw), format!("sext({}, {})", x.show(), w - nw))
        }
        Route::ConcatHalf | Route::Concat64 => {
            let k = if route == Route::ConcatHalf { w / 2 } else { 64 };
            if k == 0 || k >= w || (route == Route::Concat64 && w / 2 == 64) {
                return None;
            }
            let hi = t.extract(w - 1, k);
            let lo = t.extract(k - 1, 0);
            chk(hi.concat(&lo), "concat");
            val(b(&hi).concat(&b(&lo)), format!("{} # {}", hi.show(), lo.show()))
        }
        Route::Shl => {
            // junk in the bits that are shifted out; the amount is the number of trailing zeros
            let (x, s) = if t.is_zero() {
                (Bv::ones(w), w)
            } else {
                let s = t.v.trailing_zeros().unwrap() as u32;
                let low = Bv::new(w, &t.v >> (s as usize));
                let junk = if s == 0 { Bv::zero(w) } else { Bv::new(w, mask(s) << ((w - s) as usize)) };
                (low.or(&junk), s)
            };
            let amt = Bv::new(w, BigUint::from(s));
            if amt.v != BigUint::from(s) {
                return None;
            }
            chk(x.shl(&amt), "shl");
            val(b(&x).shift_left(&b(&amt)), format!("{} << {}", x.show(), s))
        }
        Route::ShlHuge => {
            if !(t.is_zero() && w > 64) {
                return None;
            }
            let x = Bv::ones(w);
            let amt = Bv::new(w, pow2(64));
            chk(x.shl(&amt), "shl");
            val(b(&x).shift_left(&b(&amt)), format!("{} << 2^64", x.show()))
        }
        Route::Lshr => {
            // junk in the low bits that are shifted out; the amount is the number of leading zeros
            let (x, s) = if t.is_zero() {
                (Bv::ones(w), w)
            } else {
                let lz = w - t.v.bits() as u32;
                if lz == 0 { (t.clone(), 0) } else { (Bv::new(w, (&t.v << (lz as usize)) | mask(lz)), lz) }
            };
            let amt = Bv::new(w, BigUint::from(s));
            if amt.v != BigUint::from(s) {
                return None;
            }
            chk(x.lshr(&amt), "lshr");
            val(b(&x).shift_right(&b(&amt)), format!("{} >> {}", x.show(), s))
        }
        Route::Ashr => {
            if w < 2 {
                return None;
            }
            let x = Bv::new(w, ((&t.v << 1usize) | BigUint::one()) & mask(w));
            let amt = Bv::one(w);
            if x.ashr(&amt) != *t {
                return None;
            }
            val(b(&x).arithmetic_shift_right(&b(&amt)), format!("{} >>> 1", x.show()))
        }
    }
}
