//! Drivers for the expression-level properties: C01, C06, C12, C13.
mod c01;
mod c06;
mod c12;
mod c12_lits;
mod c13;
mod c13_maps;

use pvcore::run::*;
use pvcore::sweep::*;
use pvcore::terms::*;

/// Stage lists shared by C01/C06/C13. The first stages are the fixed base set of the quick tier;
/// the optional ones are rotated by the seed and run while the budget lasts.
pub fn stages(tier: Tier, seed: u64, divrem: bool, arrays: bool) -> Vec<Stage> {
    let mk = |ws: &[u32], arrs: &[(u32, u32)], ext: &[u32]| {
        let mut c = Cfg::new(ws);
        c.arrays = if arrays { arrs.to_vec() } else { vec![] };
        c.ext_by = ext.to_vec();
        c.divrem = divrem;
        c
    };
    let mut out = vec![];
    // base: T1 at every width class with the full literal alphabet
    for w in [2u32, 3, 4, 8, 32, 33, 64, 65, 128, 129] {
        out.push(Stage::new(&format!("T1[1,{w}]"), mk(&[1, w], &[(1, w.min(2))], &[1, 2, w, 31, 32, 33, 63, 64, 65]), 1));
    }
    // base: T2 at narrow widths
    let small_inner = |ws: &[u32], arrs: &[(u32, u32)]| {
        let mut c = mk(ws, arrs, &[1]);
        c.lits = Lits::Reduced;
        c.nsyms = 2;
        c
    };
    out.push(Stage::new("T2[1,2]+arr", mk(&[1, 2], &[(1, 1), (1, 2)], &[1, 2]), 2).with_inner(small_inner(&[1, 2], &[(1, 2)])));
    out.push(Stage::new("T2[1,4]", mk(&[1, 4], &[], &[1, 2]), 2).with_inner(small_inner(&[1, 4], &[])));
    let mut optional = vec![];
    for w in [33u32, 65, 3, 129, 32, 64, 128, 8, 31, 63, 127, 5, 6, 7] {
        optional.push(Stage::new(&format!("T2[1,{w}]"), mk(&[1, w], &[], &[1, 32]), 2).with_inner(small_inner(&[1, w], &[])));
    }
    optional.push(Stage::new("T2[2,3]+arr", mk(&[2, 3], &[(2, 2), (2, 1)], &[1]), 2).with_inner(small_inner(&[2, 3], &[(2, 1)])));
    optional.push(Stage::new("T2[1,2,4]", mk(&[1, 2, 4], &[], &[1, 2]), 2).with_inner(small_inner(&[1, 2, 4], &[])));
    if tier.is_thorough() {
        for w in [5u32, 6, 7, 31, 63, 127] {
            out.push(Stage::new(&format!("T1[1,{w}]"), mk(&[1, w], &[(1, 2)], &[1, 2, w, 31, 32, 33, 63, 64, 65]), 1));
        }
        out.extend(optional);
        out.push(Stage::new("T3[1,2]", mk(&[1, 2], &[(1, 2)], &[1]), 3).with_inner(small_inner(&[1, 2], &[(1, 2)])));
        out.push(Stage::new("T3[1,3]", mk(&[1, 3], &[], &[1]), 3).with_inner(small_inner(&[1, 3], &[])));
        out.push(Stage::new("T3[1,4]", mk(&[1, 4], &[], &[1]), 3).with_inner(small_inner(&[1, 4], &[])));
        out.push(Stage::new("T3[1,33]", mk(&[1, 33], &[], &[1]), 3).with_inner(small_inner(&[1, 33], &[])));
        out.push(Stage::new("T3[1,65]", mk(&[1, 65], &[], &[1]), 3).with_inner(small_inner(&[1, 65], &[])));
    } else {
        out.extend(rotate(&optional, seed));
    }
    out
}

fn main() {
    main_with(&[
        Entry { id: "C01", level: "exploration", meta: c01::meta, run: c01::run, replay: c01::replay },
        Entry { id: "C06", level: "exploration", meta: c06::meta, run: c06::run, replay: c06::replay },
        Entry { id: "C12", level: "model_checking", meta: c12::meta, run: c12::run, replay: c12::replay },
        Entry { id: "C13", level: "model_checking", meta: c13::meta, run: c13::run, replay: c13::replay },
    ])
}
