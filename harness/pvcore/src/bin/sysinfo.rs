//! prints the size of the system family and the distribution of shortest counterexamples
use patronus::expr::Context;
use pvcore::sysgen::*;
use pvcore::tsref::Ts;
use std::collections::BTreeMap;

fn main() {
    for name in ["K1", "K2", "K3", "K4", "K5", "K6", "K7"] {
        let k = skeleton_generated(name, false);
        let pools: Vec<usize> = k.slots.iter().map(|(_, p)| p.len()).collect();
        let s1 = k.s1();
        let t0 = std::time::Instant::now();
        let mut hist: BTreeMap<String, usize> = BTreeMap::new();
        let mut states = 0;
        for sp in s1.iter() {
            let mut ctx = Context::default();
            let b = sp.build(&mut ctx);
            let ts = Ts::new(&ctx, &b.sys);
            let r = ts.reach(Some(6), true);
            states += r.states;
            *hist.entry(format!("{:?}", r.shortest)).or_insert(0) += 1;
        }
        println!("{name}: pools {:?} S1={} S2(4)={} S3(3)={} reach-states={} {:?} in {:?}", pools, s1.len(), k.s2(4).len(), k.s3(3).len(), states, hist, t0.elapsed());
    }
}
