//! Core of the patronus verification harness: reference semantics, enumerators, plumbing.
pub mod bv;
pub mod chunkio;
pub mod evalref;
pub mod run;
pub mod sweep;
pub mod sysgen;
pub mod terms;
pub mod tsref;
