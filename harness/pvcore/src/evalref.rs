//! Reference evaluator and deep type checker over patronus' public `Expr` enum.
//! Shares no code with patronus' own evaluator.

use crate::bv::{Arr, Bv, Val};
use patronus::expr::{ArrayType, Context, Expr, ExprRef, Type};
use rustc_hash::FxHashMap;

pub type Env = FxHashMap<ExprRef, Val>;

pub fn children(e: &Expr) -> Vec<ExprRef> {
    use Expr::*;
    match *e {
        BVSymbol { .. } | BVLiteral(_) | ArraySymbol { .. } => vec![],
        BVZeroExt { e, .. } | BVSignExt { e, .. } | BVSlice { e, .. } => vec![e],
        BVNot(e, _) | BVNegate(e, _) => vec![e],
        BVEqual(a, b) | BVImplies(a, b) | BVGreater(a, b) | BVGreaterEqual(a, b) => vec![a, b],
        BVGreaterSigned(a, b, _) | BVGreaterEqualSigned(a, b, _) | BVConcat(a, b, _) => vec![a, b],
        BVAnd(a, b, _) | BVOr(a, b, _) | BVXor(a, b, _) => vec![a, b],
        BVShiftLeft(a, b, _) | BVArithmeticShiftRight(a, b, _) | BVShiftRight(a, b, _) => vec![a, b],
        BVAdd(a, b, _) | BVMul(a, b, _) | BVSub(a, b, _) => vec![a, b],
        BVSignedDiv(a, b, _) | BVUnsignedDiv(a, b, _) | BVSignedMod(a, b, _) => vec![a, b],
        BVSignedRem(a, b, _) | BVUnsignedRem(a, b, _) => vec![a, b],
        BVArrayRead { array, index, .. } => vec![array, index],
        BVIte { cond, tru, fals } | ArrayIte { cond, tru, fals } => vec![cond, tru, fals],
        ArrayConstant { e, .. } => vec![e],
        ArrayEqual(a, b) => vec![a, b],
        ArrayStore { array, index, data } => vec![array, index, data],
    }
}

/// literal value of a `BVLiteral`, read through raw words only
pub fn lit_value(ctx: &Context, e: ExprRef) -> Option<Bv> {
    use baa::BitVecOps;
    if let Expr::BVLiteral(v) = &ctx[e] {
        let r = v.get(ctx);
        Some(Bv::from_words(r.width(), r.words()))
    } else {
        None
    }
}

/// Evaluate `e` under `env`. `env` may bind inner (non-symbol) nodes: those are used
/// instead of evaluating the sub-tree. Panics with a message on an unbound symbol.
pub fn eval_ref(ctx: &Context, e: ExprRef, env: &Env) -> Val {
    let mut memo: FxHashMap<ExprRef, Val> = FxHashMap::default();
    eval_rec(ctx, e, env, &mut memo)
}

pub fn eval_ref_memo(ctx: &Context, e: ExprRef, env: &Env, memo: &mut FxHashMap<ExprRef, Val>) -> Val {
    eval_rec(ctx, e, env, memo)
}

fn eval_rec(ctx: &Context, e: ExprRef, env: &Env, memo: &mut FxHashMap<ExprRef, Val>) -> Val {
    if let Some(v) = env.get(&e) {
        return v.clone();
    }
    if let Some(v) = memo.get(&e) {
        return v.clone();
    }
    use Expr::*;
    let expr = ctx[e].clone();
    let mut ev = |x: ExprRef| eval_rec(ctx, x, env, memo);
    let b = |x: bool| Val::B(Bv::from_bool(x));
    let out = match expr {
        BVSymbol { name, width } => panic!("eval_ref: unbound symbol {} : bv<{}>", ctx[name], width),
        ArraySymbol { name, .. } => panic!("eval_ref: unbound array symbol {}", ctx[name]),
        BVLiteral(_) => Val::B(lit_value(ctx, e).unwrap()),
        BVZeroExt { e, by, .. } => Val::B(ev(e).bv().zext(by)),
        BVSignExt { e, by, .. } => Val::B(ev(e).bv().sext(by)),
        BVSlice { e, hi, lo } => Val::B(ev(e).bv().extract(hi, lo)),
        BVNot(e, _) => Val::B(ev(e).bv().not()),
        BVNegate(e, _) => Val::B(ev(e).bv().neg()),
        BVEqual(a, c) => b(ev(a).bv() == ev(c).bv()),
        BVImplies(a, c) => b(!ev(a).bv().to_bool() || ev(c).bv().to_bool()),
        BVGreater(a, c) => b(ev(a).bv().ugt(ev(c).bv())),
        BVGreaterSigned(a, c, _) => b(ev(a).bv().sgt(ev(c).bv())),
        BVGreaterEqual(a, c) => b(ev(a).bv().uge(ev(c).bv())),
        BVGreaterEqualSigned(a, c, _) => b(ev(a).bv().sge(ev(c).bv())),
        BVConcat(a, c, _) => Val::B(ev(a).bv().concat(ev(c).bv())),
        BVAnd(a, c, _) => Val::B(ev(a).bv().and(ev(c).bv())),
        BVOr(a, c, _) => Val::B(ev(a).bv().or(ev(c).bv())),
        BVXor(a, c, _) => Val::B(ev(a).bv().xor(ev(c).bv())),
        BVShiftLeft(a, c, _) => Val::B(ev(a).bv().shl(ev(c).bv())),
        BVArithmeticShiftRight(a, c, _) => Val::B(ev(a).bv().ashr(ev(c).bv())),
        BVShiftRight(a, c, _) => Val::B(ev(a).bv().lshr(ev(c).bv())),
        BVAdd(a, c, _) => Val::B(ev(a).bv().add(ev(c).bv())),
        BVMul(a, c, _) => Val::B(ev(a).bv().mul(ev(c).bv())),
        BVSignedDiv(a, c, _) => Val::B(ev(a).bv().sdiv(ev(c).bv())),
        BVUnsignedDiv(a, c, _) => Val::B(ev(a).bv().udiv(ev(c).bv())),
        BVSignedMod(a, c, _) => Val::B(ev(a).bv().smod(ev(c).bv())),
        BVSignedRem(a, c, _) => Val::B(ev(a).bv().srem(ev(c).bv())),
        BVUnsignedRem(a, c, _) => Val::B(ev(a).bv().urem(ev(c).bv())),
        BVSub(a, c, _) => Val::B(ev(a).bv().sub(ev(c).bv())),
        BVArrayRead { array, index, .. } => Val::B(ev(array).arr().select(ev(index).bv())),
        BVIte { cond, tru, fals } | ArrayIte { cond, tru, fals } => {
            if ev(cond).bv().to_bool() {
                ev(tru)
            } else {
                ev(fals)
            }
        }
        ArrayConstant { e, index_width, .. } => Val::A(Arr::constant(index_width, ev(e).bv())),
        ArrayEqual(a, c) => b(ev(a).arr() == ev(c).arr()),
        ArrayStore { array, index, data } => {
            let a = ev(array);
            let i = ev(index);
            let d = ev(data);
            Val::A(a.arr().store(i.bv(), d.bv()))
        }
    };
    memo.insert(e, out.clone());
    out
}

/// Independent type computation with a full recursive well-typedness check of every node.
pub fn type_ref(ctx: &Context, e: ExprRef) -> Result<Type, String> {
    let mut memo: FxHashMap<ExprRef, Type> = FxHashMap::default();
    type_rec(ctx, e, &mut memo)
}

pub fn type_ref_memo(ctx: &Context, e: ExprRef, memo: &mut FxHashMap<ExprRef, Type>) -> Result<Type, String> {
    type_rec(ctx, e, memo)
}

fn type_rec(ctx: &Context, e: ExprRef, memo: &mut FxHashMap<ExprRef, Type>) -> Result<Type, String> {
    if let Some(t) = memo.get(&e) {
        return Ok(*t);
    }
    use Expr::*;
    let expr = ctx[e].clone();
    let mut ty = |x: ExprRef| type_rec(ctx, x, memo);
    fn bvw(t: Type, what: &str) -> Result<u32, String> {
        match t {
            Type::BV(w) => Ok(w),
            Type::Array(_) => Err(format!("{what}: expected bit-vector, got array")),
        }
    }
    fn arr(t: Type, what: &str) -> Result<ArrayType, String> {
        match t {
            Type::Array(a) => Ok(a),
            Type::BV(_) => Err(format!("{what}: expected array, got bit-vector")),
        }
    }
    let same = |a: Type, b: Type, rec: Option<u32>, what: &str| -> Result<u32, String> {
        let (wa, wb) = (bvw(a, what)?, bvw(b, what)?);
        if wa != wb {
            return Err(format!("{what}: operand widths {wa} vs {wb}"));
        }
        if let Some(r) = rec
            && r != wa
        {
            return Err(format!("{what}: recorded width {r} but operands are {wa}"));
        }
        Ok(wa)
    };
    let out = match expr {
        BVSymbol { width, .. } => {
            if width == 0 {
                return Err("symbol of width 0".into());
            }
            Type::BV(width)
        }
        BVLiteral(v) => {
            if v.width() == 0 {
                return Err("literal of width 0".into());
            }
            Type::BV(v.width())
        }
        BVZeroExt { e, by, width } | BVSignExt { e, by, width } => {
            let w = bvw(ty(e)?, "ext")?;
            if w.checked_add(by) != Some(width) {
                return Err(format!("ext: {w}+{by} != recorded {width}"));
            }
            Type::BV(width)
        }
        BVSlice { e, hi, lo } => {
            let w = bvw(ty(e)?, "slice")?;
            if hi < lo || hi >= w {
                return Err(format!("slice [{hi}:{lo}] of bv<{w}>"));
            }
            Type::BV(hi - lo + 1)
        }
        BVNot(e, w) | BVNegate(e, w) => {
            let we = bvw(ty(e)?, "not/neg")?;
            if we != w {
                return Err(format!("not/neg: recorded {w}, operand {we}"));
            }
            Type::BV(w)
        }
        BVEqual(a, b) | BVGreater(a, b) | BVGreaterEqual(a, b) => {
            same(ty(a)?, ty(b)?, None, "cmp")?;
            Type::BV(1)
        }
        BVGreaterSigned(a, b, w) | BVGreaterEqualSigned(a, b, w) => {
            same(ty(a)?, ty(b)?, Some(w), "signed cmp")?;
            Type::BV(1)
        }
        BVImplies(a, b) => {
            if same(ty(a)?, ty(b)?, None, "implies")? != 1 {
                return Err("implies on non-bool".into());
            }
            Type::BV(1)
        }
        BVConcat(a, b, w) => {
            let (wa, wb) = (bvw(ty(a)?, "concat")?, bvw(ty(b)?, "concat")?);
            if wa.checked_add(wb) != Some(w) {
                return Err(format!("concat: {wa}+{wb} != recorded {w}"));
            }
            Type::BV(w)
        }
        BVAnd(a, b, w) | BVOr(a, b, w) | BVXor(a, b, w) | BVShiftLeft(a, b, w)
        | BVArithmeticShiftRight(a, b, w) | BVShiftRight(a, b, w) | BVAdd(a, b, w)
        | BVMul(a, b, w) | BVSignedDiv(a, b, w) | BVUnsignedDiv(a, b, w)
        | BVSignedMod(a, b, w) | BVSignedRem(a, b, w) | BVUnsignedRem(a, b, w)
        | BVSub(a, b, w) => Type::BV(same(ty(a)?, ty(b)?, Some(w), "binop")?),
        BVArrayRead { array, index, width } => {
            let at = arr(ty(array)?, "read")?;
            let iw = bvw(ty(index)?, "read index")?;
            if at.index_width != iw {
                return Err(format!("read: index {iw} vs array index {}", at.index_width));
            }
            if at.data_width != width {
                return Err(format!("read: recorded {width} vs array data {}", at.data_width));
            }
            Type::BV(width)
        }
        BVIte { cond, tru, fals } => {
            if bvw(ty(cond)?, "ite cond")? != 1 {
                return Err("ite condition not 1 bit".into());
            }
            Type::BV(same(ty(tru)?, ty(fals)?, None, "ite")?)
        }
        ArraySymbol { index_width, data_width, .. } => {
            if index_width == 0 || data_width == 0 {
                return Err("array symbol with zero width".into());
            }
            Type::Array(ArrayType { index_width, data_width })
        }
        ArrayConstant { e, index_width, data_width } => {
            let w = bvw(ty(e)?, "array const")?;
            if w != data_width || index_width == 0 {
                return Err(format!("array const: data {w} vs recorded {data_width}, iw {index_width}"));
            }
            Type::Array(ArrayType { index_width, data_width })
        }
        ArrayEqual(a, b) => {
            let (ta, tb) = (arr(ty(a)?, "array eq")?, arr(ty(b)?, "array eq")?);
            if ta != tb {
                return Err("array eq: different array types".into());
            }
            Type::BV(1)
        }
        ArrayStore { array, index, data } => {
            let at = arr(ty(array)?, "store")?;
            let (iw, dw) = (bvw(ty(index)?, "store index")?, bvw(ty(data)?, "store data")?);
            if iw != at.index_width || dw != at.data_width {
                return Err(format!("store: index {iw} data {dw} into {at:?}"));
            }
            Type::Array(at)
        }
        ArrayIte { cond, tru, fals } => {
            if bvw(ty(cond)?, "array ite cond")? != 1 {
                return Err("array ite condition not 1 bit".into());
            }
            let (ta, tb) = (arr(ty(tru)?, "array ite")?, arr(ty(fals)?, "array ite")?);
            if ta != tb {
                return Err("array ite: different branch types".into());
            }
            Type::Array(ta)
        }
    };
    memo.insert(e, out);
    Ok(out)
}

/// all distinct symbols below `e` (own traversal), in first-visit order
pub fn symbols_of(ctx: &Context, roots: &[ExprRef]) -> Vec<ExprRef> {
    let mut seen = rustc_hash::FxHashSet::default();
    let mut out = vec![];
    let mut todo: Vec<ExprRef> = roots.iter().rev().cloned().collect();
    while let Some(e) = todo.pop() {
        if !seen.insert(e) {
            continue;
        }
        if ctx[e].is_symbol() {
            out.push(e);
        }
        let ch = children(&ctx[e]);
        for c in ch.into_iter().rev() {
            todo.push(c);
        }
    }
    out
}

/// all distinct nodes below the roots (including them), children before parents
pub fn nodes_of(ctx: &Context, roots: &[ExprRef]) -> Vec<ExprRef> {
    let mut seen = rustc_hash::FxHashSet::default();
    let mut out = vec![];
    fn rec(ctx: &Context, e: ExprRef, seen: &mut rustc_hash::FxHashSet<ExprRef>, out: &mut Vec<ExprRef>) {
        if !seen.insert(e) {
            return;
        }
        for c in children(&ctx[e]) {
            rec(ctx, c, seen, out);
        }
        out.push(e);
    }
    for r in roots {
        rec(ctx, *r, &mut seen, &mut out);
    }
    out
}

// ---------------------------------------------------------------- baa conversions (raw words only)

pub fn bv_to_baa(b: &Bv) -> baa::BitVecValue {
    let words = b.words();
    baa::BitVecValueRef::new(&words, b.w).into()
}

pub fn baa_to_bv(v: &impl baa::BitVecOps) -> Bv {
    Bv::from_words(v.width(), v.words())
}

pub fn arr_to_baa(a: &Arr, dense: bool) -> baa::ArrayValue {
    use baa::ArrayMutOps;
    let d = bv_to_baa(&Bv::new(a.dw, a.default.clone()));
    let mut out = if dense { baa::ArrayValue::new_dense(a.iw, &d) } else { baa::ArrayValue::new_sparse(a.iw, &d) };
    for (k, v) in a.map.iter() {
        out.store(&bv_to_baa(&Bv::new(a.iw, k.clone())), &bv_to_baa(&Bv::new(a.dw, v.clone())));
    }
    out
}

/// read a baa array through `select` on every index (index width must be small)
pub fn baa_to_arr(v: &baa::ArrayValue) -> Arr {
    use baa::ArrayOps;
    let iw = v.index_width();
    assert!(iw <= 16, "baa_to_arr: index width {iw} too large to tabulate");
    let t: Vec<Bv> = (0..(1u64 << iw)).map(|i| baa_to_bv(&v.select(&bv_to_baa(&Bv::from_u64(iw, i))))).collect();
    Arr::from_table(iw, v.data_width(), &t)
}

pub fn val_to_baa(v: &Val) -> baa::Value {
    match v {
        Val::B(b) => baa::Value::BitVec(bv_to_baa(b)),
        Val::A(a) => baa::Value::Array(arr_to_baa(a, false)),
    }
}

pub fn baa_to_val(v: &baa::Value) -> Val {
    match v {
        baa::Value::BitVec(b) => Val::B(baa_to_bv(b)),
        baa::Value::Array(a) => Val::A(baa_to_arr(a)),
    }
}
