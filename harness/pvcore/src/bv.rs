//! Reference values: bit-vectors on num-bigint and extensional arrays.
//! Independent of patronus/baa (baa's `bigint` feature is off, so no code is shared).
//! Semantics: SMT-LIB 2.6 FixedSizeBitVectors + ArraysEx.

use num_bigint::BigUint;
use num_traits::{One, Zero};
use std::collections::BTreeMap;

#[derive(Clone, PartialEq, Eq, Hash, Debug, PartialOrd, Ord)]
pub struct Bv {
    pub w: u32,
    pub v: BigUint,
}

pub fn pow2(n: u32) -> BigUint {
    BigUint::one() << (n as usize)
}

pub fn mask(n: u32) -> BigUint {
    pow2(n) - BigUint::one()
}

impl Bv {
    pub fn new(w: u32, v: BigUint) -> Bv {
        assert!(w > 0, "zero-width reference bit-vector");
        let v = if v.bits() > w as u64 { v & mask(w) } else { v };
        Bv { w, v }
    }
    pub fn from_u64(w: u32, v: u64) -> Bv {
        Bv::new(w, BigUint::from(v))
    }
    pub fn from_u128(w: u32, v: u128) -> Bv {
        Bv::new(w, BigUint::from(v))
    }
    pub fn zero(w: u32) -> Bv {
        Bv::new(w, BigUint::zero())
    }
    pub fn one(w: u32) -> Bv {
        Bv::new(w, BigUint::one())
    }
    pub fn ones(w: u32) -> Bv {
        Bv::new(w, mask(w))
    }
    pub fn from_bool(b: bool) -> Bv {
        Bv::from_u64(1, b as u64)
    }
    pub fn is_zero(&self) -> bool {
        self.v.is_zero()
    }
    pub fn to_bool(&self) -> bool {
        assert_eq!(self.w, 1);
        !self.v.is_zero()
    }
    pub fn msb(&self) -> bool {
        self.v.bit((self.w - 1) as u64)
    }
    pub fn to_u64(&self) -> Option<u64> {
        let d = self.v.to_u64_digits();
        match d.len() {
            0 => Some(0),
            1 => Some(d[0]),
            _ => None,
        }
    }
    /// little-endian 64-bit words, exactly ceil(w/64) of them
    pub fn words(&self) -> Vec<u64> {
        let n = self.w.div_ceil(64) as usize;
        let mut d = self.v.to_u64_digits();
        d.resize(n, 0);
        d
    }
    pub fn from_words(w: u32, words: &[u64]) -> Bv {
        let mut v = BigUint::zero();
        for (i, x) in words.iter().enumerate() {
            v |= BigUint::from(*x) << (64 * i);
        }
        // deliberately NOT masked silently: a value with bits above the width is non-canonical
        Bv { w, v }
    }
    pub fn is_canonical(&self) -> bool {
        self.v.bits() <= self.w as u64
    }
    pub fn bit_str(&self) -> String {
        let s = self.v.to_str_radix(2);
        let pad = (self.w as usize).saturating_sub(s.len());
        format!("{}{}", "0".repeat(pad), s)
    }
    pub fn from_bit_str(s: &str) -> Bv {
        let w = s.len() as u32;
        Bv::new(w, BigUint::parse_bytes(s.as_bytes(), 2).expect("bit string"))
    }
    pub fn show(&self) -> String {
        format!("{}'d{}", self.w, self.v)
    }

    // ---- bitwise
    pub fn not(&self) -> Bv {
        Bv::new(self.w, mask(self.w) ^ &self.v)
    }
    pub fn and(&self, o: &Bv) -> Bv {
        assert_eq!(self.w, o.w);
        Bv::new(self.w, &self.v & &o.v)
    }
    pub fn or(&self, o: &Bv) -> Bv {
        assert_eq!(self.w, o.w);
        Bv::new(self.w, &self.v | &o.v)
    }
    pub fn xor(&self, o: &Bv) -> Bv {
        assert_eq!(self.w, o.w);
        Bv::new(self.w, &self.v ^ &o.v)
    }
    // ---- arithmetic
    pub fn neg(&self) -> Bv {
        if self.v.is_zero() {
            self.clone()
        } else {
            Bv::new(self.w, pow2(self.w) - &self.v)
        }
    }
    pub fn add(&self, o: &Bv) -> Bv {
        assert_eq!(self.w, o.w);
        Bv::new(self.w, (&self.v + &o.v) & mask(self.w))
    }
    pub fn sub(&self, o: &Bv) -> Bv {
        assert_eq!(self.w, o.w);
        Bv::new(self.w, (pow2(self.w) + &self.v - &o.v) & mask(self.w))
    }
    pub fn mul(&self, o: &Bv) -> Bv {
        assert_eq!(self.w, o.w);
        Bv::new(self.w, (&self.v * &o.v) & mask(self.w))
    }
    pub fn udiv(&self, o: &Bv) -> Bv {
        assert_eq!(self.w, o.w);
        if o.v.is_zero() {
            Bv::ones(self.w)
        } else {
            Bv::new(self.w, &self.v / &o.v)
        }
    }
    pub fn urem(&self, o: &Bv) -> Bv {
        assert_eq!(self.w, o.w);
        if o.v.is_zero() {
            self.clone()
        } else {
            Bv::new(self.w, &self.v % &o.v)
        }
    }
    /// SMT-LIB bvsdiv by sign-case definition
    pub fn sdiv(&self, o: &Bv) -> Bv {
        match (self.msb(), o.msb()) {
            (false, false) => self.udiv(o),
            (true, false) => self.neg().udiv(o).neg(),
            (false, true) => self.udiv(&o.neg()).neg(),
            (true, true) => self.neg().udiv(&o.neg()),
        }
    }
    pub fn srem(&self, o: &Bv) -> Bv {
        match (self.msb(), o.msb()) {
            (false, false) => self.urem(o),
            (true, false) => self.neg().urem(o).neg(),
            (false, true) => self.urem(&o.neg()),
            (true, true) => self.neg().urem(&o.neg()).neg(),
        }
    }
    pub fn smod(&self, o: &Bv) -> Bv {
        let abs_s = if self.msb() { self.neg() } else { self.clone() };
        let abs_t = if o.msb() { o.neg() } else { o.clone() };
        let u = abs_s.urem(&abs_t);
        if u.is_zero() {
            u
        } else {
            match (self.msb(), o.msb()) {
                (false, false) => u,
                (true, false) => u.neg().add(o),
                (false, true) => u.add(o),
                (true, true) => u.neg(),
            }
        }
    }
    // ---- shifts (amount is a bit-vector of the same width)
    fn shamt(&self, o: &Bv) -> Option<u32> {
        assert_eq!(self.w, o.w);
        if o.v >= BigUint::from(self.w) {
            None
        } else {
            Some(o.to_u64().unwrap() as u32)
        }
    }
    pub fn shl(&self, o: &Bv) -> Bv {
        match self.shamt(o) {
            None => Bv::zero(self.w),
            Some(s) => Bv::new(self.w, (&self.v << (s as usize)) & mask(self.w)),
        }
    }
    pub fn lshr(&self, o: &Bv) -> Bv {
        match self.shamt(o) {
            None => Bv::zero(self.w),
            Some(s) => Bv::new(self.w, &self.v >> (s as usize)),
        }
    }
    pub fn ashr(&self, o: &Bv) -> Bv {
        let neg = self.msb();
        match self.shamt(o) {
            None => {
                if neg {
                    Bv::ones(self.w)
                } else {
                    Bv::zero(self.w)
                }
            }
            Some(s) => {
                let sh = &self.v >> (s as usize);
                if neg && s > 0 {
                    // fill the top s bits
                    let fill = mask(s) << ((self.w - s) as usize);
                    Bv::new(self.w, sh | fill)
                } else {
                    Bv::new(self.w, sh)
                }
            }
        }
    }
    // ---- structure
    pub fn concat(&self, lo: &Bv) -> Bv {
        Bv::new(self.w + lo.w, (&self.v << (lo.w as usize)) | &lo.v)
    }
    pub fn extract(&self, hi: u32, lo: u32) -> Bv {
        assert!(hi >= lo && hi < self.w, "extract [{hi}:{lo}] of {}", self.w);
        Bv::new(hi - lo + 1, (&self.v >> (lo as usize)) & mask(hi - lo + 1))
    }
    pub fn zext(&self, by: u32) -> Bv {
        Bv::new(self.w + by, self.v.clone())
    }
    pub fn sext(&self, by: u32) -> Bv {
        if self.msb() && by > 0 {
            Bv::new(self.w + by, (mask(by) << (self.w as usize)) | &self.v)
        } else {
            Bv::new(self.w + by, self.v.clone())
        }
    }
    // ---- comparisons
    pub fn ugt(&self, o: &Bv) -> bool {
        assert_eq!(self.w, o.w);
        self.v > o.v
    }
    pub fn uge(&self, o: &Bv) -> bool {
        assert_eq!(self.w, o.w);
        self.v >= o.v
    }
    fn skey(&self) -> (bool, &BigUint) {
        // two's complement order: non-negative numbers are greater than negative ones;
        // within the same sign, order is the unsigned order
        (!self.msb(), &self.v)
    }
    pub fn sgt(&self, o: &Bv) -> bool {
        assert_eq!(self.w, o.w);
        self.skey() > o.skey()
    }
    pub fn sge(&self, o: &Bv) -> bool {
        assert_eq!(self.w, o.w);
        self.skey() >= o.skey()
    }
}

/// Extensional array value: total map from `iw`-bit indices to `dw`-bit data.
#[derive(Clone, Debug)]
pub struct Arr {
    pub iw: u32,
    pub dw: u32,
    pub default: BigUint,
    pub map: BTreeMap<BigUint, BigUint>,
}

impl Arr {
    pub fn constant(iw: u32, d: &Bv) -> Arr {
        Arr {
            iw,
            dw: d.w,
            default: d.v.clone(),
            map: BTreeMap::new(),
        }
    }
    pub fn select(&self, i: &Bv) -> Bv {
        assert_eq!(i.w, self.iw);
        Bv::new(self.dw, self.map.get(&i.v).cloned().unwrap_or_else(|| self.default.clone()))
    }
    pub fn store(&self, i: &Bv, d: &Bv) -> Arr {
        assert_eq!(i.w, self.iw);
        assert_eq!(d.w, self.dw);
        let mut o = self.clone();
        if d.v == o.default {
            o.map.remove(&i.v);
        } else {
            o.map.insert(i.v.clone(), d.v.clone());
        }
        o
    }
    /// all entries for small index widths
    pub fn table(&self) -> Vec<Bv> {
        assert!(self.iw <= 16);
        (0..(1u64 << self.iw)).map(|i| self.select(&Bv::from_u64(self.iw, i))).collect()
    }
    pub fn from_table(iw: u32, dw: u32, t: &[Bv]) -> Arr {
        assert_eq!(t.len(), 1usize << iw);
        let mut a = Arr::constant(iw, &t[0]);
        assert_eq!(a.dw, dw);
        for (i, d) in t.iter().enumerate() {
            a = a.store(&Bv::from_u64(iw, i as u64), d);
        }
        a
    }
    pub fn show(&self) -> String {
        let mut s = format!("[{}->{} default {}", self.iw, self.dw, self.default);
        for (k, v) in self.map.iter() {
            s += &format!(", {k}:{v}");
        }
        s + "]"
    }
}

impl PartialEq for Arr {
    /// pointwise (extensional) equality
    fn eq(&self, o: &Arr) -> bool {
        if self.iw != o.iw || self.dw != o.dw {
            return false;
        }
        let mut n_union = 0u64;
        for k in self.map.keys().chain(o.map.keys().filter(|k| !self.map.contains_key(*k))) {
            n_union += 1;
            let a = self.map.get(k).unwrap_or(&self.default);
            let b = o.map.get(k).unwrap_or(&o.default);
            if a != b {
                return false;
            }
        }
        // an index in neither map exists iff the union does not cover the whole index space
        let covers_all = self.iw < 64 && n_union >= (1u64 << self.iw);
        covers_all || self.default == o.default
    }
}
impl Eq for Arr {}

#[derive(Clone, Debug, PartialEq, Eq)]
pub enum Val {
    B(Bv),
    A(Arr),
}

impl Val {
    pub fn bv(&self) -> &Bv {
        match self {
            Val::B(b) => b,
            Val::A(_) => panic!("expected bit-vector value"),
        }
    }
    pub fn arr(&self) -> &Arr {
        match self {
            Val::A(a) => a,
            Val::B(_) => panic!("expected array value"),
        }
    }
    pub fn show(&self) -> String {
        match self {
            Val::B(b) => b.show(),
            Val::A(a) => a.show(),
        }
    }
    /// canonical hashable key (arrays with iw<=16 via table)
    pub fn key(&self) -> String {
        match self {
            Val::B(b) => b.show(),
            Val::A(a) if a.iw <= 10 => {
                let t: Vec<String> = a.table().iter().map(|b| b.v.to_string()).collect();
                format!("[{}->{}:{}]", a.iw, a.dw, t.join(","))
            }
            Val::A(a) => a.show(),
        }
    }
}

/// Self-consistency check of the big-integer operators against a naive bit-by-bit
/// implementation, exhaustively at widths 1..=max_w. Returns number of comparisons.
pub fn self_check(max_w: u32) -> u64 {
    fn bits(b: &Bv) -> Vec<bool> {
        (0..b.w).map(|i| b.v.bit(i as u64)).collect()
    }
    fn from_bits(bs: &[bool]) -> Bv {
        let mut v = BigUint::zero();
        for (i, b) in bs.iter().enumerate() {
            if *b {
                v.set_bit(i as u64, true);
            }
        }
        Bv::new(bs.len() as u32, v)
    }
    fn to_i(b: &Bv) -> i64 {
        let u = b.to_u64().unwrap() as i64;
        if b.msb() { u - (1i64 << b.w) } else { u }
    }
    let mut n = 0u64;
    for w in 1..=max_w {
        let m = 1u64 << w;
        for x in 0..m {
            let a = Bv::from_u64(w, x);
            assert_eq!(a.not(), from_bits(&bits(&a).iter().map(|b| !b).collect::<Vec<_>>()));
            assert_eq!(a.neg().to_u64().unwrap(), (m - x) % m);
            for by in 0..3 {
                assert_eq!(a.zext(by).to_u64().unwrap(), x);
                let se = a.sext(by);
                assert_eq!(to_i(&se), to_i(&a));
                n += 2;
            }
            for hi in 0..w {
                for lo in 0..=hi {
                    assert_eq!(a.extract(hi, lo), from_bits(&bits(&a)[lo as usize..=hi as usize]));
                    n += 1;
                }
            }
            for y in 0..m {
                let b = Bv::from_u64(w, y);
                let (ab, bb) = (bits(&a), bits(&b));
                let z = |f: fn(bool, bool) -> bool| from_bits(&ab.iter().zip(bb.iter()).map(|(p, q)| f(*p, *q)).collect::<Vec<_>>());
                assert_eq!(a.and(&b), z(|p, q| p & q));
                assert_eq!(a.or(&b), z(|p, q| p | q));
                assert_eq!(a.xor(&b), z(|p, q| p ^ q));
                assert_eq!(a.add(&b).to_u64().unwrap(), (x + y) % m);
                assert_eq!(a.sub(&b).to_u64().unwrap(), (m + x - y) % m);
                assert_eq!(a.mul(&b).to_u64().unwrap(), (x * y) % m);
                assert_eq!(a.udiv(&b).to_u64().unwrap(), if y == 0 { m - 1 } else { x / y });
                assert_eq!(a.urem(&b).to_u64().unwrap(), if y == 0 { x } else { x % y });
                let (sx, sy) = (to_i(&a), to_i(&b));
                let wrap = |v: i64| (v.rem_euclid(m as i64)) as u64;
                // bvsdiv: truncating division; x/0 = (x<0 ? 1 : -1)
                let sd = if sy == 0 { if sx < 0 { 1 } else { -1 } } else { sx.wrapping_div(sy) };
                assert_eq!(a.sdiv(&b).to_u64().unwrap(), wrap(sd), "sdiv {sx} {sy} w{w}");
                let sr = if sy == 0 { sx } else { sx.wrapping_rem(sy) };
                assert_eq!(a.srem(&b).to_u64().unwrap(), wrap(sr), "srem {sx} {sy} w{w}");
                // bvsmod: sign follows the divisor; x mod 0 = x
                let sm = if sy == 0 { sx } else { ((sx % sy) + sy) % sy };
                assert_eq!(a.smod(&b).to_u64().unwrap(), wrap(sm), "smod {sx} {sy} w{w}");
                assert_eq!(a.shl(&b).to_u64().unwrap(), if y >= w as u64 { 0 } else { (x << y) % m });
                assert_eq!(a.lshr(&b).to_u64().unwrap(), if y >= w as u64 { 0 } else { x >> y });
                let ash = if y >= w as u64 { if sx < 0 { -1 } else { 0 } } else { sx >> y };
                assert_eq!(a.ashr(&b).to_u64().unwrap(), wrap(ash));
                assert_eq!(a.ugt(&b), x > y);
                assert_eq!(a.uge(&b), x >= y);
                assert_eq!(a.sgt(&b), sx > sy);
                assert_eq!(a.sge(&b), sx >= sy);
                assert_eq!(a.concat(&b).to_u64().unwrap(), (x << w) | y);
                n += 18;
            }
        }
    }
    n
}
