//! Environment answers of byte sinks and sources: a `Write` that accepts at most `n` bytes per call (a legal
//! short write) and a `BufRead` whose buffer never holds more than `n` bytes (a legal short read / refill at
//! every position). Text produced or consumed through them must not depend on `n`.

use std::io::{BufRead, Read, Write};

pub struct ChunkWriter {
    pub data: Vec<u8>,
    pub chunk: usize,
    pub calls: u64,
}

impl ChunkWriter {
    pub fn new(chunk: usize) -> Self {
        ChunkWriter { data: vec![], chunk: chunk.max(1), calls: 0 }
    }
    pub fn text(&self) -> String {
        String::from_utf8_lossy(&self.data).to_string()
    }
}

impl Write for ChunkWriter {
    fn write(&mut self, buf: &[u8]) -> std::io::Result<usize> {
        self.calls += 1;
        let n = buf.len().min(self.chunk);
        self.data.extend_from_slice(&buf[..n]);
        Ok(n)
    }
    fn flush(&mut self) -> std::io::Result<()> {
        Ok(())
    }
}

pub struct ChunkReader<'a> {
    data: &'a [u8],
    pos: usize,
    chunk: usize,
}

impl<'a> ChunkReader<'a> {
    pub fn new(data: &'a [u8], chunk: usize) -> Self {
        ChunkReader { data, pos: 0, chunk: chunk.max(1) }
    }
}

impl Read for ChunkReader<'_> {
    fn read(&mut self, buf: &mut [u8]) -> std::io::Result<usize> {
        let n = buf.len().min(self.chunk).min(self.data.len() - self.pos);
        buf[..n].copy_from_slice(&self.data[self.pos..self.pos + n]);
        self.pos += n;
        Ok(n)
    }
}

impl BufRead for ChunkReader<'_> {
    fn fill_buf(&mut self) -> std::io::Result<&[u8]> {
        let end = (self.pos + self.chunk).min(self.data.len());
        Ok(&self.data[self.pos..end])
    }
    fn consume(&mut self, amt: usize) {
        self.pos = (self.pos + amt).min(self.data.len());
    }
}

/// chunk sizes explored (deviation from the default "everything at once")
pub const CHUNKS: [usize; 5] = [1, 2, 3, 7, 16];
