//! Parallel, budgeted, deterministic-order sweeps over enumerated term spaces.

use crate::run::{Budget, Report};
use crate::terms::*;
use rayon::prelude::*;
use std::sync::atomic::{AtomicBool, Ordering};

/// A stage is one universe (`cfg`) explored to a depth: 1 = T1, 2 = T1 + T2 (+ pair nestings),
/// 3 = additionally T3 over the reduced configuration.
#[derive(Clone, Debug)]
pub struct Stage {
    pub name: String,
    pub cfg: Cfg,
    pub depth: u32,
    /// configuration used for inner terms at depth >= 2 (defaults to cfg.reduced())
    pub inner: Option<Cfg>,
}

impl Stage {
    pub fn new(name: &str, cfg: Cfg, depth: u32) -> Stage {
        Stage { name: name.to_string(), cfg, depth, inner: None }
    }
    pub fn with_inner(mut self, inner: Cfg) -> Stage {
        self.inner = Some(inner);
        self
    }
}

#[derive(Clone, Debug)]
enum Chunk {
    Terms(Vec<T>),
    Wrap(T, Cfg),
    Wrap2(T, Cfg),
}

fn chunk_terms(c: &Chunk) -> Vec<T> {
    match c {
        Chunk::Terms(v) => v.clone(),
        Chunk::Wrap(inner, cfg) => wrap_all(inner, cfg),
        Chunk::Wrap2(inner, cfg) => {
            let mut out = vec![];
            for mid in wrap_all(inner, cfg) {
                out.extend(wrap_all(&mid, cfg));
            }
            out
        }
    }
}

/// Enumerate all stages in order; `check(term, order_key)` is called for every term and returns
/// whether the case was non-trivial (the subject did real work); distinct non-trivial cases are
/// counted by a hash of the term text.
/// Stages after the budget is exhausted are skipped and reported as a cap.
pub fn run_stages(
    stages: &[Stage],
    rep: &Report,
    budget: &Budget,
    filter: &(dyn Fn(&T) -> bool + Sync),
    check: &(dyn Fn(&T, u64) -> bool + Sync),
) {
    let mut order_base: u64 = 0;
    let mut stage_log = vec![];
    for st in stages {
        if budget.exceeded() {
            rep.cap_hit(&format!("budget: stage {} not started", st.name));
            stage_log.push(serde_json::json!({"stage": st.name, "status": "skipped"}));
            continue;
        }
        let inner_cfg = st.inner.clone().unwrap_or_else(|| st.cfg.reduced());
        let mut chunks: Vec<Chunk> = vec![];
        let base = t1(&st.cfg);
        for c in base.chunks(512) {
            chunks.push(Chunk::Terms(c.to_vec()));
        }
        if st.depth >= 2 {
            let inner = t1(&inner_cfg);
            for i in inner.iter() {
                chunks.push(Chunk::Wrap(i.clone(), inner_cfg.clone()));
            }
            for c in t2_pairs(&inner_cfg).chunks(512) {
                chunks.push(Chunk::Terms(c.to_vec()));
            }
        }
        if st.depth >= 3 {
            let mut c3 = inner_cfg.clone();
            c3.nsyms = 1;
            c3.lits = Lits::Reduced;
            c3.ext_by = vec![1];
            for i in t1(&c3) {
                chunks.push(Chunk::Wrap2(i, c3.clone()));
            }
        }
        let stop = AtomicBool::new(false);
        let done = std::sync::atomic::AtomicU64::new(0);
        let n_chunks = chunks.len();
        chunks.par_iter().enumerate().for_each(|(ci, ch)| {
            if stop.load(Ordering::Relaxed) {
                return;
            }
            if budget.exceeded() {
                stop.store(true, Ordering::Relaxed);
                return;
            }
            let terms = chunk_terms(ch);
            let mut n = 0u64;
            let mut hs = vec![];
            for (ti, t) in terms.iter().enumerate() {
                if !filter(t) {
                    continue;
                }
                let order = order_base + ((ci as u64) << 24) + ti as u64;
                if check(t, order) {
                    hs.push(crate::run::hash64(&t.to_string()));
                }
                if order % 100_003 == 0 {
                    rep.sample(serde_json::json!({"term": t.to_string()}));
                }
                n += 1;
            }
            rep.add("evaluations", n);
            rep.distinct_hashes(&hs);
            done.fetch_add(1, Ordering::Relaxed);
        });
        let d = done.load(Ordering::Relaxed);
        if stop.load(Ordering::Relaxed) {
            rep.cap_hit(&format!("budget: stage {} covered {}/{} chunks", st.name, d, n_chunks));
        }
        stage_log.push(serde_json::json!({"stage": st.name, "depth": st.depth, "chunks": n_chunks, "chunks_done": d}));
        order_base += 1u64 << 44;
    }
    rep.note("stages", serde_json::Value::Array(stage_log));
}

pub const NARROW: [u32; 4] = [1, 2, 3, 4];
pub const MID: [u32; 4] = [5, 6, 7, 8];
pub const BOUNDARY: [u32; 9] = [31, 32, 33, 63, 64, 65, 127, 128, 129];

/// rotate a list by the seed (the seed only changes which optional stages come first)
pub fn rotate<X: Clone>(v: &[X], seed: u64) -> Vec<X> {
    if v.is_empty() {
        return vec![];
    }
    let k = (seed as usize) % v.len();
    let mut o = v[k..].to_vec();
    o.extend_from_slice(&v[..k]);
    o
}
