//! Shared plumbing: CLI, panic capture, violation collection with signatures, known findings,
//! replay files, evidence files, exit codes.
//!
//! exit 0: property held on everything explored (KNOWN-FINDING lines allowed)
//! exit 1: at least one `VIOLATION property=<id> replay=<path>` line
//! exit 2: machinery failure (never a verdict)

use serde_json::{Value, json};
use std::cell::RefCell;
use std::collections::BTreeMap;
use std::path::{Path, PathBuf};
use std::sync::Mutex;
use std::time::Instant;

/// root of the verification tree: /verif, or PV_VERIF_ROOT (relocated copies used by tools/par_seeds.py)
pub fn verif_root() -> String {
    std::env::var("PV_VERIF_ROOT").unwrap_or_else(|_| "/verif".to_string())
}
/// root of the repository under check: /repo, or PV_REPO_ROOT
pub fn repo_root() -> String {
    std::env::var("PV_REPO_ROOT").unwrap_or_else(|_| "/repo".to_string())
}

#[derive(Clone, Copy, Debug, PartialEq, Eq)]
pub enum Tier {
    Quick,
    Thorough,
}

impl Tier {
    pub fn name(&self) -> &'static str {
        match self {
            Tier::Quick => "quick",
            Tier::Thorough => "thorough",
        }
    }
    pub fn is_thorough(&self) -> bool {
        *self == Tier::Thorough
    }
}

#[derive(Clone, Debug)]
pub enum Mode {
    Run(Tier),
    Replay(PathBuf),
}

pub struct Opts {
    pub id: String,
    pub mode: Mode,
    pub seed: u64,
    /// wall-clock budget in seconds for the enumeration (soft cap, reported when hit)
    pub budget_s: f64,
}

// ---------------------------------------------------------------- panic capture

thread_local! {
    static LAST_PANIC: RefCell<Option<(String, String)>> = const { RefCell::new(None) };
    static QUIET: RefCell<bool> = const { RefCell::new(false) };
}

pub fn install_panic_hook() {
    let default = std::panic::take_hook();
    std::panic::set_hook(Box::new(move |info| {
        let loc = info.location().map(|l| format!("{}:{}", l.file(), l.line())).unwrap_or_default();
        let msg = if let Some(s) = info.payload().downcast_ref::<&str>() {
            s.to_string()
        } else if let Some(s) = info.payload().downcast_ref::<String>() {
            s.clone()
        } else {
            "<non-string panic>".to_string()
        };
        LAST_PANIC.with(|p| *p.borrow_mut() = Some((msg, loc)));
        let quiet = QUIET.with(|q| *q.borrow());
        if !quiet {
            default(info);
        }
    }));
}

#[derive(Clone, Debug)]
pub struct PanicInfo {
    pub msg: String,
    pub loc: String,
}

impl PanicInfo {
    /// location relative to the repository (strips everything up to `/repo/` or the registry)
    pub fn short_loc(&self) -> String {
        let l = &self.loc;
        if let Some(i) = l.find("/repo/") {
            l[i + 6..].to_string()
        } else if let Some(i) = l.find("/registry/src/") {
            let rest = &l[i + 14..];
            rest.split_once('/').map(|x| x.1.to_string()).unwrap_or(rest.to_string())
        } else {
            l.clone()
        }
    }
    /// file name without line number (stable across unrelated edits)
    pub fn file(&self) -> String {
        self.short_loc().rsplit_once(':').map(|x| x.0.to_string()).unwrap_or(self.short_loc())
    }
}

/// Run the subject under catch_unwind; panics are captured silently with message and location.
pub fn catch<R>(f: impl FnOnce() -> R) -> Result<R, PanicInfo> {
    QUIET.with(|q| *q.borrow_mut() = true);
    LAST_PANIC.with(|p| *p.borrow_mut() = None);
    let r = std::panic::catch_unwind(std::panic::AssertUnwindSafe(f));
    QUIET.with(|q| *q.borrow_mut() = false);
    match r {
        Ok(v) => Ok(v),
        Err(_) => {
            let (msg, loc) = LAST_PANIC.with(|p| p.borrow_mut().take()).unwrap_or_default();
            Err(PanicInfo { msg, loc })
        }
    }
}

// ---------------------------------------------------------------- violations and report

#[derive(Clone, Debug)]
pub struct Violation {
    /// deterministic signature: property|class|shape… — identifies *which* failure this is
    pub sig: String,
    /// human-readable description of what fails
    pub what: String,
    /// replayable case
    pub case: Value,
    /// enumeration order key: the smallest is reported
    pub order: u64,
}

pub struct Report {
    pub id: String,
    pub tier: Tier,
    pub seed: u64,
    pub level: &'static str,
    pub start: Instant,
    pub rule: String,
    pub assumptions: Vec<String>,
    inner: Mutex<Inner>,
}

#[derive(Default)]
struct Inner {
    distinct: rustc_hash::FxHashSet<u64>,
    counters: BTreeMap<String, u64>,
    samples: Vec<Value>,
    violations: BTreeMap<String, Violation>,
    notes: BTreeMap<String, Value>,
    exhaustive: bool,
    caps: Vec<String>,
}

impl Report {
    pub fn new(id: &str, tier: Tier, seed: u64, level: &'static str) -> Report {
        Report {
            id: id.to_string(),
            tier,
            seed,
            level,
            start: Instant::now(),
            rule: String::new(),
            assumptions: vec![],
            inner: Mutex::new(Inner { exhaustive: true, ..Default::default() }),
        }
    }
    pub fn add(&self, key: &str, n: u64) {
        *self.inner.lock().unwrap().counters.entry(key.to_string()).or_insert(0) += n;
    }
    pub fn max(&self, key: &str, n: u64) {
        let mut g = self.inner.lock().unwrap();
        let e = g.counters.entry(key.to_string()).or_insert(0);
        if n > *e {
            *e = n;
        }
    }
    pub fn get(&self, key: &str) -> u64 {
        *self.inner.lock().unwrap().counters.get(key).unwrap_or(&0)
    }
    pub fn merge_counts(&self, m: &BTreeMap<String, u64>) {
        let mut g = self.inner.lock().unwrap();
        for (k, v) in m {
            *g.counters.entry(k.clone()).or_insert(0) += v;
        }
    }
    /// count a case as distinct-and-non-trivial (deduplicated by a 64-bit hash of its canonical text)
    pub fn distinct(&self, key: &str) {
        let mut h: u64 = 1469598103934665603;
        for b in key.bytes() {
            h = (h ^ b as u64).wrapping_mul(1099511628211);
        }
        let mut g = self.inner.lock().unwrap();
        if g.distinct.insert(h) {
            *g.counters.entry("distinct_nontrivial".to_string()).or_insert(0) += 1;
        }
    }
    pub fn distinct_hashes(&self, hs: &[u64]) {
        let mut g = self.inner.lock().unwrap();
        let mut n = 0;
        for h in hs {
            if g.distinct.insert(*h) {
                n += 1;
            }
        }
        *g.counters.entry("distinct_nontrivial".to_string()).or_insert(0) += n;
    }
    pub fn sample(&self, v: Value) {
        let mut g = self.inner.lock().unwrap();
        if g.samples.len() < 6 {
            g.samples.push(v);
        }
    }
    pub fn note(&self, key: &str, v: Value) {
        self.inner.lock().unwrap().notes.insert(key.to_string(), v);
    }
    pub fn cap_hit(&self, what: &str) {
        let mut g = self.inner.lock().unwrap();
        g.exhaustive = false;
        if !g.caps.contains(&what.to_string()) {
            g.caps.push(what.to_string());
        }
    }
    pub fn violation(&self, v: Violation) {
        let mut g = self.inner.lock().unwrap();
        match g.violations.get(&v.sig) {
            Some(old) if old.order <= v.order => {}
            _ => {
                g.violations.insert(v.sig.clone(), v);
            }
        }
    }
    pub fn n_violations(&self) -> usize {
        self.inner.lock().unwrap().violations.len()
    }
    pub fn elapsed(&self) -> f64 {
        self.start.elapsed().as_secs_f64()
    }

    /// Write evidence, print KNOWN-FINDING / VIOLATION lines, return the process exit code.
    pub fn finish(&self) -> i32 {
        let g = self.inner.lock().unwrap();
        let known = load_known_findings(&self.id);
        let mut unknown = 0;
        let mut known_hit = 0;
        let mut lines = vec![];
        let mut known_lines: BTreeMap<String, (String, usize, String)> = BTreeMap::new();
        for (sig, v) in g.violations.iter() {
            if let Some(k) = known.iter().find(|k| sig_matches(&k.signature, sig)) {
                known_hit += 1;
                let e = known_lines.entry(k.signature.clone()).or_insert((k.what.clone(), 0, sig.clone()));
                e.1 += 1;
            } else {
                unknown += 1;
                let path = write_replay(&self.id, sig, v);
                lines.push(format!("  what: {}", v.what));
                lines.push(format!("  signature: {sig}"));
                lines.push(format!("VIOLATION property={} replay={}", self.id, path.display()));
            }
        }
        for (pat, (what, n, first)) in known_lines.iter() {
            lines.push(format!("KNOWN-FINDING: property={} {} [listed as {}; {} matching signature(s), e.g. {}]", self.id, what, pat, n, first));
        }
        let evals = *g.counters.get("evaluations").unwrap_or(&0);
        let nontrivial = *g.counters.get("distinct_nontrivial").unwrap_or(&0);
        let mut coverage = json!({
            "evaluations": evals,
            "distinct_nontrivial": nontrivial,
            "rule": self.rule,
            "samples": g.samples,
            "exhaustive": g.exhaustive && g.caps.is_empty(),
            "caps_hit": g.caps,
            "counters": g.counters,
        });
        for k in ["states", "transitions", "traces_validated_against_impl"] {
            if let Some(v) = g.counters.get(k) {
                coverage[k] = json!(v);
            }
        }
        for (k, v) in g.notes.iter() {
            coverage[k] = v.clone();
        }
        let ev = json!({
            "property_id": self.id,
            "tier": self.tier.name(),
            "seed": self.seed,
            "level": self.level,
            "coverage": coverage,
            "assumptions": self.assumptions,
            "wall_s": self.elapsed(),
            "violations": unknown,
            "known_findings_reproduced": known_hit,
        });
        let dir = Path::new(&verif_root()).join("evidence");
        let _ = std::fs::create_dir_all(&dir);
        let path = dir.join(format!("{}.json", self.id));
        if let Err(e) = std::fs::write(&path, serde_json::to_string_pretty(&ev).unwrap()) {
            eprintln!("cannot write evidence {}: {e}", path.display());
            return 2;
        }
        println!(
            "[{}] tier={} evaluations={} distinct_nontrivial={} wall={:.1}s exhaustive={} violations={} known={}",
            self.id,
            self.tier.name(),
            evals,
            nontrivial,
            self.elapsed(),
            g.exhaustive && g.caps.is_empty(),
            unknown,
            known_hit
        );
        for l in lines {
            println!("{l}");
        }
        if unknown > 0 { 1 } else { 0 }
    }
}

fn sanitize(s: &str) -> String {
    let mut o: String = s.chars().map(|c| if c.is_ascii_alphanumeric() || c == '-' || c == '.' { c } else { '_' }).collect();
    if o.len() > 120 {
        // keep it unique enough: prefix + simple hash
        let mut h: u64 = 1469598103934665603;
        for b in s.bytes() {
            h = (h ^ b as u64).wrapping_mul(1099511628211);
        }
        o.truncate(100);
        o += &format!("_{h:016x}");
    }
    o
}

fn write_replay(id: &str, sig: &str, v: &Violation) -> PathBuf {
    let dir = Path::new(&verif_root()).join("replays").join(id);
    let _ = std::fs::create_dir_all(&dir);
    let path = dir.join(format!("{}.json", sanitize(sig)));
    let doc = json!({"property": id, "signature": sig, "what": v.what, "case": v.case});
    let _ = std::fs::write(&path, serde_json::to_string_pretty(&doc).unwrap());
    path
}

/// field-wise match of a known-finding pattern against a signature: fields are separated by `|`;
/// inside a pattern field `*` matches any run of characters.
pub fn sig_matches(pattern: &str, sig: &str) -> bool {
    let p: Vec<&str> = pattern.split('|').collect();
    let s: Vec<&str> = sig.split('|').collect();
    if p.len() != s.len() {
        return false;
    }
    p.iter().zip(s.iter()).all(|(p, s)| glob(p.as_bytes(), s.as_bytes()))
}

/// `*` matches any (possibly empty) run of characters within one field
fn glob(p: &[u8], s: &[u8]) -> bool {
    match p.first() {
        None => s.is_empty(),
        Some(b'*') => (0..=s.len()).any(|i| glob(&p[1..], &s[i..])),
        Some(c) => s.first() == Some(c) && glob(&p[1..], &s[1..]),
    }
}

pub struct Known {
    pub signature: String,
    pub what: String,
}

/// `/verif/known_findings.jsonl`: one JSON object per line,
/// {"property","signature","status":"open"|"fixed","what",…}. Only `open` entries suppress.
pub fn load_known_findings(id: &str) -> Vec<Known> {
    let path = Path::new(&verif_root()).join("known_findings.jsonl");
    let mut out = vec![];
    if let Ok(s) = std::fs::read_to_string(&path) {
        for line in s.lines() {
            let line = line.trim();
            if line.is_empty() || line.starts_with('#') {
                continue;
            }
            match serde_json::from_str::<Value>(line) {
                Ok(v) => {
                    if v["property"] == id && v["status"] == "open" {
                        out.push(Known {
                            signature: v["signature"].as_str().unwrap_or("").to_string(),
                            what: v["what"].as_str().unwrap_or("").to_string(),
                        });
                    }
                }
                Err(e) => {
                    eprintln!("known_findings.jsonl: bad line: {e}");
                    std::process::exit(2);
                }
            }
        }
    }
    out
}

pub fn hash64(key: &str) -> u64 {
    let mut h: u64 = 1469598103934665603;
    for b in key.bytes() {
        h = (h ^ b as u64).wrapping_mul(1099511628211);
    }
    h
}

pub fn read_replay(path: &Path) -> Value {
    let s = std::fs::read_to_string(path).unwrap_or_else(|e| {
        eprintln!("cannot read replay {}: {e}", path.display());
        std::process::exit(2)
    });
    let v: Value = serde_json::from_str(&s).unwrap_or_else(|e| {
        eprintln!("bad replay file: {e}");
        std::process::exit(2)
    });
    v
}

// ---------------------------------------------------------------- CLI

pub type Driver = fn(&Opts, &Report);
pub type Replayer = fn(&Value, &Report);

pub struct Entry {
    pub id: &'static str,
    pub level: &'static str,
    pub meta: fn(&mut Report),
    pub run: Driver,
    pub replay: Replayer,
}

pub fn parse_opts() -> Opts {
    let args: Vec<String> = std::env::args().collect();
    if args.len() < 3 {
        eprintln!("usage: {} <ID> quick|thorough|--replay <path>", args[0]);
        std::process::exit(2);
    }
    let id = args[1].clone();
    let mode = match args[2].as_str() {
        "quick" => Mode::Run(Tier::Quick),
        "thorough" => Mode::Run(Tier::Thorough),
        "--replay" => Mode::Replay(PathBuf::from(args.get(3).cloned().unwrap_or_default())),
        o => {
            eprintln!("unknown mode {o}");
            std::process::exit(2)
        }
    };
    let seed = std::env::var("VERIF_SEED").ok().and_then(|s| s.parse::<u64>().ok()).unwrap_or(0);
    let default_budget = match mode {
        Mode::Run(Tier::Thorough) => 900.0,
        _ => 40.0,
    };
    let budget_s = std::env::var("VERIF_BUDGET_S").ok().and_then(|s| s.parse::<f64>().ok()).unwrap_or(default_budget);
    Opts { id, mode, seed, budget_s }
}

pub fn main_with(entries: &[Entry]) -> ! {
    install_panic_hook();
    let opts = parse_opts();
    let Some(entry) = entries.iter().find(|e| e.id == opts.id) else {
        eprintln!("this binary does not serve property {}", opts.id);
        std::process::exit(2)
    };
    // machinery self-check: reference arithmetic vs naive bit-level implementation
    let n = crate::bv::self_check(3);
    assert!(n > 0);
    let code = match &opts.mode {
        Mode::Run(tier) => {
            // stale replay files of earlier runs of this property are removed
            let dir = Path::new(&verif_root()).join("replays").join(entry.id);
            if let Ok(rd) = std::fs::read_dir(&dir) {
                for f in rd.flatten() {
                    let _ = std::fs::remove_file(f.path());
                }
            }
            let mut rep = Report::new(entry.id, *tier, opts.seed, entry.level);
            (entry.meta)(&mut rep);
            let r = std::panic::catch_unwind(std::panic::AssertUnwindSafe(|| (entry.run)(&opts, &rep)));
            match r {
                Ok(()) => rep.finish(),
                Err(_) => {
                    eprintln!("MACHINERY FAILURE: driver for {} panicked", entry.id);
                    2
                }
            }
        }
        Mode::Replay(path) => {
            let doc = read_replay(path);
            let rep = Report::new(entry.id, Tier::Quick, opts.seed, entry.level);
            let r = std::panic::catch_unwind(std::panic::AssertUnwindSafe(|| (entry.replay)(&doc["case"], &rep)));
            match r {
                Ok(()) => {
                    // replays never rewrite evidence; print verdict only
                    let n = rep.n_violations();
                    if n > 0 {
                        let g = rep.inner.lock().unwrap();
                        for (sig, v) in g.violations.iter() {
                            println!("  what: {}", v.what);
                            println!("  signature: {sig}");
                        }
                        println!("VIOLATION property={} replay={}", entry.id, path.display());
                        1
                    } else {
                        println!("[{}] replay: property holds on this case", entry.id);
                        0
                    }
                }
                Err(_) => 2,
            }
        }
    };
    std::process::exit(code)
}

/// width class used in signatures
pub fn wclass(w: u32) -> &'static str {
    match w {
        1 => "w1",
        2..=32 => "w2-32",
        33..=64 => "w33-64",
        65..=128 => "w65-128",
        _ => "w129+",
    }
}

/// deterministic budget helper
pub struct Budget {
    start: Instant,
    limit: f64,
}

impl Budget {
    pub fn new(limit: f64) -> Budget {
        Budget { start: Instant::now(), limit }
    }
    pub fn exceeded(&self) -> bool {
        self.start.elapsed().as_secs_f64() > self.limit
    }
}
