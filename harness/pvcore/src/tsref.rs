//! Reference transition-system semantics and explicit-state reachability oracle.
//!
//! initial states = all values of init-less states x init expressions evaluated in state order
//! (an init may read earlier states); a step (s,i) is allowed iff every constraint is 1 on (s,i);
//! successor = all next functions evaluated simultaneously on (s,i), a next-less state takes
//! every value; bad_j(s,i) is observed on allowed steps only.

use crate::bv::Val;
use crate::evalref::{Env, eval_ref};
use crate::terms::{Ty, product, value_alphabet};
use patronus::expr::{Context, ExprRef, TypeCheck};
use patronus::system::TransitionSystem;
use rustc_hash::{FxHashMap, FxHashSet};

pub type StateVec = Vec<Val>;
pub type InputVec = Vec<Val>;

pub struct Ts<'a> {
    pub ctx: &'a Context,
    pub sys: &'a TransitionSystem,
    pub state_tys: Vec<Ty>,
    pub input_tys: Vec<Ty>,
}

#[derive(Clone, Debug, Default)]
pub struct Reach {
    /// shortest k such that some bad state holds at step k on an allowed step
    pub shortest: Option<u64>,
    /// for each depth explored: union of bad indices that can hold at that depth
    pub bad_at_depth: Vec<Vec<usize>>,
    pub states: u64,
    pub transitions: u64,
    /// depth up to which the search ran (inclusive)
    pub depth: u64,
    /// true if the search stopped because no new states appeared
    pub fixpoint: bool,
}

pub fn key(v: &[Val]) -> String {
    v.iter().map(|x| x.key()).collect::<Vec<_>>().join(";")
}

impl<'a> Ts<'a> {
    pub fn new(ctx: &'a Context, sys: &'a TransitionSystem) -> Ts<'a> {
        let state_tys = sys.states.iter().map(|s| Ty::from_patronus(s.symbol.get_type(ctx))).collect();
        let input_tys = sys.inputs.iter().map(|s| Ty::from_patronus(s.get_type(ctx))).collect();
        Ts { ctx, sys, state_tys, input_tys }
    }

    pub fn env(&self, st: &[Val], inp: &[Val]) -> Env {
        let mut env = Env::default();
        for (s, v) in self.sys.states.iter().zip(st.iter()) {
            env.insert(s.symbol, v.clone());
        }
        for (i, v) in self.sys.inputs.iter().zip(inp.iter()) {
            env.insert(*i, v.clone());
        }
        env
    }

    pub fn eval(&self, e: ExprRef, st: &[Val], inp: &[Val]) -> Val {
        eval_ref(self.ctx, e, &self.env(st, inp))
    }

    pub fn all_values(ty: Ty) -> Vec<Val> {
        match ty {
            Ty::Bv(w) => value_alphabet(Ty::Bv(w), true, false),
            Ty::Arr(iw, dw) => {
                // canonical tables only (one representation per content)
                let n = 1usize << iw;
                let dv = crate::terms::all_values(dw);
                let alph: Vec<Vec<crate::bv::Bv>> = (0..n).map(|_| dv.clone()).collect();
                product(&alph).into_iter().map(|t| Val::A(crate::bv::Arr::from_table(iw, dw, &t))).collect()
            }
        }
    }

    pub fn input_space(&self) -> Vec<InputVec> {
        let alph: Vec<Vec<Val>> = self.input_tys.iter().map(|t| Self::all_values(*t)).collect();
        product(&alph)
    }

    /// true when some init expression reads an input: then s0 = init(i0) is coupled with the input of step 0
    pub fn init_reads_inputs(&self) -> bool {
        fn reads(ctx: &Context, e: ExprRef, inputs: &[ExprRef], seen: &mut FxHashSet<ExprRef>) -> bool {
            if !seen.insert(e) {
                return false;
            }
            if inputs.contains(&e) {
                return true;
            }
            let mut kids = vec![];
            patronus::expr::ForEachChild::for_each_child(&ctx[e], |c| kids.push(*c));
            kids.into_iter().any(|c| reads(ctx, c, inputs, seen))
        }
        let mut seen = FxHashSet::default();
        self.sys.states.iter().filter_map(|s| s.init).any(|i| reads(self.ctx, i, &self.sys.inputs, &mut seen))
    }

    /// initial states under one binding of the inputs (None: inputs unbound — a reference panics)
    fn initial_states_under(&self, inp: Option<&[Val]>) -> Vec<StateVec> {
        let mut partial: Vec<StateVec> = vec![vec![]];
        for (k, st) in self.sys.states.iter().enumerate() {
            let mut next = vec![];
            for p in partial.iter() {
                match st.init {
                    Some(init) => {
                        // earlier states are bound (and the inputs of step 0 when given); later states are
                        // not (a reference to them is outside the well-formedness domain and panics)
                        let mut env = Env::default();
                        for (s2, v) in self.sys.states.iter().zip(p.iter()) {
                            env.insert(s2.symbol, v.clone());
                        }
                        if let Some(inp) = inp {
                            for (i, v) in self.sys.inputs.iter().zip(inp.iter()) {
                                env.insert(*i, v.clone());
                            }
                        }
                        let v = eval_ref(self.ctx, init, &env);
                        let mut q = p.clone();
                        q.push(v);
                        next.push(q);
                    }
                    None => {
                        for v in Self::all_values(self.state_tys[k]) {
                            let mut q = p.clone();
                            q.push(v);
                            next.push(q);
                        }
                    }
                }
            }
            partial = next;
        }
        partial
    }

    /// all initial states (over every input of step 0 when an init expression reads an input)
    pub fn initial_states(&self) -> Vec<StateVec> {
        self.initial_configs().into_iter().map(|(s, _)| s).collect()
    }

    /// initial states, each with the inputs of step 0 it is coupled with (None: any input)
    pub fn initial_configs(&self) -> Vec<(StateVec, Option<Vec<InputVec>>)> {
        if !self.init_reads_inputs() {
            return self.initial_states_under(None).into_iter().map(|s| (s, None)).collect();
        }
        let mut order: Vec<String> = vec![];
        let mut map: FxHashMap<String, (StateVec, Vec<InputVec>)> = FxHashMap::default();
        for i in self.input_space() {
            for s in self.initial_states_under(Some(&i)) {
                let k = key(&s);
                let e = map.entry(k.clone()).or_insert_with(|| {
                    order.push(k.clone());
                    (s.clone(), vec![])
                });
                e.1.push(i.clone());
            }
        }
        order.into_iter().map(|k| map.remove(&k).map(|(s, ins)| (s, Some(ins))).unwrap()).collect()
    }

    pub fn allowed(&self, st: &[Val], inp: &[Val]) -> bool {
        let env = self.env(st, inp);
        self.sys.constraints.iter().all(|c| eval_ref(self.ctx, *c, &env).bv().to_bool())
    }

    pub fn bads(&self, st: &[Val], inp: &[Val]) -> Vec<bool> {
        let env = self.env(st, inp);
        self.sys.bad_states.iter().map(|c| !eval_ref(self.ctx, *c, &env).bv().is_zero()).collect()
    }

    /// all successors of (st, inp): next-less states take every value
    pub fn successors(&self, st: &[Val], inp: &[Val]) -> Vec<StateVec> {
        let env = self.env(st, inp);
        let alph: Vec<Vec<Val>> = self
            .sys
            .states
            .iter()
            .enumerate()
            .map(|(k, s)| match s.next {
                Some(n) => vec![eval_ref(self.ctx, n, &env)],
                None => Self::all_values(self.state_tys[k]),
            })
            .collect();
        product(&alph)
    }

    /// the deterministic part of a step: next value for states with a next function, None otherwise
    pub fn step_det(&self, st: &[Val], inp: &[Val]) -> Vec<Option<Val>> {
        let env = self.env(st, inp);
        self.sys.states.iter().map(|s| s.next.map(|n| eval_ref(self.ctx, n, &env))).collect()
    }

    /// breadth-first reachability. `k = Some(n)`: observe steps 0..=n. `None`: to a fixpoint.
    pub fn reach(&self, k: Option<u64>, stop_at_first_bad: bool) -> Reach {
        let mut r = Reach::default();
        let inputs = self.input_space();
        let mut seen: FxHashSet<String> = FxHashSet::default();
        let mut frontier: Vec<StateVec> = vec![];
        // inputs an initial state is coupled with at step 0 (only when an init expression reads an input);
        // such a state counts as explored only if it is coupled with every input
        let mut first: FxHashMap<String, Vec<InputVec>> = FxHashMap::default();
        let mut frontier_keys: FxHashSet<String> = FxHashSet::default();
        for (s, ins) in self.initial_configs() {
            let k = key(&s);
            if !frontier_keys.insert(k.clone()) {
                continue;
            }
            match ins {
                Some(ins) if ins.len() < inputs.len() => {
                    first.insert(k, ins);
                }
                _ => {
                    seen.insert(k);
                }
            }
            frontier.push(s);
        }
        r.states = frontier.len() as u64;
        let mut depth = 0u64;
        loop {
            let mut bad_here: Vec<usize> = vec![];
            let mut next_frontier: Vec<StateVec> = vec![];
            // with a bound, a state may be revisited at a different depth: the frontier at depth d
            // is the exact set of states reachable in d steps only when we do not deduplicate
            // across depths. For "shortest counterexample" global deduplication is sound (BFS).
            let mut next_keys: FxHashMap<String, ()> = FxHashMap::default();
            for s in frontier.iter() {
                let restricted = if depth == 0 { first.get(&key(s)) } else { None };
                for i in restricted.unwrap_or(&inputs).iter() {
                    if !self.allowed(s, i) {
                        continue;
                    }
                    r.transitions += 1;
                    for (j, b) in self.bads(s, i).iter().enumerate() {
                        if *b && !bad_here.contains(&j) {
                            bad_here.push(j);
                        }
                    }
                    for n in self.successors(s, i) {
                        let kk = key(&n);
                        if !seen.contains(&kk) && next_keys.insert(kk, ()).is_none() {
                            next_frontier.push(n);
                        }
                    }
                }
            }
            bad_here.sort();
            if !bad_here.is_empty() && r.shortest.is_none() {
                r.shortest = Some(depth);
            }
            r.bad_at_depth.push(bad_here);
            r.depth = depth;
            if stop_at_first_bad && r.shortest.is_some() {
                break;
            }
            if let Some(k) = k
                && depth >= k
            {
                break;
            }
            for n in next_frontier.iter() {
                seen.insert(key(n));
            }
            r.states = (seen.len() + first.len()) as u64;
            if next_frontier.is_empty() {
                r.fixpoint = true;
                break;
            }
            frontier = next_frontier;
            depth += 1;
        }
        r
    }

    /// largest d <= k such that an execution with allowed steps 0..=d exists (None: not even step 0)
    pub fn constraints_satisfiable_to(&self, k: u64) -> Option<u64> {
        let inputs = self.input_space();
        let (layers, first) = self.layers_coupled(k);
        let mut out = None;
        for (d, layer) in layers.iter().enumerate() {
            let ok = layer.iter().any(|s| {
                let restricted = if d == 0 { first.get(&key(s)) } else { None };
                restricted.unwrap_or(&inputs).iter().any(|i| self.allowed(s, i))
            });
            if ok {
                out = Some(d as u64);
            } else {
                break;
            }
        }
        out
    }

    /// Exact per-depth analysis without cross-depth deduplication: set of states reachable in
    /// exactly d allowed steps, for d = 0..=k. Used where the *set of bad indices at depth d*
    /// matters (witness checks), not only the shortest depth.
    pub fn layers(&self, k: u64) -> Vec<Vec<StateVec>> {
        self.layers_coupled(k).0
    }

    /// layers plus, for initial states coupled with only some inputs of step 0, those inputs
    pub fn layers_coupled(&self, k: u64) -> (Vec<Vec<StateVec>>, FxHashMap<String, Vec<InputVec>>) {
        let inputs = self.input_space();
        let mut layers = vec![];
        let mut cur: Vec<StateVec> = vec![];
        let mut seen = FxHashSet::default();
        let mut first: FxHashMap<String, Vec<InputVec>> = FxHashMap::default();
        for (s, ins) in self.initial_configs() {
            let kk = key(&s);
            if seen.insert(kk.clone()) {
                if let Some(ins) = ins
                    && ins.len() < inputs.len()
                {
                    first.insert(kk, ins);
                }
                cur.push(s);
            }
        }
        for d in 0..=k {
            layers.push(cur.clone());
            let mut nk = FxHashSet::default();
            let mut next = vec![];
            for s in cur.iter() {
                let restricted = if d == 0 { first.get(&key(s)) } else { None };
                for i in restricted.unwrap_or(&inputs).iter() {
                    if !self.allowed(s, i) {
                        continue;
                    }
                    for n in self.successors(s, i) {
                        if nk.insert(key(&n)) {
                            next.push(n);
                        }
                    }
                }
            }
            cur = next;
        }
        (layers, first)
    }
}
