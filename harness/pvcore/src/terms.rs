//! Context-independent term specifications, s-expression (de)serialisation, construction into a
//! patronus `Context`, and the deterministic simplest-first term enumerators T1/T2/T3.

use crate::bv::{Arr, Bv, Val, mask, pow2};
use num_bigint::BigUint;
use num_traits::{One, Zero};
use patronus::expr::{Context, ExprRef};
use std::fmt;

#[derive(Clone, Copy, Debug, PartialEq, Eq, Hash, PartialOrd, Ord)]
pub enum Ty {
    Bv(u32),
    Arr(u32, u32),
}

impl Ty {
    pub fn bits(&self) -> u64 {
        match *self {
            Ty::Bv(w) => w as u64,
            Ty::Arr(iw, dw) => {
                if iw >= 20 {
                    u64::MAX
                } else {
                // table bits plus the choice of the default value (representation diversity)
                ((dw as u64) << iw) + dw as u64
                }
            }
        }
    }
    pub fn to_patronus(&self) -> patronus::expr::Type {
        match *self {
            Ty::Bv(w) => patronus::expr::Type::BV(w),
            Ty::Arr(i, d) => patronus::expr::Type::Array(patronus::expr::ArrayType { index_width: i, data_width: d }),
        }
    }
    pub fn from_patronus(t: patronus::expr::Type) -> Ty {
        match t {
            patronus::expr::Type::BV(w) => Ty::Bv(w),
            patronus::expr::Type::Array(a) => Ty::Arr(a.index_width, a.data_width),
        }
    }
}

#[derive(Clone, Copy, Debug, PartialEq, Eq, Hash, PartialOrd, Ord)]
pub enum Bin {
    // same-width arithmetic / bitwise
    And, Or, Xor, Shl, Ashr, Lshr, Add, Mul, Sdiv, Udiv, Smod, Srem, Urem, Sub,
    // predicates
    Eq, Implies, Ugt, Sgt, Uge, Sge,
    // structure
    Concat,
}

pub const ARITH: [Bin; 14] = [
    Bin::And, Bin::Or, Bin::Xor, Bin::Shl, Bin::Ashr, Bin::Lshr, Bin::Add, Bin::Mul, Bin::Sdiv, Bin::Udiv,
    Bin::Smod, Bin::Srem, Bin::Urem, Bin::Sub,
];
pub const DIVREM: [Bin; 5] = [Bin::Sdiv, Bin::Udiv, Bin::Smod, Bin::Srem, Bin::Urem];
pub const CMP: [Bin; 5] = [Bin::Eq, Bin::Ugt, Bin::Sgt, Bin::Uge, Bin::Sge];

impl Bin {
    pub fn name(&self) -> &'static str {
        match self {
            Bin::And => "and", Bin::Or => "or", Bin::Xor => "xor", Bin::Shl => "shl", Bin::Ashr => "ashr",
            Bin::Lshr => "lshr", Bin::Add => "add", Bin::Mul => "mul", Bin::Sdiv => "sdiv", Bin::Udiv => "udiv",
            Bin::Smod => "smod", Bin::Srem => "srem", Bin::Urem => "urem", Bin::Sub => "sub", Bin::Eq => "eq",
            Bin::Implies => "implies", Bin::Ugt => "ugt", Bin::Sgt => "sgt", Bin::Uge => "uge", Bin::Sge => "sge",
            Bin::Concat => "concat",
        }
    }
    pub fn from_name(s: &str) -> Option<Bin> {
        let all = [
            Bin::And, Bin::Or, Bin::Xor, Bin::Shl, Bin::Ashr, Bin::Lshr, Bin::Add, Bin::Mul, Bin::Sdiv, Bin::Udiv,
            Bin::Smod, Bin::Srem, Bin::Urem, Bin::Sub, Bin::Eq, Bin::Implies, Bin::Ugt, Bin::Sgt, Bin::Uge,
            Bin::Sge, Bin::Concat,
        ];
        all.into_iter().find(|b| b.name() == s)
    }
    pub fn is_divrem(&self) -> bool {
        DIVREM.contains(self)
    }
}

#[derive(Clone, Debug, PartialEq, Eq, Hash)]
pub enum T {
    Sym(String, Ty),
    Lit(Bv),
    Not(Box<T>),
    Neg(Box<T>),
    ZExt(u32, Box<T>),
    SExt(u32, Box<T>),
    Slice(u32, u32, Box<T>),
    Bin(Bin, Box<T>, Box<T>),
    Ite(Box<T>, Box<T>, Box<T>),
    Read(Box<T>, Box<T>),
    AConst(u32, Box<T>),
    Store(Box<T>, Box<T>, Box<T>),
}

impl T {
    pub fn sym(name: &str, ty: Ty) -> T {
        T::Sym(name.to_string(), ty)
    }
    pub fn lit(w: u32, v: u64) -> T {
        T::Lit(Bv::from_u64(w, v))
    }
    pub fn bin(op: Bin, a: T, b: T) -> T {
        T::Bin(op, Box::new(a), Box::new(b))
    }
    pub fn ite(c: T, a: T, b: T) -> T {
        T::Ite(Box::new(c), Box::new(a), Box::new(b))
    }
    pub fn not(a: T) -> T {
        T::Not(Box::new(a))
    }
    pub fn is_leaf(&self) -> bool {
        matches!(self, T::Sym(..) | T::Lit(..))
    }
    pub fn ty(&self) -> Ty {
        match self {
            T::Sym(_, t) => *t,
            T::Lit(b) => Ty::Bv(b.w),
            T::Not(a) | T::Neg(a) => a.ty(),
            T::ZExt(by, a) | T::SExt(by, a) => match a.ty() {
                Ty::Bv(w) => Ty::Bv(w + by),
                _ => panic!("ext of array"),
            },
            T::Slice(hi, lo, _) => Ty::Bv(hi - lo + 1),
            T::Bin(op, a, b) => match op {
                Bin::Eq | Bin::Implies | Bin::Ugt | Bin::Sgt | Bin::Uge | Bin::Sge => Ty::Bv(1),
                Bin::Concat => match (a.ty(), b.ty()) {
                    (Ty::Bv(x), Ty::Bv(y)) => Ty::Bv(x + y),
                    _ => panic!("concat of array"),
                },
                _ => a.ty(),
            },
            T::Ite(_, a, _) => a.ty(),
            T::Read(a, _) => match a.ty() {
                Ty::Arr(_, d) => Ty::Bv(d),
                _ => panic!("read of bv"),
            },
            T::AConst(iw, a) => match a.ty() {
                Ty::Bv(d) => Ty::Arr(*iw, d),
                _ => panic!("aconst of array"),
            },
            T::Store(a, _, _) => a.ty(),
        }
    }
    pub fn size(&self) -> usize {
        match self {
            T::Sym(..) | T::Lit(..) => 0,
            T::Not(a) | T::Neg(a) | T::ZExt(_, a) | T::SExt(_, a) | T::Slice(_, _, a) | T::AConst(_, a) => 1 + a.size(),
            T::Bin(_, a, b) | T::Read(a, b) => 1 + a.size() + b.size(),
            T::Ite(a, b, c) | T::Store(a, b, c) => 1 + a.size() + b.size() + c.size(),
        }
    }
    pub fn op_name(&self) -> &'static str {
        match self {
            T::Sym(..) => "sym", T::Lit(..) => "lit", T::Not(..) => "not", T::Neg(..) => "neg",
            T::ZExt(..) => "zext", T::SExt(..) => "sext", T::Slice(..) => "slice", T::Bin(op, ..) => op.name(),
            T::Ite(..) => "ite", T::Read(..) => "read", T::AConst(..) => "aconst", T::Store(..) => "store",
        }
    }
    pub fn kids(&self) -> Vec<&T> {
        match self {
            T::Sym(..) | T::Lit(..) => vec![],
            T::Not(a) | T::Neg(a) | T::ZExt(_, a) | T::SExt(_, a) | T::Slice(_, _, a) | T::AConst(_, a) => vec![a],
            T::Bin(_, a, b) | T::Read(a, b) => vec![a, b],
            T::Ite(a, b, c) | T::Store(a, b, c) => vec![a, b, c],
        }
    }
    /// symbols in first-occurrence order
    pub fn symbols(&self) -> Vec<(String, Ty)> {
        let mut out = vec![];
        fn rec(t: &T, out: &mut Vec<(String, Ty)>) {
            if let T::Sym(n, ty) = t {
                if !out.iter().any(|(m, _)| m == n) {
                    out.push((n.clone(), *ty));
                }
            }
            for k in t.kids() {
                rec(k, out);
            }
        }
        rec(self, &mut out);
        out
    }
    pub fn contains_divrem(&self) -> bool {
        if let T::Bin(op, ..) = self
            && op.is_divrem()
        {
            return true;
        }
        self.kids().iter().any(|k| k.contains_divrem())
    }
    pub fn contains_array(&self) -> bool {
        matches!(self.ty(), Ty::Arr(..)) || self.kids().iter().any(|k| k.contains_array())
    }

    /// Build through the public `Context` constructors (which normalise full-width slices and
    /// zero-amount extensions away).
    pub fn build(&self, ctx: &mut Context) -> ExprRef {
        match self {
            T::Sym(n, Ty::Bv(w)) => ctx.bv_symbol(n, *w),
            T::Sym(n, Ty::Arr(i, d)) => ctx.array_symbol(n, *i, *d),
            T::Lit(b) => {
                let v = crate::evalref::bv_to_baa(b);
                ctx.bv_lit(&v)
            }
            T::Not(a) => {
                let a = a.build(ctx);
                ctx.not(a)
            }
            T::Neg(a) => {
                let a = a.build(ctx);
                ctx.negate(a)
            }
            T::ZExt(by, a) => {
                let a = a.build(ctx);
                ctx.zero_extend(a, *by)
            }
            T::SExt(by, a) => {
                let a = a.build(ctx);
                ctx.sign_extend(a, *by)
            }
            T::Slice(hi, lo, a) => {
                let a = a.build(ctx);
                ctx.slice(a, *hi, *lo)
            }
            T::Bin(op, a, b) => {
                let a = a.build(ctx);
                let b = b.build(ctx);
                match op {
                    Bin::And => ctx.and(a, b),
                    Bin::Or => ctx.or(a, b),
                    Bin::Xor => ctx.xor(a, b),
                    Bin::Shl => ctx.shift_left(a, b),
                    Bin::Ashr => ctx.arithmetic_shift_right(a, b),
                    Bin::Lshr => ctx.shift_right(a, b),
                    Bin::Add => ctx.add(a, b),
                    Bin::Mul => ctx.mul(a, b),
                    Bin::Sdiv => ctx.signed_div(a, b),
                    Bin::Udiv => ctx.div(a, b),
                    Bin::Smod => ctx.signed_mod(a, b),
                    Bin::Srem => ctx.signed_remainder(a, b),
                    Bin::Urem => ctx.remainder(a, b),
                    Bin::Sub => ctx.sub(a, b),
                    Bin::Eq => ctx.equal(a, b),
                    Bin::Implies => ctx.implies(a, b),
                    Bin::Ugt => ctx.greater(a, b),
                    Bin::Sgt => ctx.greater_signed(a, b),
                    Bin::Uge => ctx.greater_or_equal(a, b),
                    Bin::Sge => ctx.greater_or_equal_signed(a, b),
                    Bin::Concat => ctx.concat(a, b),
                }
            }
            T::Ite(c, a, b) => {
                let c = c.build(ctx);
                let a = a.build(ctx);
                let b = b.build(ctx);
                ctx.ite(c, a, b)
            }
            T::Read(a, i) => {
                let a = a.build(ctx);
                let i = i.build(ctx);
                ctx.array_read(a, i)
            }
            T::AConst(iw, a) => {
                let a = a.build(ctx);
                ctx.array_const(a, *iw)
            }
            T::Store(a, i, d) => {
                let a = a.build(ctx);
                let i = i.build(ctx);
                let d = d.build(ctx);
                ctx.array_store(a, i, d)
            }
        }
    }
}

impl fmt::Display for T {
    fn fmt(&self, f: &mut fmt::Formatter<'_>) -> fmt::Result {
        match self {
            T::Sym(n, Ty::Bv(w)) => write!(f, "(sym {n} bv {w})"),
            T::Sym(n, Ty::Arr(i, d)) => write!(f, "(sym {n} arr {i} {d})"),
            T::Lit(b) => write!(f, "(lit {} {})", b.w, b.v),
            T::Not(a) => write!(f, "(not {a})"),
            T::Neg(a) => write!(f, "(neg {a})"),
            T::ZExt(by, a) => write!(f, "(zext {by} {a})"),
            T::SExt(by, a) => write!(f, "(sext {by} {a})"),
            T::Slice(hi, lo, a) => write!(f, "(slice {hi} {lo} {a})"),
            T::Bin(op, a, b) => write!(f, "({} {a} {b})", op.name()),
            T::Ite(c, a, b) => write!(f, "(ite {c} {a} {b})"),
            T::Read(a, i) => write!(f, "(read {a} {i})"),
            T::AConst(iw, a) => write!(f, "(aconst {iw} {a})"),
            T::Store(a, i, d) => write!(f, "(store {a} {i} {d})"),
        }
    }
}

// ------------------------------------------------------------------ s-expressions

#[derive(Clone, Debug, PartialEq, Eq)]
pub enum Sx {
    Atom(String),
    List(Vec<Sx>),
}

impl Sx {
    pub fn atom(&self) -> Result<&str, String> {
        match self {
            Sx::Atom(s) => Ok(s),
            _ => Err("expected atom".into()),
        }
    }
    pub fn list(&self) -> Result<&[Sx], String> {
        match self {
            Sx::List(l) => Ok(l),
            _ => Err("expected list".into()),
        }
    }
}

/// minimal s-expression reader (atoms are runs of non-space, non-paren characters; `|..|` quoted
/// atoms and `"…"` strings are kept with their delimiters)
pub fn parse_sx(s: &str) -> Result<Vec<Sx>, String> {
    let cs: Vec<char> = s.chars().collect();
    let mut i = 0;
    let mut stack: Vec<Vec<Sx>> = vec![vec![]];
    while i < cs.len() {
        let c = cs[i];
        if c.is_whitespace() {
            i += 1;
        } else if c == ';' {
            while i < cs.len() && cs[i] != '\n' {
                i += 1;
            }
        } else if c == '(' {
            stack.push(vec![]);
            i += 1;
        } else if c == ')' {
            let l = stack.pop().ok_or("unbalanced )")?;
            stack.last_mut().ok_or("unbalanced )")?.push(Sx::List(l));
            i += 1;
        } else if c == '|' || c == '"' {
            let mut j = i + 1;
            while j < cs.len() && cs[j] != c {
                j += 1;
            }
            if j >= cs.len() {
                return Err("unterminated quoted atom".into());
            }
            stack.last_mut().unwrap().push(Sx::Atom(cs[i..=j].iter().collect()));
            i = j + 1;
        } else {
            let mut j = i;
            while j < cs.len() && !cs[j].is_whitespace() && cs[j] != '(' && cs[j] != ')' {
                j += 1;
            }
            stack.last_mut().unwrap().push(Sx::Atom(cs[i..j].iter().collect()));
            i = j;
        }
    }
    if stack.len() != 1 {
        return Err("unbalanced (".into());
    }
    Ok(stack.pop().unwrap())
}

pub fn parse_t(s: &str) -> Result<T, String> {
    let sx = parse_sx(s)?;
    if sx.len() != 1 {
        return Err("expected exactly one term".into());
    }
    sx_to_t(&sx[0])
}

fn num(s: &Sx) -> Result<u32, String> {
    s.atom()?.parse::<u32>().map_err(|e| e.to_string())
}

pub fn sx_to_t(s: &Sx) -> Result<T, String> {
    let l = s.list()?;
    let head = l.first().ok_or("empty list")?.atom()?;
    let arg = |i: usize| -> Result<T, String> { sx_to_t(l.get(i).ok_or("missing argument")?) };
    let b = |t: T| Box::new(t);
    Ok(match head {
        "sym" => {
            let n = l[1].atom()?.to_string();
            match l[2].atom()? {
                "bv" => T::Sym(n, Ty::Bv(num(&l[3])?)),
                "arr" => T::Sym(n, Ty::Arr(num(&l[3])?, num(&l[4])?)),
                o => return Err(format!("bad symbol kind {o}")),
            }
        }
        "lit" => {
            let w = num(&l[1])?;
            let v = BigUint::parse_bytes(l[2].atom()?.as_bytes(), 10).ok_or("bad literal")?;
            T::Lit(Bv::new(w, v))
        }
        "not" => T::Not(b(arg(1)?)),
        "neg" => T::Neg(b(arg(1)?)),
        "zext" => T::ZExt(num(&l[1])?, b(arg(2)?)),
        "sext" => T::SExt(num(&l[1])?, b(arg(2)?)),
        "slice" => T::Slice(num(&l[1])?, num(&l[2])?, b(arg(3)?)),
        "ite" => T::Ite(b(arg(1)?), b(arg(2)?), b(arg(3)?)),
        "read" => T::Read(b(arg(1)?), b(arg(2)?)),
        "aconst" => T::AConst(num(&l[1])?, b(arg(2)?)),
        "store" => T::Store(b(arg(1)?), b(arg(2)?), b(arg(3)?)),
        other => match Bin::from_name(other) {
            Some(op) => T::Bin(op, b(arg(1)?), b(arg(2)?)),
            None => return Err(format!("unknown operator {other}")),
        },
    })
}

// ------------------------------------------------------------------ literal and value alphabets

fn dedup_bvs(mut v: Vec<Bv>) -> Vec<Bv> {
    let mut out: Vec<Bv> = vec![];
    for b in v.drain(..) {
        if !out.contains(&b) {
            out.push(b);
        }
    }
    out
}

fn fits(w: u32, v: &BigUint) -> bool {
    v.bits() <= w as u64
}

/// Literal alphabet `Lit(w)` of the design (ordered simplest first).
pub fn lit_alphabet(w: u32) -> Vec<Bv> {
    let mut v: Vec<BigUint> = vec![BigUint::zero(), BigUint::one(), mask(w), pow2(w - 1)];
    if w >= 2 {
        v.push(mask(w - 1)); // max signed
        v.push(BigUint::from(2u32)); // one-hot bit 1
    }
    if w >= 4 {
        // mask with two runs of ones: 0b1..10..01 pattern: top quarter and bottom bit-pair
        let q = w / 4;
        v.push((mask(q.max(1)) << ((w - q.max(1)) as usize)) | BigUint::from(3u32));
    }
    for s in [w.wrapping_sub(1), w, w + 1] {
        v.push(BigUint::from(s));
    }
    v.push(pow2(32));
    v.push(pow2(32) + BigUint::one());
    v.push(pow2(64));
    dedup_bvs(v.into_iter().filter(|x| fits(w, x)).map(|x| Bv::new(w, x)).collect())
}

/// Reduced literal alphabet (for inner positions of deeper terms).
pub fn lit_reduced(w: u32) -> Vec<Bv> {
    let mut v = vec![Bv::zero(w), Bv::ones(w)];
    if w >= 2 {
        v.push(Bv::one(w));
    }
    if w >= 3 {
        v.push(Bv::new(w, BigUint::from(w))); // shift amount == width when representable
    }
    if w > 32 {
        v.push(Bv::new(w, pow2(32)));
    }
    dedup_bvs(v.into_iter().filter(|b| b.is_canonical()).collect())
}

/// Boundary value alphabet `Bnd(w)` for symbol assignments at widths too large to exhaust.
pub fn bnd_values(w: u32) -> Vec<Bv> {
    let mut v: Vec<BigUint> = vec![
        BigUint::zero(),
        BigUint::one(),
        BigUint::from(2u32),
        mask(w),
        pow2(w - 1),
    ];
    if w >= 2 {
        v.push(mask(w - 1));
        v.push(mask(w / 2)); // low-half ones
        v.push(mask(w) ^ mask(w / 2)); // high-half ones
    }
    // 0101...
    let mut alt = BigUint::zero();
    let mut i = 0;
    while i < w {
        alt.set_bit(i as u64, true);
        i += 2;
    }
    v.push(alt.clone());
    v.push(mask(w) ^ alt);
    for s in [w - 1, w, w + 1, 31, 32, 33, 63, 64, 65, 127, 128, 129, 192, 256] {
        v.push(BigUint::from(s));
    }
    v.push(pow2(32));
    v.push(pow2(32) + BigUint::one());
    v.push(pow2(64));
    v.push(pow2(64) + BigUint::one());
    // word-boundary one-hots
    for bit in [31u32, 32, 63, 64, 127, 128] {
        if bit < w {
            v.push(pow2(bit));
        }
    }
    dedup_bvs(v.into_iter().filter(|x| fits(w, x)).map(|x| Bv::new(w, x)).collect())
}

/// Core subset of `Bnd` used when the full product would exceed the assignment cap.
pub fn bnd_core(w: u32) -> Vec<Bv> {
    let mut v = vec![Bv::zero(w), Bv::one(w), Bv::ones(w), Bv::new(w, pow2(w - 1))];
    if w > 2 {
        v.push(Bv::new(w, BigUint::from(w)));
    }
    if w > 32 {
        v.push(Bv::new(w, pow2(32)));
    }
    if w > 64 {
        v.push(Bv::new(w, pow2(64) + BigUint::one()));
    }
    dedup_bvs(v)
}

pub fn all_values(w: u32) -> Vec<Bv> {
    assert!(w <= 16);
    (0..(1u64 << w)).map(|x| Bv::from_u64(w, x)).collect()
}

/// value alphabet of one symbol: exhaustive when `exh`, boundary alphabet otherwise
pub fn value_alphabet(ty: Ty, exh: bool, core: bool) -> Vec<Val> {
    match ty {
        Ty::Bv(w) => {
            let v = if exh { all_values(w) } else if core { bnd_core(w) } else { bnd_values(w) };
            v.into_iter().map(Val::B).collect()
        }
        Ty::Arr(iw, dw) => {
            if exh {
                // all tables
                let n = 1usize << iw;
                let dv = all_values(dw);
                let mut out = vec![];
                let mut idx = vec![0usize; n];
                loop {
                    let t: Vec<Bv> = idx.iter().map(|i| dv[*i].clone()).collect();
                    // every representation of this table: each possible default value
                    for d in dv.iter() {
                        let mut a = Arr::constant(iw, d);
                        for (i, x) in t.iter().enumerate() {
                            a = a.store(&Bv::from_u64(iw, i as u64), x);
                        }
                        out.push(Val::A(a));
                    }
                    let mut k = 0;
                    while k < n {
                        idx[k] += 1;
                        if idx[k] < dv.len() {
                            break;
                        }
                        idx[k] = 0;
                        k += 1;
                    }
                    if k == n {
                        break;
                    }
                }
                out
            } else {
                // boundary arrays: constants, one overwritten index (first/last), two entries
                let dv = if dw <= 2 { all_values(dw) } else { bnd_core(dw) };
                let last = Bv::new(iw, mask(iw));
                let first = Bv::zero(iw);
                let mut out = vec![];
                for d in dv.iter() {
                    out.push(Val::A(Arr::constant(iw, d)));
                }
                for d in dv.iter().take(3) {
                    for e in dv.iter().take(3) {
                        if d != e {
                            out.push(Val::A(Arr::constant(iw, d).store(&first, e)));
                            out.push(Val::A(Arr::constant(iw, d).store(&last, e)));
                        }
                    }
                }
                out
            }
        }
    }
}

/// All assignments to `syms`: the exhaustive product when the total number of bits is at most
/// `exh_bits`, otherwise the full product of boundary alphabets (reduced to the core alphabet when
/// that product would exceed `cap`). Returns (assignments, exhaustive?).
pub fn assignments(syms: &[(String, Ty)], exh_bits: u64, cap: usize) -> (Vec<Vec<Val>>, bool) {
    let total: u64 = syms.iter().map(|(_, t)| t.bits()).fold(0u64, |a, b| a.saturating_add(b));
    let exh = total <= exh_bits;
    let mut alph: Vec<Vec<Val>> = syms.iter().map(|(_, t)| value_alphabet(*t, exh, false)).collect();
    if !exh {
        let prod: usize = alph.iter().map(|a| a.len()).fold(1usize, |a, b| a.saturating_mul(b));
        if prod > cap {
            alph = syms.iter().map(|(_, t)| value_alphabet(*t, false, true)).collect();
        }
    }
    (product(&alph), exh)
}

pub fn product<X: Clone>(alph: &[Vec<X>]) -> Vec<Vec<X>> {
    let mut out: Vec<Vec<X>> = vec![vec![]];
    for a in alph {
        let mut next = Vec::with_capacity(out.len() * a.len());
        for p in out.iter() {
            for x in a.iter() {
                let mut q = p.clone();
                q.push(x.clone());
                next.push(q);
            }
        }
        out = next;
    }
    out
}

// ------------------------------------------------------------------ enumerators

#[derive(Clone, Copy, Debug, PartialEq, Eq)]
pub enum Lits {
    Full,
    Reduced,
    None,
}

#[derive(Clone, Debug)]
pub struct Cfg {
    /// bit-vector widths of the universe (leaf widths and partner widths)
    pub widths: Vec<u32>,
    /// array types of the universe
    pub arrays: Vec<(u32, u32)>,
    /// symbols per type
    pub nsyms: usize,
    pub lits: Lits,
    /// extension amounts
    pub ext_by: Vec<u32>,
    pub divrem: bool,
}

impl Cfg {
    pub fn new(widths: &[u32]) -> Cfg {
        Cfg { widths: widths.to_vec(), arrays: vec![], nsyms: 2, lits: Lits::Full, ext_by: vec![1, 2], divrem: true }
    }
    pub fn reduced(&self) -> Cfg {
        let mut c = self.clone();
        c.lits = Lits::Reduced;
        c
    }
}

pub fn sym_name(ty: Ty, k: usize) -> String {
    let base = ["a", "b", "c", "d"][k];
    match ty {
        Ty::Bv(w) => format!("{base}{w}"),
        Ty::Arr(i, d) => format!("{}{}_{}", ["m", "n", "o", "p"][k], i, d),
    }
}

pub fn leaves(ty: Ty, cfg: &Cfg) -> Vec<T> {
    let mut out = vec![];
    for k in 0..cfg.nsyms {
        out.push(T::Sym(sym_name(ty, k), ty));
    }
    match ty {
        Ty::Bv(w) => {
            let l = match cfg.lits {
                Lits::Full => lit_alphabet(w),
                Lits::Reduced => lit_reduced(w),
                Lits::None => vec![],
            };
            out.extend(l.into_iter().map(T::Lit));
        }
        Ty::Arr(iw, dw) => {
            if cfg.lits != Lits::None {
                out.push(T::AConst(iw, Box::new(T::Lit(Bv::zero(dw)))));
                if cfg.lits == Lits::Full {
                    out.push(T::AConst(iw, Box::new(T::Lit(Bv::ones(dw)))));
                }
            }
        }
    }
    out
}

/// slice parameter menu for a source of width w (never the full-width slice)
pub fn slice_params(w: u32) -> Vec<(u32, u32)> {
    let mut v = vec![];
    if w <= 4 {
        for hi in 0..w {
            for lo in 0..=hi {
                v.push((hi, lo));
            }
        }
    } else {
        let mid = w / 2;
        let mut cuts = vec![(0, 0), (w - 1, w - 1), (w - 1, 1), (w - 2, 0), (mid, mid), (mid, 0), (w - 1, mid), (mid + 1, mid - 1)];
        for bnd in [32u32, 64, 128] {
            if w > bnd {
                cuts.push((bnd, bnd));
                cuts.push((bnd - 1, 0));
                cuts.push((w - 1, bnd));
                cuts.push((bnd, bnd - 1));
            }
        }
        for c in cuts {
            if !v.contains(&c) {
                v.push(c);
            }
        }
    }
    v.retain(|(hi, lo)| !(*lo == 0 && *hi + 1 == w) && hi >= lo && *hi < w);
    v
}

/// All applications of one operator with `x` fixed at argument position `p` and every other
/// argument a leaf (from `cfg`). Partner types that the operator does not determine are drawn from
/// the universe in `cfg`.
pub fn apps_at(x: &T, p: usize, cfg: &Cfg) -> Vec<T> {
    let mut out = vec![];
    let tx = x.ty();
    let bx = || Box::new(x.clone());
    let bool_leaves = || leaves(Ty::Bv(1), cfg);
    match tx {
        Ty::Bv(w) => {
            if p == 0 {
                // unary
                out.push(T::Not(bx()));
                out.push(T::Neg(bx()));
                for by in cfg.ext_by.iter() {
                    out.push(T::ZExt(*by, bx()));
                    out.push(T::SExt(*by, bx()));
                }
                for (hi, lo) in slice_params(w) {
                    out.push(T::Slice(hi, lo, bx()));
                }
                // array constant over x
                for (iw, dw) in cfg.arrays.iter() {
                    if *dw == w {
                        out.push(T::AConst(*iw, bx()));
                    }
                }
            }
            if p <= 1 {
                // binary, same width partner
                let mut ops: Vec<Bin> = ARITH.to_vec();
                ops.extend_from_slice(&CMP);
                if w == 1 {
                    ops.push(Bin::Implies);
                }
                for op in ops {
                    if op.is_divrem() && !cfg.divrem {
                        continue;
                    }
                    for l in leaves(Ty::Bv(w), cfg) {
                        if p == 0 {
                            out.push(T::bin(op, x.clone(), l));
                        } else {
                            out.push(T::bin(op, l, x.clone()));
                        }
                    }
                }
                // concat with any partner width of the universe
                for pw in cfg.widths.iter() {
                    for l in leaves(Ty::Bv(*pw), cfg) {
                        if p == 0 {
                            out.push(T::bin(Bin::Concat, x.clone(), l));
                        } else {
                            out.push(T::bin(Bin::Concat, l, x.clone()));
                        }
                    }
                }
            }
            // ite: condition position (p==0, w==1) and branch positions (p==1,2)
            if p == 0 && w == 1 {
                let mut tys: Vec<Ty> = cfg.widths.iter().map(|w| Ty::Bv(*w)).collect();
                tys.extend(cfg.arrays.iter().map(|(i, d)| Ty::Arr(*i, *d)));
                for ty in tys {
                    let ls = leaves(ty, cfg);
                    for a in ls.iter() {
                        for b in ls.iter() {
                            out.push(T::ite(x.clone(), a.clone(), b.clone()));
                        }
                    }
                }
            }
            if p == 1 || p == 2 {
                for c in bool_leaves() {
                    for l in leaves(Ty::Bv(w), cfg) {
                        if p == 1 {
                            out.push(T::ite(c.clone(), x.clone(), l));
                        } else {
                            out.push(T::ite(c.clone(), l, x.clone()));
                        }
                    }
                }
            }
            // array index / data positions
            for (iw, dw) in cfg.arrays.iter() {
                let aty = Ty::Arr(*iw, *dw);
                if p == 1 && *iw == w {
                    for a in leaves(aty, cfg) {
                        out.push(T::Read(Box::new(a.clone()), bx()));
                        for d in leaves(Ty::Bv(*dw), cfg) {
                            out.push(T::Store(Box::new(a.clone()), bx(), Box::new(d)));
                        }
                    }
                }
                if p == 2 && *dw == w {
                    for a in leaves(aty, cfg) {
                        for i in leaves(Ty::Bv(*iw), cfg) {
                            out.push(T::Store(Box::new(a.clone()), Box::new(i), bx()));
                        }
                    }
                }
            }
        }
        Ty::Arr(iw, dw) => {
            if p == 0 {
                for i in leaves(Ty::Bv(iw), cfg) {
                    out.push(T::Read(bx(), Box::new(i.clone())));
                    for d in leaves(Ty::Bv(dw), cfg) {
                        out.push(T::Store(bx(), Box::new(i.clone()), Box::new(d)));
                    }
                }
            }
            if p <= 1 {
                for l in leaves(tx, cfg) {
                    if p == 0 {
                        out.push(T::bin(Bin::Eq, x.clone(), l));
                    } else {
                        out.push(T::bin(Bin::Eq, l, x.clone()));
                    }
                }
            }
            if p == 1 || p == 2 {
                for c in bool_leaves() {
                    for l in leaves(tx, cfg) {
                        if p == 1 {
                            out.push(T::ite(c.clone(), x.clone(), l));
                        } else {
                            out.push(T::ite(c.clone(), l, x.clone()));
                        }
                    }
                }
            }
        }
    }
    out
}

/// universe types
pub fn universe(cfg: &Cfg) -> Vec<Ty> {
    let mut tys: Vec<Ty> = cfg.widths.iter().map(|w| Ty::Bv(*w)).collect();
    tys.extend(cfg.arrays.iter().map(|(i, d)| Ty::Arr(*i, *d)));
    tys
}

/// T1: every operator applied to leaves (position 0 ranges over all leaves; the other positions
/// range over all leaves inside `apps_at`, so this is the full product).
pub fn t1(cfg: &Cfg) -> Vec<T> {
    let mut out = vec![];
    for ty in universe(cfg) {
        for l in leaves(ty, cfg) {
            out.extend(apps_at(&l, 0, cfg));
        }
    }
    out
}

/// T2 chunk: every operator with argument position p (all p) replaced by the given inner term
pub fn wrap_all(inner: &T, cfg: &Cfg) -> Vec<T> {
    let mut out = vec![];
    for p in 0..3 {
        out.extend(apps_at(inner, p, cfg));
    }
    out
}

/// Both-argument nestings for the rules that look at two non-leaf children.
pub fn t2_pairs(cfg: &Cfg) -> Vec<T> {
    let mut out = vec![];
    let red = cfg.reduced();
    for w in cfg.widths.iter().cloned() {
        let ls = leaves(Ty::Bv(w), &red);
        let syms: Vec<T> = ls.iter().filter(|l| matches!(l, T::Sym(..))).cloned().collect();
        // and/or/xor of two nots (and mixed), over all leaf pairs
        for op in [Bin::And, Bin::Or, Bin::Xor, Bin::Eq, Bin::Add, Bin::Sub, Bin::Uge] {
            for a in ls.iter() {
                for b in ls.iter() {
                    out.push(T::bin(op, T::not(a.clone()), T::not(b.clone())));
                    out.push(T::bin(op, T::Neg(Box::new(a.clone())), T::Neg(Box::new(b.clone()))));
                }
            }
        }
        // three directly nested slices (a writer / rule that fuses slice chains meets its third level only here):
        // every chain at widths <= 5, the boundary cuts above
        if let Some(x) = syms.first() {
            for (h1, l1) in slice_params(w) {
                let w1 = h1 - l1 + 1;
                for (h2, l2) in slice_params(w1) {
                    let w2 = h2 - l2 + 1;
                    for (h3, l3) in slice_params(w2) {
                        out.push(T::Slice(h3, l3, Box::new(T::Slice(h2, l2, Box::new(T::Slice(h1, l1, Box::new(x.clone())))))));
                    }
                }
            }
        }
        // both operands built by the same operator over a common operand (a literal - every value at widths <= 4,
        // the full literal alphabet above - or a third symbol): cancellation / factoring rules look at exactly this
        if syms.len() >= 2 {
            let (a, b) = (syms[0].clone(), syms[1].clone());
            let mut common: Vec<T> = if w <= 4 { (0..(1u64 << w)).map(|v| T::Lit(Bv::from_u64(w, v))).collect() } else { lit_alphabet(w).into_iter().map(T::Lit).collect() };
            common.push(T::Sym(sym_name(Ty::Bv(w), 2), Ty::Bv(w)));
            for outer in [Bin::Eq, Bin::Ugt, Bin::Uge, Bin::Sgt, Bin::Sge, Bin::Sub, Bin::Xor, Bin::Add] {
                for inner in [Bin::Add, Bin::Sub, Bin::Mul, Bin::Xor, Bin::And, Bin::Or, Bin::Shl, Bin::Lshr] {
                    for c in common.iter() {
                        out.push(T::bin(outer, T::bin(inner, a.clone(), c.clone()), T::bin(inner, b.clone(), c.clone())));
                        out.push(T::bin(outer, T::bin(inner, c.clone(), a.clone()), T::bin(inner, c.clone(), b.clone())));
                        out.push(T::bin(outer, T::bin(inner, a.clone(), c.clone()), T::bin(inner, c.clone(), b.clone())));
                    }
                }
            }
        }
        // concat of two slices of the same / different symbols: all slice parameter pairs
        for a in syms.iter() {
            for b in syms.iter() {
                for (h1, l1) in slice_params(w) {
                    for (h2, l2) in slice_params(w) {
                        out.push(T::bin(
                            Bin::Concat,
                            T::Slice(h1, l1, Box::new(a.clone())),
                            T::Slice(h2, l2, Box::new(b.clone())),
                        ));
                    }
                }
            }
        }
        // concat of a slice with a concat of a slice and a leaf, both nestings (slice merging and
        // re-association rules interact here); all slice parameter pairs at narrow widths
        if w <= 8 {
            let third = leaves(Ty::Bv(w), &red);
            for a in syms.iter() {
                for b in syms.iter().take(if w <= 4 { 2 } else { 1 }) {
                    for (h1, l1) in slice_params(w) {
                        for (h2, l2) in slice_params(w) {
                            let sa = T::Slice(h1, l1, Box::new(a.clone()));
                            let sb = T::Slice(h2, l2, Box::new(b.clone()));
                            for c in third.iter().take(3) {
                                out.push(T::bin(Bin::Concat, sa.clone(), T::bin(Bin::Concat, sb.clone(), c.clone())));
                                out.push(T::bin(Bin::Concat, T::bin(Bin::Concat, sa.clone(), sb.clone()), c.clone()));
                            }
                        }
                    }
                }
            }
        }
        // eq / and with a concat on either side and a literal / symbol on the other
        for pw in cfg.widths.iter().cloned() {
            let la = leaves(Ty::Bv(w), &red);
            let lb = leaves(Ty::Bv(pw), &red);
            let lo = leaves(Ty::Bv(w + pw), cfg);
            for a in la.iter() {
                for b in lb.iter() {
                    let cc = T::bin(Bin::Concat, a.clone(), b.clone());
                    for o in lo.iter() {
                        for op in [Bin::Eq, Bin::And, Bin::Or] {
                            out.push(T::bin(op, cc.clone(), o.clone()));
                            out.push(T::bin(op, o.clone(), cc.clone()));
                        }
                    }
                    // concat of concat (both nestings)
                    for c in lb.iter() {
                        out.push(T::bin(Bin::Concat, cc.clone(), c.clone()));
                        out.push(T::bin(Bin::Concat, c.clone(), cc.clone()));
                    }
                }
            }
        }
        // ite with literal branches at width 1 is covered by T1; ite of ites
        if w == 1 {
            for c in syms.iter() {
                for a in ls.iter() {
                    for b in ls.iter() {
                        let inner = T::ite(c.clone(), a.clone(), b.clone());
                        for d in ls.iter() {
                            out.push(T::ite(inner.clone(), d.clone(), a.clone()));
                            out.push(T::ite(d.clone(), inner.clone(), inner.clone()));
                        }
                    }
                }
            }
        }
        // ext of ext, slice of ext, ext of slice
        for a in syms.iter() {
            for by1 in cfg.ext_by.iter().cloned() {
                for by2 in cfg.ext_by.iter().cloned() {
                    out.push(T::SExt(by2, Box::new(T::SExt(by1, Box::new(a.clone())))));
                    out.push(T::ZExt(by2, Box::new(T::ZExt(by1, Box::new(a.clone())))));
                    out.push(T::SExt(by2, Box::new(T::ZExt(by1, Box::new(a.clone())))));
                    out.push(T::ZExt(by2, Box::new(T::SExt(by1, Box::new(a.clone())))));
                }
                for (hi, lo) in slice_params(w + by1) {
                    out.push(T::Slice(hi, lo, Box::new(T::SExt(by1, Box::new(a.clone())))));
                    out.push(T::Slice(hi, lo, Box::new(T::ZExt(by1, Box::new(a.clone())))));
                }
            }
        }
    }
    // array nestings with two non-leaf children: equality / ite / read over stores, constant arrays and
    // ites with the same or different base arrays, index and data symbols (rules that split or merge
    // array equalities and stores look at both sides)
    for (iw, dw) in cfg.arrays.iter().cloned() {
        let aty = Ty::Arr(iw, dw);
        let m = || T::Sym(sym_name(aty, 0), aty);
        let n = || T::Sym(sym_name(aty, 1), aty);
        let i0 = || T::Sym(sym_name(Ty::Bv(iw), 0), Ty::Bv(iw));
        let i1 = || T::Sym(sym_name(Ty::Bv(iw), 1), Ty::Bv(iw));
        let d0 = || T::Sym(sym_name(Ty::Bv(dw), 2), Ty::Bv(dw));
        let d1 = || T::Sym(sym_name(Ty::Bv(dw), 3), Ty::Bv(dw));
        let c = || T::Sym(sym_name(Ty::Bv(1), 3), Ty::Bv(1));
        let st = |a: T, i: T, d: T| T::Store(Box::new(a), Box::new(i), Box::new(d));
        let k0 = || T::AConst(iw, Box::new(d0()));
        let k1 = || T::AConst(iw, Box::new(d1()));
        let pool: Vec<T> = vec![
            m(),
            n(),
            k0(),
            k1(),
            st(m(), i0(), d0()),
            st(n(), i0(), d1()),
            st(n(), i0(), d0()),
            st(m(), i1(), d0()),
            st(m(), i0(), d1()),
            st(k0(), i0(), d1()),
            st(k1(), i1(), d0()),
            st(st(m(), i0(), d0()), i0(), d1()),
            st(st(m(), i0(), d0()), i1(), d1()),
            T::ite(c(), m(), n()),
            T::ite(c(), st(m(), i0(), d0()), m()),
        ];
        for x in pool.iter() {
            for y in pool.iter() {
                out.push(T::bin(Bin::Eq, x.clone(), y.clone()));
            }
            for i in [i0(), i1()] {
                out.push(T::Read(Box::new(x.clone()), Box::new(i)));
            }
            if !matches!(x, T::Sym(..)) {
                out.push(T::ite(c(), x.clone(), n()));
                out.push(T::ite(c(), m(), x.clone()));
                out.push(st(x.clone(), i1(), d1()));
            }
        }
    }
    out
}

// ------------------------------------------------------------------ env helpers

pub fn make_env(ctx: &mut Context, syms: &[(String, Ty)], vals: &[Val]) -> crate::evalref::Env {
    let mut env = crate::evalref::Env::default();
    for ((n, ty), v) in syms.iter().zip(vals.iter()) {
        let e = T::Sym(n.clone(), *ty).build(ctx);
        env.insert(e, v.clone());
    }
    env
}

pub fn show_assignment(syms: &[(String, Ty)], vals: &[Val]) -> String {
    syms.iter().zip(vals.iter()).map(|((n, _), v)| format!("{n}={}", v.show())).collect::<Vec<_>>().join(" ")
}

// ------------------------------------------------------------------ shrinking

fn replace_kid(t: &T, i: usize, new: T) -> T {
    let b = Box::new(new);
    match t {
        T::Not(_) => T::Not(b),
        T::Neg(_) => T::Neg(b),
        T::ZExt(by, _) => T::ZExt(*by, b),
        T::SExt(by, _) => T::SExt(*by, b),
        T::Slice(h, l, _) => T::Slice(*h, *l, b),
        T::AConst(iw, _) => T::AConst(*iw, b),
        T::Bin(op, x, y) => {
            if i == 0 {
                T::Bin(*op, b, y.clone())
            } else {
                T::Bin(*op, x.clone(), b)
            }
        }
        T::Read(x, y) => {
            if i == 0 {
                T::Read(b, y.clone())
            } else {
                T::Read(x.clone(), b)
            }
        }
        T::Ite(x, y, z) => match i {
            0 => T::Ite(b, y.clone(), z.clone()),
            1 => T::Ite(x.clone(), b, z.clone()),
            _ => T::Ite(x.clone(), y.clone(), b),
        },
        T::Store(x, y, z) => match i {
            0 => T::Store(b, y.clone(), z.clone()),
            1 => T::Store(x.clone(), b, z.clone()),
            _ => T::Store(x.clone(), y.clone(), b),
        },
        T::Sym(..) | T::Lit(..) => t.clone(),
    }
}

fn shrink_candidates(t: &T) -> Vec<T> {
    let mut out = vec![];
    let kids = t.kids();
    // 1. proper non-leaf sub-terms
    for k in kids.iter() {
        if !k.is_leaf() {
            out.push((*k).clone());
        }
    }
    // 2. replace a non-leaf child by a leaf of the same type
    for (i, k) in kids.iter().enumerate() {
        if k.is_leaf() {
            continue;
        }
        let ty = k.ty();
        let mut menu = vec![T::Sym(sym_name(ty, 0), ty), T::Sym(sym_name(ty, 1), ty)];
        match ty {
            Ty::Bv(w) => {
                menu.push(T::Lit(Bv::zero(w)));
                menu.push(T::Lit(Bv::ones(w)));
            }
            Ty::Arr(iw, dw) => menu.push(T::AConst(iw, Box::new(T::Lit(Bv::zero(dw))))),
        }
        // hoisting: a grand-child of the same type takes the child's place
        for g in k.kids() {
            if g.ty() == ty {
                menu.insert(0, g.clone());
            }
        }
        if k.symbols().is_empty()
            && let Ty::Bv(_) = ty
        {
            // closed sub-term: its value as a literal
            let mut ctx = Context::default();
            let e = k.build(&mut ctx);
            let r = std::panic::catch_unwind(std::panic::AssertUnwindSafe(|| crate::evalref::eval_ref(&ctx, e, &Default::default())));
            if let Ok(Val::B(b)) = r {
                menu.insert(0, T::Lit(b));
            }
        }
        for m in menu {
            out.push(replace_kid(t, i, m));
        }
    }
    // 3. shrink inside a non-leaf child (one level)
    for (i, k) in kids.iter().enumerate() {
        if k.is_leaf() {
            continue;
        }
        for c in shrink_candidates(k) {
            if c.ty() == k.ty() {
                out.push(replace_kid(t, i, c));
            }
        }
    }
    out
}

/// Greedy shrinking of a failing term: sub-terms first, then leaf replacement of children, then
/// generalisation of literals to symbols; repeated to a fixed point.
pub fn shrink(t: &T, fails: &dyn Fn(&T) -> bool) -> T {
    let mut cur = t.clone();
    for _ in 0..8 {
        let mut rounds = 0;
        'outer: loop {
            rounds += 1;
            if rounds > 50 {
                break;
            }
            for c in shrink_candidates(&cur) {
                if c.size() < cur.size() && fails(&c) {
                    cur = c;
                    continue 'outer;
                }
            }
            break;
        }
        // generalisation: prefer symbols over literals where the failure does not need the literal
        let mut changed = false;
        let kinds: Vec<(usize, Ty)> =
            cur.kids().iter().enumerate().filter(|(_, k)| matches!(k, T::Lit(_))).map(|(i, k)| (i, k.ty())).collect();
        for (i, ty) in kinds {
            let used: Vec<String> = cur.symbols().into_iter().map(|(n, _)| n).collect();
            let fresh = (0..4).map(|k| sym_name(ty, k)).find(|n| !used.contains(n));
            if let Some(n) = fresh {
                let c = replace_kid(&cur, i, T::Sym(n, ty));
                if fails(&c) {
                    cur = c;
                    changed = true;
                }
            }
        }
        if !changed || cur.kids().iter().all(|k| k.is_leaf()) {
            break;
        }
    }
    cur
}

/// signature shape: the root operator, with operand kinds only when some operand is not a leaf
pub fn sig_shape(t: &T) -> String {
    if t.kids().iter().all(|k| k.is_leaf()) {
        if t.kids().iter().any(|k| matches!(k.ty(), Ty::Arr(..))) {
            format!("{}[arr]", t.op_name())
        } else {
            t.op_name().to_string()
        }
    } else {
        shape(t)
    }
}

/// operator shape used in signatures: op(kid kinds)
pub fn shape(t: &T) -> String {
    let k: Vec<String> = t
        .kids()
        .iter()
        .map(|k| match k {
            T::Sym(..) => "sym".to_string(),
            T::Lit(..) => "lit".to_string(),
            o => o.op_name().to_string(),
        })
        .collect();
    format!("{}({})", t.op_name(), k.join(","))
}

/// widest bit-vector width among the term and its direct operands
pub fn operand_width(t: &T) -> u32 {
    let mut w = match t.ty() {
        Ty::Bv(w) => w,
        Ty::Arr(_, d) => d,
    };
    for k in t.kids() {
        if let Ty::Bv(x) = k.ty() {
            w = w.max(x);
        }
    }
    w
}
