//! Context-independent transition-system specifications, skeleton families K1..K7 with ranked
//! slot pools, and the deviation-bounded sweeps S1/S2/S3.

use crate::bv::Bv;
use crate::terms::*;
use patronus::expr::{Context, ExprRef};
use patronus::system::{State, TransitionSystem};
use serde_json::{Value, json};

#[derive(Clone, Debug, PartialEq, Eq)]
pub struct StateSpec {
    pub name: String,
    pub ty: Ty,
    pub init: Option<T>,
    pub next: Option<T>,
}

#[derive(Clone, Debug, PartialEq, Eq)]
pub struct SysSpec {
    pub name: String,
    pub inputs: Vec<(String, Ty)>,
    pub states: Vec<StateSpec>,
    pub outputs: Vec<(String, T)>,
    pub bads: Vec<T>,
    pub constraints: Vec<T>,
}

pub struct Built {
    pub sys: TransitionSystem,
    pub inputs: Vec<ExprRef>,
    pub states: Vec<ExprRef>,
}

impl SysSpec {
    pub fn build(&self, ctx: &mut Context) -> Built {
        // "-offset<N>": the system is built into a context that already holds N unrelated expressions, so that its
        // nodes straddle reference N (58: the 64-bit word boundary of the dense sets / maps, 122: the second word,
        // 65530: the 2^16 mark). Nothing in the semantics may depend on where in the context a system lives.
        if let Some(pos) = self.name.find("-offset") {
            let n: usize = self.name[pos + 7..].chars().take_while(|c| c.is_ascii_digit()).collect::<String>().parse().unwrap_or(0);
            let mut k = 0usize;
            loop {
                let f = T::Sym(format!("__fill_{k}"), Ty::Bv(1)).build(ctx);
                k += 1;
                if usize::from(f) + 1 >= n {
                    break;
                }
            }
        }
        // "-revsyms": the symbols exist in the context before the system is assembled, created in the REVERSE of
        // their declaration order (states last-to-first, then inputs last-to-first): reference order and declaration
        // order of inputs / states are unrelated, as after parsing a second design into a used context
        if self.name.contains("-revsyms") {
            for st in self.states.iter().rev() {
                T::Sym(st.name.clone(), st.ty).build(ctx);
            }
            for (n, ty) in self.inputs.iter().rev() {
                T::Sym(n.clone(), *ty).build(ctx);
            }
        }
        let mut sys = TransitionSystem::new(self.name.clone());
        let mut inputs = vec![];
        for (n, ty) in self.inputs.iter() {
            let s = T::Sym(n.clone(), *ty).build(ctx);
            sys.add_input(ctx, s);
            inputs.push(s);
        }
        let mut states = vec![];
        for st in self.states.iter() {
            let symbol = T::Sym(st.name.clone(), st.ty).build(ctx);
            let init = st.init.as_ref().map(|t| t.build(ctx));
            let next = st.next.as_ref().map(|t| t.build(ctx));
            sys.add_state(ctx, State { symbol, init, next });
            states.push(symbol);
        }
        for (n, t) in self.outputs.iter() {
            let e = t.build(ctx);
            sys.add_output(ctx, n.clone().into(), e);
        }
        for t in self.bads.iter() {
            let e = t.build(ctx);
            sys.bad_states.push(e);
        }
        for t in self.constraints.iter() {
            let e = t.build(ctx);
            sys.constraints.push(e);
        }
        if self.name.contains("labelled") {
            // what the btor2 reader does with the label of an output / bad / constraint line: it becomes the
            // name of the node the line points at, also when that node is an input symbol (a state symbol
            // is renamed instead, which is not modelled here)
            let outs: Vec<(String, ExprRef)> = sys.outputs.iter().map(|o| (ctx[o.name].to_string(), o.expr)).collect();
            let mut labels: Vec<(String, ExprRef)> = outs;
            labels.extend(sys.bad_states.iter().enumerate().map(|(i, e)| (if i == 0 { "_bad".to_string() } else { format!("_bad_{i}") }, *e)));
            labels.extend(sys.constraints.iter().enumerate().map(|(i, e)| (if i == 0 { "_constraint".to_string() } else { format!("_constraint_{i}") }, *e)));
            for (n, e) in labels {
                if !states.contains(&e) {
                    sys.names[e] = Some(ctx.string(n.into()));
                }
            }
        }
        if self.name.contains("unnamed") {
            // a system assembled through the public fields (`inputs`, `states`) instead of add_input / add_state, and
            // what the btor2 reader leaves behind when it re-points a state: no entry in the name table for the
            // symbols. The name table is no part of the semantics: nothing may depend on it for membership.
            for s in inputs.iter().chain(states.iter()) {
                sys.names[*s] = None;
            }
        }
        Built { sys, inputs, states }
    }

    pub fn to_json(&self) -> Value {
        let o = |t: &Option<T>| t.as_ref().map(|t| json!(t.to_string())).unwrap_or(Value::Null);
        let ty = |t: &Ty| match t {
            Ty::Bv(w) => json!({"bv": w}),
            Ty::Arr(i, d) => json!({"arr": [i, d]}),
        };
        json!({
            "name": self.name,
            "inputs": self.inputs.iter().map(|(n, t)| json!({"name": n, "ty": ty(t)})).collect::<Vec<_>>(),
            "states": self.states.iter().map(|s| json!({"name": s.name, "ty": ty(&s.ty), "init": o(&s.init), "next": o(&s.next)})).collect::<Vec<_>>(),
            "outputs": self.outputs.iter().map(|(n, t)| json!({"name": n, "expr": t.to_string()})).collect::<Vec<_>>(),
            "bads": self.bads.iter().map(|t| json!(t.to_string())).collect::<Vec<_>>(),
            "constraints": self.constraints.iter().map(|t| json!(t.to_string())).collect::<Vec<_>>(),
        })
    }

    pub fn from_json(v: &Value) -> Result<SysSpec, String> {
        let ty = |t: &Value| -> Result<Ty, String> {
            if let Some(w) = t.get("bv") {
                Ok(Ty::Bv(w.as_u64().ok_or("bv")? as u32))
            } else if let Some(a) = t.get("arr") {
                Ok(Ty::Arr(a[0].as_u64().ok_or("arr")? as u32, a[1].as_u64().ok_or("arr")? as u32))
            } else {
                Err("bad type".into())
            }
        };
        let term = |t: &Value| -> Result<Option<T>, String> {
            match t {
                Value::Null => Ok(None),
                Value::String(s) => Ok(Some(parse_t(s)?)),
                _ => Err("bad term".into()),
            }
        };
        let arr = |k: &str| v[k].as_array().cloned().unwrap_or_default();
        let mut s = SysSpec { name: v["name"].as_str().unwrap_or("sys").to_string(), inputs: vec![], states: vec![], outputs: vec![], bads: vec![], constraints: vec![] };
        for i in arr("inputs") {
            s.inputs.push((i["name"].as_str().ok_or("name")?.to_string(), ty(&i["ty"])?));
        }
        for st in arr("states") {
            s.states.push(StateSpec { name: st["name"].as_str().ok_or("name")?.to_string(), ty: ty(&st["ty"])?, init: term(&st["init"])?, next: term(&st["next"])? });
        }
        for o in arr("outputs") {
            s.outputs.push((o["name"].as_str().ok_or("name")?.to_string(), term(&o["expr"])?.ok_or("expr")?));
        }
        for b in arr("bads") {
            s.bads.push(term(&b)?.ok_or("bad")?);
        }
        for c in arr("constraints") {
            s.constraints.push(term(&c)?.ok_or("constraint")?);
        }
        Ok(s)
    }

    pub fn state_bits(&self) -> u64 {
        self.states.iter().map(|s| match s.ty { Ty::Bv(w) => w as u64, Ty::Arr(i, d) => (d as u64) << i }).sum()
    }
    pub fn input_bits(&self) -> u64 {
        self.inputs.iter().map(|(_, t)| match t { Ty::Bv(w) => *w as u64, Ty::Arr(i, d) => (*d as u64) << i }).sum()
    }
    pub fn has_arrays(&self) -> bool {
        self.states.iter().any(|s| matches!(s.ty, Ty::Arr(..))) || self.inputs.iter().any(|(_, t)| matches!(t, Ty::Arr(..)))
            || self.all_terms().iter().any(|t| t.contains_array())
    }
    pub fn all_terms(&self) -> Vec<&T> {
        let mut v: Vec<&T> = vec![];
        for s in self.states.iter() {
            if let Some(t) = &s.init { v.push(t); }
            if let Some(t) = &s.next { v.push(t); }
        }
        v.extend(self.outputs.iter().map(|(_, t)| t));
        v.extend(self.bads.iter());
        v.extend(self.constraints.iter());
        v
    }
    pub fn contains_divrem(&self) -> bool {
        self.all_terms().iter().any(|t| t.contains_divrem())
    }
}

// ------------------------------------------------------------------ slots and skeletons

#[derive(Clone, Debug, PartialEq, Eq)]
pub enum Slot {
    Init(usize),
    Next(usize),
    Bad(usize),
    Constraint(usize),
    Output(usize),
}

/// A slot value: `None` means "absent" (no init / no next / no such bad, constraint, output).
pub type SlotVal = Option<T>;

#[derive(Clone, Debug)]
pub struct Skeleton {
    pub name: &'static str,
    pub base: SysSpec,
    /// ranked pools: hand-picked elements first, then the generated ones
    pub slots: Vec<(Slot, Vec<SlotVal>)>,
}

fn s(n: &str, w: u32) -> T {
    T::sym(n, Ty::Bv(w))
}
fn l(w: u32, v: u64) -> T {
    T::lit(w, v)
}
fn b(op: Bin, a: T, c: T) -> T {
    T::bin(op, a, c)
}
fn tru() -> T {
    l(1, 1)
}
fn fls() -> T {
    l(1, 0)
}

fn set_slot(spec: &mut SysSpec, slot: &Slot, v: &SlotVal) {
    match slot {
        Slot::Init(i) => spec.states[*i].init = v.clone(),
        Slot::Next(i) => spec.states[*i].next = v.clone(),
        Slot::Bad(i) => match v {
            Some(t) => {
                if *i < spec.bads.len() {
                    spec.bads[*i] = t.clone()
                } else {
                    spec.bads.push(t.clone())
                }
            }
            None => {
                if *i < spec.bads.len() {
                    spec.bads.remove(*i);
                }
            }
        },
        Slot::Constraint(i) => match v {
            Some(t) => {
                if *i < spec.constraints.len() {
                    spec.constraints[*i] = t.clone()
                } else {
                    spec.constraints.push(t.clone())
                }
            }
            None => {
                if *i < spec.constraints.len() {
                    spec.constraints.remove(*i);
                }
            }
        },
        Slot::Output(i) => match v {
            Some(t) => {
                if *i < spec.outputs.len() {
                    spec.outputs[*i].1 = t.clone()
                } else {
                    spec.outputs.push((format!("out{i}"), t.clone()))
                }
            }
            None => {
                if *i < spec.outputs.len() {
                    spec.outputs.remove(*i);
                }
            }
        },
    }
}

/// generated pool: all T1 terms (and a few T2) of type `ty` whose symbols are among `allowed`
fn generated_pool(ty: Ty, allowed: &[(String, Ty)], widths: &[u32], arrays: &[(u32, u32)], divrem: bool) -> Vec<T> {
    let mut cfg = Cfg::new(widths);
    cfg.arrays = arrays.to_vec();
    cfg.nsyms = 3;
    cfg.lits = Lits::Reduced;
    cfg.ext_by = vec![1];
    cfg.divrem = divrem;
    let ok = |t: &T| t.ty() == ty && t.symbols().iter().all(|s| allowed.contains(s)) && !t.symbols().is_empty();
    let mut out: Vec<T> = vec![];
    for t in t1(&cfg) {
        if ok(&t) && !out.contains(&t) {
            out.push(t);
        }
    }
    out
}

impl Skeleton {
    fn allowed_for(&self, slot: &Slot) -> Vec<(String, Ty)> {
        let mut v = vec![];
        match slot {
            Slot::Init(i) => {
                for st in self.base.states.iter().take(*i) {
                    v.push((st.name.clone(), st.ty));
                }
            }
            _ => {
                for st in self.base.states.iter() {
                    v.push((st.name.clone(), st.ty));
                }
                v.extend(self.base.inputs.iter().cloned());
            }
        }
        v
    }
    fn slot_ty(&self, slot: &Slot) -> Ty {
        match slot {
            Slot::Init(i) | Slot::Next(i) => self.base.states[*i].ty,
            Slot::Bad(_) | Slot::Constraint(_) => Ty::Bv(1),
            Slot::Output(_) => Ty::Bv(2),
        }
    }
    /// extend every pool with generated terms (after the hand-ranked ones)
    pub fn with_generated(mut self, widths: &[u32], arrays: &[(u32, u32)], divrem: bool) -> Skeleton {
        let slots = self.slots.clone();
        for (k, (slot, pool)) in slots.iter().enumerate() {
            let allowed = self.allowed_for(slot);
            let mut p = pool.clone();
            let gen_ty = self.slot_ty(slot);
            for t in generated_pool(gen_ty, &allowed, widths, arrays, divrem) {
                if !p.contains(&Some(t.clone())) {
                    p.push(Some(t));
                }
            }
            // init pools additionally get the bare literals
            if let (Slot::Init(_), Ty::Bv(w)) = (slot, gen_ty) {
                for lit in lit_reduced(w) {
                    if !p.contains(&Some(T::Lit(lit.clone()))) {
                        p.push(Some(T::Lit(lit)));
                    }
                }
            }
            self.slots[k].1 = p;
        }
        self
    }

    pub fn default_spec(&self) -> SysSpec {
        self.base.clone()
    }

    /// S1: every slot takes every pool element while all others keep their default
    pub fn s1(&self) -> Vec<SysSpec> {
        let mut out = vec![self.base.clone()];
        for (slot, pool) in self.slots.iter() {
            for v in pool.iter() {
                let mut sp = self.base.clone();
                set_slot(&mut sp, slot, v);
                sp.name = format!("{}-s1", self.name);
                if !out.contains(&sp) {
                    out.push(sp);
                }
            }
        }
        out
    }

    /// S2: all pairs of slots x the first `n` elements of each pool
    pub fn s2(&self, n: usize) -> Vec<SysSpec> {
        let mut out = vec![];
        for i in 0..self.slots.len() {
            for j in (i + 1)..self.slots.len() {
                for a in self.slots[i].1.iter().take(n) {
                    for c in self.slots[j].1.iter().take(n) {
                        let mut sp = self.base.clone();
                        // set the later slot first so that removing list entries does not shift indices
                        set_slot(&mut sp, &self.slots[j].0, c);
                        set_slot(&mut sp, &self.slots[i].0, a);
                        sp.name = format!("{}-s2", self.name);
                        out.push(sp);
                    }
                }
            }
        }
        out
    }

    /// S3: the full product over the first `n` elements of every pool
    pub fn s3(&self, n: usize) -> Vec<SysSpec> {
        let pools: Vec<Vec<SlotVal>> = self.slots.iter().map(|(_, p)| p.iter().take(n).cloned().collect()).collect();
        let mut out = vec![];
        for combo in product(&pools) {
            let mut sp = self.base.clone();
            for ((slot, _), v) in self.slots.iter().zip(combo.iter()).rev() {
                set_slot(&mut sp, slot, v);
            }
            sp.name = format!("{}-s3", self.name);
            out.push(sp);
        }
        out
    }
}

/// the seven skeletons of the design (symbols are named after `terms::sym_name`, so that the
/// generated pools range over exactly the skeleton's symbols)
pub fn skeletons() -> Vec<Skeleton> {
    let mut v = vec![];
    // K1: one bv2 state a2 (counter with enable), one bv2 input b2
    {
        let a = || s("a2", 2);
        let i = || s("b2", 2);
        let inc = || b(Bin::Add, a(), b(Bin::And, i(), l(2, 1)));
        let base = SysSpec {
            name: "K1".into(),
            inputs: vec![("b2".into(), Ty::Bv(2))],
            states: vec![StateSpec { name: "a2".into(), ty: Ty::Bv(2), init: Some(l(2, 0)), next: Some(inc()) }],
            outputs: vec![],
            bads: vec![b(Bin::Eq, a(), l(2, 3))],
            constraints: vec![],
        };
        let slots = vec![
            (Slot::Init(0), vec![Some(l(2, 0)), Some(l(2, 1)), None, Some(l(2, 3))]),
            (
                Slot::Next(0),
                vec![
                    Some(inc()),
                    Some(b(Bin::Add, a(), l(2, 1))),
                    Some(a()),
                    None,
                    Some(T::ite(b(Bin::Eq, i(), l(2, 3)), l(2, 0), b(Bin::Add, a(), l(2, 1)))),
                    Some(i()),
                    Some(b(Bin::Sub, a(), i())),
                    Some(b(Bin::Xor, a(), i())),
                ],
            ),
            (
                Slot::Bad(0),
                vec![
                    Some(b(Bin::Eq, a(), l(2, 3))),
                    Some(b(Bin::Eq, a(), l(2, 2))),
                    Some(b(Bin::And, b(Bin::Eq, a(), l(2, 2)), b(Bin::Eq, i(), l(2, 1)))),
                    Some(fls()),
                    Some(tru()),
                    Some(b(Bin::Eq, inc(), l(2, 0))), // shares a sub-expression with next
                    Some(b(Bin::Ugt, a(), i())),
                ],
            ),
            (
                Slot::Bad(1),
                vec![None, Some(b(Bin::Eq, a(), l(2, 1))), Some(b(Bin::Eq, a(), l(2, 3))), Some(b(Bin::Eq, i(), l(2, 2))), Some(fls())],
            ),
            (
                Slot::Constraint(0),
                vec![
                    None,
                    Some(T::not(b(Bin::Eq, i(), l(2, 3)))),
                    Some(b(Bin::Eq, i(), l(2, 1))),
                    Some(b(Bin::Ugt, l(2, 3), a())), // a < 3: states that dead-end
                    Some(b(Bin::Eq, i(), l(2, 2))),
                    Some(tru()),
                    Some(fls()),
                    Some(b(Bin::Eq, a(), i())),
                ],
            ),
            (Slot::Output(0), vec![None, Some(inc()), Some(b(Bin::Add, a(), i()))]),
        ];
        v.push(Skeleton { name: "K1", base, slots });
    }
    // K2: bv1 state a1 (toggle under enable), bv2 state a2 (counts while a1), bv1 input b1
    {
        let t = || s("a1", 1);
        let c = || s("a2", 2);
        let e = || s("b1", 1);
        let base = SysSpec {
            name: "K2".into(),
            inputs: vec![("b1".into(), Ty::Bv(1))],
            states: vec![
                StateSpec { name: "a1".into(), ty: Ty::Bv(1), init: Some(l(1, 0)), next: Some(b(Bin::Xor, t(), e())) },
                StateSpec { name: "a2".into(), ty: Ty::Bv(2), init: Some(l(2, 0)), next: Some(T::ite(t(), b(Bin::Add, c(), l(2, 1)), c())) },
            ],
            outputs: vec![],
            bads: vec![b(Bin::Eq, c(), l(2, 3))],
            constraints: vec![],
        };
        let slots = vec![
            (Slot::Init(0), vec![Some(l(1, 0)), Some(l(1, 1)), None]),
            (Slot::Init(1), vec![Some(l(2, 0)), None, Some(T::ZExt(1, Box::new(t()))), Some(l(2, 2))]),
            (Slot::Next(0), vec![Some(b(Bin::Xor, t(), e())), Some(T::not(t())), Some(e()), Some(t()), None]),
            (
                Slot::Next(1),
                vec![
                    Some(T::ite(t(), b(Bin::Add, c(), l(2, 1)), c())),
                    Some(b(Bin::Add, c(), T::ZExt(1, Box::new(e())))),
                    Some(c()),
                    None,
                    Some(b(Bin::Concat, t(), e())),
                ],
            ),
            (
                Slot::Bad(0),
                vec![
                    Some(b(Bin::Eq, c(), l(2, 3))),
                    Some(b(Bin::And, t(), b(Bin::Eq, c(), l(2, 2)))),
                    Some(t()),
                    Some(e()),
                    Some(fls()),
                    Some(tru()),
                ],
            ),
            (Slot::Bad(1), vec![None, Some(b(Bin::Eq, c(), l(2, 1))), Some(b(Bin::And, t(), e()))]),
            (Slot::Constraint(0), vec![None, Some(e()), Some(T::not(e())), Some(b(Bin::Implies, t(), e())), Some(b(Bin::Ugt, l(2, 2), c())), Some(fls())]),
        ];
        v.push(Skeleton { name: "K2", base, slots });
    }
    // K3: array state m1_2 (1 -> 2), pointer state a1, inputs b1 (write enable), b2 (data)
    {
        let m = || T::sym("m1_2", Ty::Arr(1, 2));
        let p = || s("a1", 1);
        let w = || s("b1", 1);
        let d = || s("b2", 2);
        let zero_arr = || T::AConst(1, Box::new(l(2, 0)));
        let wr = || T::ite(w(), T::Store(Box::new(m()), Box::new(p()), Box::new(d())), m());
        let rd = |i: u64| T::Read(Box::new(m()), Box::new(l(1, i)));
        let base = SysSpec {
            name: "K3".into(),
            inputs: vec![("b1".into(), Ty::Bv(1)), ("b2".into(), Ty::Bv(2))],
            states: vec![
                StateSpec { name: "m1_2".into(), ty: Ty::Arr(1, 2), init: Some(zero_arr()), next: Some(wr()) },
                StateSpec { name: "a1".into(), ty: Ty::Bv(1), init: Some(l(1, 0)), next: Some(T::not(p())) },
            ],
            outputs: vec![],
            bads: vec![b(Bin::Eq, rd(1), l(2, 3))],
            constraints: vec![],
        };
        let slots = vec![
            (Slot::Init(0), vec![Some(zero_arr()), None, Some(T::AConst(1, Box::new(l(2, 3)))), Some(T::Store(Box::new(zero_arr()), Box::new(l(1, 1)), Box::new(l(2, 2))))]),
            (Slot::Init(1), vec![Some(l(1, 0)), Some(l(1, 1)), None]),
            (
                Slot::Next(0),
                vec![
                    Some(wr()),
                    Some(T::Store(Box::new(m()), Box::new(p()), Box::new(d()))),
                    Some(m()),
                    None,
                    Some(T::Store(Box::new(m()), Box::new(w()), Box::new(b(Bin::Add, rd(0), l(2, 1))))),
                ],
            ),
            (Slot::Next(1), vec![Some(T::not(p())), Some(p()), Some(w()), None, Some(b(Bin::Xor, p(), w()))]),
            (
                Slot::Bad(0),
                vec![
                    Some(b(Bin::Eq, rd(1), l(2, 3))),
                    Some(b(Bin::Eq, rd(0), rd(1))),
                    Some(b(Bin::Eq, T::Read(Box::new(m()), Box::new(p())), l(2, 2))),
                    Some(b(Bin::Eq, m(), T::AConst(1, Box::new(l(2, 1))))),
                    Some(fls()),
                    Some(T::not(b(Bin::Eq, m(), zero_arr()))),
                ],
            ),
            (Slot::Constraint(0), vec![None, Some(b(Bin::Implies, w(), b(Bin::Eq, d(), l(2, 1)))), Some(T::not(b(Bin::Eq, d(), l(2, 3)))), Some(w())]),
        ];
        v.push(Skeleton { name: "K3", base, slots });
    }
    // K4: no state
    {
        let i = || s("a2", 2);
        let base = SysSpec {
            name: "K4".into(),
            inputs: vec![("a2".into(), Ty::Bv(2)), ("b2".into(), Ty::Bv(2))],
            states: vec![],
            outputs: vec![],
            bads: vec![b(Bin::Eq, i(), l(2, 3))],
            constraints: vec![],
        };
        let slots = vec![
            (Slot::Bad(0), vec![Some(b(Bin::Eq, i(), l(2, 3))), Some(b(Bin::Ugt, i(), s("b2", 2))), Some(fls()), Some(tru()), Some(b(Bin::Eq, b(Bin::Add, i(), s("b2", 2)), l(2, 0)))]),
            (Slot::Bad(1), vec![None, Some(b(Bin::Eq, i(), l(2, 0)))]),
            (Slot::Constraint(0), vec![None, Some(b(Bin::Ugt, l(2, 3), i())), Some(b(Bin::Eq, i(), s("b2", 2))), Some(fls())]),
            (Slot::Constraint(1), vec![None, Some(b(Bin::Ugt, i(), l(2, 1)))]),
        ];
        v.push(Skeleton { name: "K4", base, slots });
    }
    // K5: next-less state a2 (init 0), init-less state b2 (counts), constant state c2 (next = itself, no init)
    {
        let n = || s("a2", 2);
        let u = || s("b2", 2);
        let c = || s("c2", 2);
        let e = || s("a1", 1);
        let base = SysSpec {
            name: "K5".into(),
            inputs: vec![("a1".into(), Ty::Bv(1))],
            states: vec![
                StateSpec { name: "a2".into(), ty: Ty::Bv(2), init: Some(l(2, 0)), next: None },
                StateSpec { name: "b2".into(), ty: Ty::Bv(2), init: None, next: Some(b(Bin::Add, u(), T::ZExt(1, Box::new(e())))) },
                StateSpec { name: "c2".into(), ty: Ty::Bv(2), init: None, next: Some(c()) },
            ],
            outputs: vec![],
            bads: vec![b(Bin::And, b(Bin::Eq, u(), l(2, 3)), b(Bin::Eq, c(), l(2, 1)))],
            constraints: vec![],
        };
        let slots = vec![
            (Slot::Init(0), vec![Some(l(2, 0)), None, Some(l(2, 2))]),
            (Slot::Init(1), vec![None, Some(l(2, 0)), Some(n())]),
            (Slot::Init(2), vec![None, Some(l(2, 1)), Some(b(Bin::Add, n(), u()))]),
            (Slot::Next(0), vec![None, Some(n()), Some(b(Bin::Add, n(), l(2, 1)))]),
            (Slot::Next(1), vec![Some(b(Bin::Add, u(), T::ZExt(1, Box::new(e())))), Some(b(Bin::Add, u(), c())), None, Some(u())]),
            (Slot::Next(2), vec![Some(c()), None, Some(b(Bin::Add, c(), l(2, 1)))]),
            (
                Slot::Bad(0),
                vec![
                    Some(b(Bin::And, b(Bin::Eq, u(), l(2, 3)), b(Bin::Eq, c(), l(2, 1)))),
                    Some(b(Bin::Eq, b(Bin::Add, n(), c()), l(2, 3))),
                    Some(b(Bin::Eq, n(), l(2, 1))),
                    Some(b(Bin::Ugt, u(), c())),
                    Some(fls()),
                ],
            ),
            (Slot::Constraint(0), vec![None, Some(b(Bin::Eq, u(), l(2, 0))), Some(b(Bin::Ugt, l(2, 2), c())), Some(b(Bin::Eq, n(), l(2, 0))), Some(e())]),
        ];
        v.push(Skeleton { name: "K5", base, slots });
    }
    // K6: a symbol that is at once state, output and bad root; a bare input as constraint
    {
        let f = || s("a1", 1);
        let g = || s("b1", 1);
        let i = || s("c1", 1);
        let base = SysSpec {
            name: "K6".into(),
            inputs: vec![("c1".into(), Ty::Bv(1))],
            states: vec![
                StateSpec { name: "a1".into(), ty: Ty::Bv(1), init: Some(l(1, 0)), next: Some(b(Bin::Or, f(), b(Bin::And, g(), i()))) },
                StateSpec { name: "b1".into(), ty: Ty::Bv(1), init: Some(l(1, 0)), next: Some(b(Bin::Or, g(), i())) },
            ],
            outputs: vec![("o_a1".into(), f())],
            bads: vec![f()],
            constraints: vec![],
        };
        let slots = vec![
            (Slot::Init(0), vec![Some(l(1, 0)), None, Some(l(1, 1))]),
            (Slot::Init(1), vec![Some(l(1, 0)), None, Some(f()), Some(T::not(f()))]),
            (Slot::Next(0), vec![Some(b(Bin::Or, f(), b(Bin::And, g(), i()))), Some(g()), Some(f()), None, Some(b(Bin::And, g(), i()))]),
            (Slot::Next(1), vec![Some(b(Bin::Or, g(), i())), Some(i()), Some(T::not(g())), None]),
            (Slot::Bad(0), vec![Some(f()), Some(i()), Some(b(Bin::And, f(), g())), Some(b(Bin::And, g(), i())), Some(fls()), Some(tru())]),
            (Slot::Bad(1), vec![None, Some(g()), Some(f())]),
            (Slot::Constraint(0), vec![None, Some(i()), Some(T::not(i())), Some(f()), Some(b(Bin::Implies, g(), T::not(i())))]),
        ];
        v.push(Skeleton { name: "K6", base, slots });
    }
    // K7: init of a later state reads an earlier state, with a sub-expression used several times
    {
        let x = || s("a2", 2);
        let y = || s("b2", 2);
        let i = || s("c2", 2);
        let sh = || b(Bin::And, x(), l(2, 2));
        let base = SysSpec {
            name: "K7".into(),
            inputs: vec![("c2".into(), Ty::Bv(2))],
            states: vec![
                StateSpec { name: "a2".into(), ty: Ty::Bv(2), init: None, next: Some(x()) },
                StateSpec { name: "b2".into(), ty: Ty::Bv(2), init: Some(b(Bin::Add, sh(), sh())), next: Some(b(Bin::Add, y(), b(Bin::And, i(), l(2, 1)))) },
            ],
            outputs: vec![],
            bads: vec![b(Bin::And, b(Bin::Eq, y(), l(2, 2)), b(Bin::Eq, x(), l(2, 1)))],
            constraints: vec![],
        };
        let slots = vec![
            (Slot::Init(0), vec![None, Some(l(2, 1)), Some(l(2, 2))]),
            (
                Slot::Init(1),
                vec![
                    Some(b(Bin::Add, sh(), sh())),
                    Some(b(Bin::Add, x(), l(2, 1))),
                    Some(x()),
                    Some(b(Bin::Xor, sh(), T::not(sh()))),
                    Some(l(2, 0)),
                    None,
                ],
            ),
            (Slot::Next(0), vec![Some(x()), Some(b(Bin::Add, x(), l(2, 1))), None, Some(sh())]),
            (
                Slot::Next(1),
                vec![
                    Some(b(Bin::Add, y(), b(Bin::And, i(), l(2, 1)))),
                    Some(b(Bin::Add, y(), sh())), // shares `sh` with the init of b2
                    Some(y()),
                    None,
                ],
            ),
            (
                Slot::Bad(0),
                vec![
                    Some(b(Bin::And, b(Bin::Eq, y(), l(2, 2)), b(Bin::Eq, x(), l(2, 1)))),
                    Some(b(Bin::Eq, y(), l(2, 3))),
                    Some(b(Bin::Eq, b(Bin::Add, sh(), sh()), y())),
                    Some(b(Bin::Eq, sh(), l(2, 2))),
                    Some(fls()),
                ],
            ),
            (Slot::Constraint(0), vec![None, Some(T::not(b(Bin::Eq, i(), l(2, 3)))), Some(b(Bin::Eq, sh(), l(2, 0))), Some(b(Bin::Ugt, l(2, 3), y()))]),
        ];
        v.push(Skeleton { name: "K7", base, slots });
    }
    v
}

/// Hand-built combinations that the deviation-bounded sweeps reach only at deviation 3: systems
/// whose constraints create dead ends (states all of whose successors violate a constraint), with
/// bad states before, at and after the dead end.
pub fn dead_end_extras() -> Vec<SysSpec> {
    let mut out = vec![];
    let k1 = skeleton("K1");
    let a = || s("a2", 2);
    let i = || s("b2", 2);
    let nexts = [b(Bin::Add, a(), l(2, 1)), b(Bin::Add, a(), b(Bin::And, i(), l(2, 1))), T::ite(b(Bin::Eq, i(), l(2, 0)), a(), b(Bin::Add, a(), l(2, 1)))];
    let cons = [b(Bin::Ugt, l(2, 3), a()), b(Bin::Ugt, l(2, 2), a()), T::not(b(Bin::Eq, a(), l(2, 3))), b(Bin::Implies, b(Bin::Eq, a(), l(2, 2)), b(Bin::Eq, i(), l(2, 1)))];
    let bads = [b(Bin::Eq, a(), l(2, 2)), b(Bin::Eq, a(), l(2, 1)), b(Bin::And, b(Bin::Eq, a(), l(2, 2)), b(Bin::Eq, i(), l(2, 1))), b(Bin::Eq, a(), l(2, 3))];
    for n in nexts.iter() {
        for c in cons.iter() {
            for bd in bads.iter() {
                let mut sp = k1.base.clone();
                sp.states[0].next = Some(n.clone());
                sp.constraints = vec![c.clone()];
                sp.bads = vec![bd.clone()];
                sp.name = "K1-deadend".into();
                out.push(sp);
            }
        }
    }
    // two-state variant: the toggle decides whether the counter may move; the constraint kills the
    // state after the bad one
    let k2 = skeleton("K2");
    let t = || s("a1", 1);
    let c = || s("a2", 2);
    for con in [b(Bin::Ugt, l(2, 2), c()), b(Bin::Implies, t(), b(Bin::Ugt, l(2, 2), c()))] {
        for bd in [b(Bin::Eq, c(), l(2, 1)), b(Bin::And, t(), b(Bin::Eq, c(), l(2, 1)))] {
            let mut sp = k2.base.clone();
            sp.states[0].next = Some(T::not(t()));
            sp.states[1].next = Some(b(Bin::Add, c(), T::ZExt(1, Box::new(t()))));
            sp.constraints = vec![con.clone()];
            sp.bads = vec![bd.clone()];
            sp.name = "K2-deadend".into();
            out.push(sp);
        }
    }
    out
}

/// Hand-built structural corner cases that the one-slot sweeps do not reach (each needs two or three
/// coordinated slots): init and next of a state being the very same non-constant node, systems in which
/// every state lacks a next function, constant states with an init value, inputs read only by init
/// expressions, free (init-less and next-less) states feeding a counter. Names start with `X`.
/// systems whose init expressions read inputs (s0 = init(i0), coupled with the input of step 0)
pub const INIT_INPUT_EXTRAS: bool = true;

pub fn corner_extras() -> Vec<SysSpec> {
    let st = |n: &str, w: u32, init: Option<T>, next: Option<T>| StateSpec { name: n.into(), ty: Ty::Bv(w), init, next };
    let mk = |name: &str, inputs: Vec<(&str, u32)>, states: Vec<StateSpec>, bads: Vec<T>, constraints: Vec<T>| SysSpec {
        name: name.into(),
        inputs: inputs.into_iter().map(|(n, w)| (n.to_string(), Ty::Bv(w))).collect(),
        states,
        outputs: vec![],
        bads,
        constraints,
    };
    let a = || s("a2", 2);
    let bb = || s("b2", 2);
    let c = || s("c2", 2);
    let e = || s("a1", 1);
    let f = || s("b1", 1);
    let inc = |t: T| b(Bin::Add, t, l(2, 1));
    let mut out = vec![];
    // delayed copy: init and next of b2 are the same node, which is not constant over time
    out.push(mk("X-delaycopy", vec![], vec![st("a2", 2, Some(l(2, 0)), Some(inc(a()))), st("b2", 2, Some(a()), Some(a()))], vec![b(Bin::Eq, bb(), l(2, 2))], vec![]));
    out.push(mk("X-delaycopy", vec![], vec![st("a2", 2, Some(l(2, 0)), Some(inc(a()))), st("b2", 2, Some(inc(a())), Some(inc(a())))], vec![b(Bin::Eq, bb(), l(2, 3))], vec![]));
    out.push(mk(
        "X-delaycopy",
        vec![("b1", 1)],
        vec![st("a2", 2, Some(l(2, 0)), Some(b(Bin::Add, a(), T::ZExt(1, Box::new(f()))))), st("b2", 2, Some(a()), Some(a())), st("c2", 2, Some(bb()), Some(bb()))],
        vec![b(Bin::Eq, c(), l(2, 1))],
        vec![],
    ));
    // every state lacks a next function (free after step 0), one has an init that excludes bad at step 0
    out.push(mk("X-armed", vec![("b1", 1)], vec![st("a1", 1, Some(l(1, 0)), None)], vec![b(Bin::And, e(), f())], vec![]));
    out.push(mk("X-armed", vec![("b1", 1)], vec![st("a1", 1, Some(l(1, 0)), None), st("a2", 2, None, None)], vec![b(Bin::And, e(), b(Bin::Eq, a(), l(2, 3)))], vec![f()]));
    out.push(mk("X-armed", vec![], vec![st("a2", 2, Some(l(2, 1)), None)], vec![b(Bin::Eq, a(), l(2, 2))], vec![T::not(b(Bin::Eq, a(), l(2, 3)))]));
    // constant state (next = itself) with an init value, added to a counter
    out.push(mk("X-constinit", vec![], vec![st("c2", 2, Some(l(2, 1)), Some(c())), st("a2", 2, Some(l(2, 0)), Some(b(Bin::Add, a(), c())))], vec![b(Bin::Eq, a(), l(2, 3))], vec![]));
    out.push(mk("X-constinit", vec![("b1", 1)], vec![st("c2", 2, Some(l(2, 3)), Some(c())), st("a2", 2, Some(c()), Some(b(Bin::Sub, a(), T::ZExt(1, Box::new(f())))))], vec![b(Bin::Eq, a(), l(2, 1))], vec![]));
    // constant state without init shared by an init expression and the bad state
    out.push(mk("X-constfree", vec![], vec![st("c2", 2, None, Some(c())), st("a2", 2, Some(c()), Some(inc(a())))], vec![b(Bin::And, b(Bin::Eq, a(), l(2, 0)), b(Bin::Eq, c(), l(2, 2)))], vec![]));
    // inputs read by init expressions: also by next / by nothing else
    if INIT_INPUT_EXTRAS { out.push(mk("X-initinput", vec![("b2", 2)], vec![st("a2", 2, Some(bb()), Some(b(Bin::Add, a(), bb())))], vec![b(Bin::Eq, a(), l(2, 3))], vec![])); }
    if INIT_INPUT_EXTRAS { out.push(mk("X-initinput", vec![("b2", 2)], vec![st("a2", 2, Some(b(Bin::And, bb(), l(2, 1))), Some(inc(a())))], vec![b(Bin::Eq, a(), l(2, 3))], vec![])); }
    if INIT_INPUT_EXTRAS { out.push(mk("X-initinput", vec![("b2", 2), ("b1", 1)], vec![st("a2", 2, Some(bb()), Some(inc(a())))], vec![b(Bin::Eq, a(), l(2, 2))], vec![T::not(b(Bin::Eq, bb(), l(2, 2))), f()])); }
    // two init cones sharing an input / a multiply-used term / an earlier init-less state
    {
        let sh = || b(Bin::And, bb(), l(2, 2));
        out.push(mk("X-initshare", vec![("b2", 2)], vec![st("a2", 2, Some(bb()), Some(inc(a()))), st("c2", 2, Some(bb()), Some(c()))], vec![b(Bin::And, b(Bin::Eq, a(), l(2, 3)), b(Bin::Eq, c(), l(2, 1)))], vec![]));
        out.push(mk("X-initshare", vec![("b2", 2)], vec![st("a2", 2, Some(sh()), Some(inc(a()))), st("c2", 2, Some(b(Bin::Add, sh(), l(2, 1))), Some(c()))], vec![b(Bin::Eq, b(Bin::Add, a(), c()), l(2, 1))], vec![]));
        let sx = || b(Bin::Xor, s("d2", 2), l(2, 1));
        out.push(mk(
            "X-initshare",
            vec![],
            vec![st("d2", 2, None, Some(s("d2", 2))), st("a2", 2, Some(sx()), Some(inc(a()))), st("c2", 2, Some(b(Bin::Add, sx(), sx())), Some(c()))],
            vec![b(Bin::And, b(Bin::Eq, a(), l(2, 2)), b(Bin::Eq, c(), l(2, 0)))],
            vec![],
        ));
    }
    // a free state (neither init nor next) feeding a counter
    out.push(mk("X-freefeed", vec![], vec![st("a2", 2, None, None), st("b2", 2, Some(l(2, 0)), Some(b(Bin::Add, bb(), a())))], vec![b(Bin::Eq, bb(), l(2, 3))], vec![b(Bin::Ugt, l(2, 2), a())]));
    // labelled roots as the btor2 reader leaves them: an input that is directly an output / a bad state / a
    // constraint carries that line's label as its name in `sys.names`
    let g = || s("c1", 1);
    out.push(mk("X-alias-labelled", vec![("b1", 1), ("c1", 1), ("b2", 2)], vec![st("a1", 1, Some(l(1, 0)), Some(b(Bin::Or, e(), f())))], vec![b(Bin::And, e(), b(Bin::Eq, bb(), l(2, 2)))], vec![g()]));
    out.push(mk("X-alias-labelled", vec![("b1", 1), ("c1", 1)], vec![st("a2", 2, Some(l(2, 0)), Some(b(Bin::Add, a(), T::ZExt(1, Box::new(f())))))], vec![g(), b(Bin::Eq, a(), l(2, 2))], vec![T::not(b(Bin::And, g(), f()))]));
    {
        let mut sp = mk("X-alias-labelled", vec![("b1", 1), ("b2", 2)], vec![st("a2", 2, Some(l(2, 0)), Some(b(Bin::Add, a(), bb())))], vec![b(Bin::And, f(), b(Bin::Eq, a(), l(2, 3)))], vec![]);
        sp.outputs = vec![("en_o".into(), f()), ("data_o".into(), bb()), ("sum_o".into(), b(Bin::Add, a(), bb()))];
        out.push(sp);
    }
    // independent parts: a constraint over a part the bad state does not depend on ends every execution before
    // the bad state is reached; an input that reaches a constraint only through a register and is outside
    // the cone of the bad state; a bad state over inputs only, tied to a state by a constraint
    out.push(mk(
        "X-indep",
        vec![],
        vec![st("a2", 2, Some(l(2, 0)), Some(inc(a()))), st("b2", 2, Some(l(2, 0)), Some(inc(bb())))],
        vec![b(Bin::Eq, a(), l(2, 3))],
        vec![T::not(b(Bin::Eq, bb(), l(2, 2)))],
    ));
    out.push(mk(
        "X-indep",
        vec![("b1", 1)],
        vec![st("a2", 2, Some(l(2, 0)), Some(inc(a()))), st("a1", 1, Some(l(1, 1)), Some(f()))],
        vec![b(Bin::Eq, a(), l(2, 2))],
        vec![e()],
    ));
    out.push(mk(
        "X-indep",
        vec![("b1", 1), ("c2", 2)],
        vec![st("a2", 2, Some(l(2, 0)), Some(b(Bin::Add, a(), T::ZExt(1, Box::new(f()))))), st("b2", 2, Some(l(2, 1)), Some(c()))],
        vec![b(Bin::Eq, a(), l(2, 2))],
        vec![T::not(b(Bin::Eq, bb(), l(2, 0)))],
    ));
    out.push(mk("X-inputbad", vec![("b2", 2)], vec![st("a2", 2, Some(l(2, 0)), Some(inc(a())))], vec![b(Bin::Eq, bb(), l(2, 2))], vec![b(Bin::Eq, bb(), a())]));
    out.push(mk("X-inputbad", vec![("b2", 2)], vec![st("a2", 2, Some(l(2, 0)), Some(inc(a())))], vec![b(Bin::Eq, bb(), l(2, 3)), b(Bin::Eq, bb(), l(2, 1))], vec![b(Bin::Eq, bb(), a())]));
    // deep counterexamples: two-digit step numbers (names `x@10`, frame numbers, loop bounds)
    {
        let a4 = || s("a4", 4);
        out.push(mk("X-deep", vec![], vec![st("a4", 4, Some(l(4, 0)), Some(b(Bin::Add, a4(), l(4, 1))))], vec![b(Bin::Eq, a4(), l(4, 11))], vec![]));
        out.push(mk(
            "X-deep",
            vec![("b1", 1)],
            vec![st("a4", 4, Some(l(4, 0)), Some(b(Bin::Add, a4(), T::ZExt(3, Box::new(f())))))],
            vec![b(Bin::And, b(Bin::Eq, a4(), l(4, 10)), f())],
            vec![b(Bin::Implies, b(Bin::Ugt, l(4, 4), a4()), f())],
        ));
    }
    // a bad state that is at once a constraint root; a bad state that is a bare state symbol of width 1
    out.push(mk("X-rootshare", vec![("b1", 1)], vec![st("a1", 1, Some(l(1, 0)), Some(b(Bin::Or, e(), f())))], vec![e(), b(Bin::And, e(), f())], vec![T::not(b(Bin::And, e(), f()))]));
    // a bad state that is the literal false (as written, or as left behind by simplification) in front of / between
    // bad states that do fail: the indices of the failed properties must not shift
    out.push(mk("X-falsebad", vec![("b1", 1)], vec![st("a2", 2, Some(l(2, 0)), Some(b(Bin::Add, a(), T::ZExt(1, Box::new(f())))))], vec![l(1, 0), b(Bin::Eq, a(), l(2, 2))], vec![]));
    out.push(mk("X-falsebad", vec![], vec![st("a2", 2, Some(l(2, 0)), Some(inc(a())))], vec![b(Bin::Eq, a(), l(2, 3)), l(1, 0), b(Bin::Ugt, a(), l(2, 1))], vec![]));
    out.push(mk("X-falsebad", vec![("b1", 1)], vec![st("a2", 2, Some(l(2, 0)), Some(inc(a())))], vec![b(Bin::And, f(), T::not(f())), l(1, 0), b(Bin::And, f(), b(Bin::Eq, a(), l(2, 1)))], vec![]));
    // a constant register (next = itself) with an init value that guards the way to the bad state: under the
    // OTHER value of the constant the bad state would be reachable; a reachable state continues towards bad only then
    {
        let cc = || s("c1", 1);
        let x = || s("a2", 2);
        let cst = |init: u64| StateSpec { name: "c1".into(), ty: Ty::Bv(1), init: Some(l(1, init)), next: Some(cc()) };
        let walk = |guard: T| T::ite(b(Bin::Eq, x(), l(2, 0)), l(2, 1), T::ite(b(Bin::Eq, x(), l(2, 1)), T::ite(guard, l(2, 2), l(2, 1)), x()));
        // guard closed (safe), guard open (unsafe at depth 2), guard closed with a longer approach
        out.push(SysSpec { name: "X-constguard".into(), inputs: vec![], states: vec![cst(0), st("a2", 2, Some(l(2, 0)), Some(walk(cc())))], outputs: vec![], bads: vec![b(Bin::Eq, x(), l(2, 2))], constraints: vec![] });
        out.push(SysSpec { name: "X-constguard".into(), inputs: vec![], states: vec![cst(1), st("a2", 2, Some(l(2, 0)), Some(walk(cc())))], outputs: vec![], bads: vec![b(Bin::Eq, x(), l(2, 2))], constraints: vec![] });
        out.push(SysSpec { name: "X-constguard".into(), inputs: vec![("b1".into(), Ty::Bv(1))], states: vec![st("a2", 2, Some(l(2, 0)), Some(walk(b(Bin::And, cc(), f())))), cst(0)], outputs: vec![], bads: vec![b(Bin::Eq, x(), l(2, 2))], constraints: vec![] });
        out.push(SysSpec { name: "X-constguard".into(), inputs: vec![], states: vec![cst(1), st("a2", 2, Some(l(2, 0)), Some(walk(T::not(cc()))))], outputs: vec![], bads: vec![b(Bin::Eq, x(), l(2, 2))], constraints: vec![] });
    }
    // irregular transition structure: a 16-state lookup table over two registers (3 bits + 1 bit, the table indexed
    // by their concatenation), bad states 8 steps deep and unreachable ones; index rotations of one table
    {
        let table: [u64; 16] = [4, 5, 5, 6, 3, 15, 10, 12, 15, 13, 8, 12, 9, 15, 0, 11];
        let a3 = || s("a3", 3);
        let b1 = || s("c1", 1);
        let idx = || b(Bin::Concat, b1(), a3());
        for (rot, bad) in [(0usize, 12u64), (0, 7), (3, 12), (5, 2), (0, 14)] {
            let mut lookup = l(4, table[(15 + rot) % 16]);
            for k in (0..15).rev() {
                lookup = T::ite(b(Bin::Eq, idx(), l(4, k as u64)), l(4, table[(k + rot) % 16]), lookup);
            }
            out.push(SysSpec {
                name: "X-table".into(),
                inputs: vec![],
                states: vec![
                    StateSpec { name: "a3".into(), ty: Ty::Bv(3), init: Some(l(3, 0)), next: Some(T::Slice(2, 0, Box::new(lookup.clone()))) },
                    StateSpec { name: "c1".into(), ty: Ty::Bv(1), init: Some(l(1, 0)), next: Some(T::Slice(3, 3, Box::new(lookup))) },
                ],
                outputs: vec![],
                bads: vec![b(Bin::Eq, idx(), l(4, bad))],
                constraints: vec![],
            });
        }
    }
    // sign extension of a 1-bit operand (a Bool in the solver's terms) that decides where the state goes:
    // decrement when the input is set; the sign bits of a wider register
    out.push(mk("X-sext1", vec![("b1", 1)], vec![st("a2", 2, Some(l(2, 0)), Some(b(Bin::Add, a(), T::SExt(1, Box::new(f())))))], vec![b(Bin::Eq, a(), l(2, 3))], vec![]));
    out.push(mk("X-sext1", vec![("b1", 1)], vec![st("a2", 2, Some(l(2, 0)), Some(b(Bin::Add, a(), T::SExt(1, Box::new(f())))))], vec![b(Bin::Eq, a(), l(2, 2))], vec![]));
    out.push(mk("X-sext1", vec![("b1", 1)], vec![st("a2", 2, Some(l(2, 1)), Some(b(Bin::Xor, a(), T::SExt(1, Box::new(T::Slice(1, 1, Box::new(a())))))))], vec![b(Bin::Eq, T::SExt(1, Box::new(b(Bin::And, f(), T::Slice(0, 0, Box::new(a()))))), l(2, 3))], vec![]));
    // a constraint that is the literal false (alone, after a satisfiable one, as `x and not x`): the system has no
    // execution at all, whatever the bad states say
    out.push(mk("X-falseconstraint", vec![("b1", 1)], vec![st("a2", 2, Some(l(2, 0)), Some(inc(a())))], vec![b(Bin::Eq, a(), l(2, 1))], vec![l(1, 0)]));
    out.push(mk("X-falseconstraint", vec![("b1", 1)], vec![st("a2", 2, Some(l(2, 0)), Some(inc(a())))], vec![b(Bin::Eq, a(), l(2, 0)), f()], vec![l(1, 1), l(1, 0)]));
    out.push(mk("X-falseconstraint", vec![("b1", 1)], vec![st("a2", 2, Some(l(2, 0)), Some(inc(a())))], vec![b(Bin::Eq, a(), l(2, 2))], vec![b(Bin::And, f(), T::not(f()))]));
    // a memory (index width != data width) that is cleared to a NON-literal fill value (an input / a changing
    // state): the constant array is rebuilt whenever its fill expression is rewritten (step renaming, simplification)
    {
        let m = || T::Sym("m1_2".into(), Ty::Arr(1, 2));
        let d = || s("b2", 2);
        let clr = || s("b1", 1);
        let cnt = || s("a2", 2);
        let at1 = || T::Read(Box::new(m()), Box::new(l(1, 1)));
        for (fill, init) in [(d(), Some(T::AConst(1, Box::new(l(2, 0))))), (cnt(), None), (b(Bin::Add, d(), cnt()), Some(T::AConst(1, Box::new(l(2, 1)))))] {
            out.push(SysSpec {
                name: "X-constarr".into(),
                inputs: vec![("b1".into(), Ty::Bv(1)), ("b2".into(), Ty::Bv(2))],
                states: vec![
                    StateSpec { name: "a2".into(), ty: Ty::Bv(2), init: Some(l(2, 0)), next: Some(inc(cnt())) },
                    StateSpec { name: "m1_2".into(), ty: Ty::Arr(1, 2), init, next: Some(T::ite(clr(), T::AConst(1, Box::new(fill.clone())), T::Store(Box::new(m()), Box::new(l(1, 1)), Box::new(d())))) },
                ],
                outputs: vec![],
                bads: vec![b(Bin::Eq, at1(), l(2, 3)), b(Bin::Eq, T::AConst(1, Box::new(fill)), m())],
                constraints: vec![],
            });
        }
    }
    // the same shapes without entries in the system's name table (see SysSpec::build)
    let unnamed: Vec<SysSpec> = out
        .iter()
        .enumerate()
        .filter(|(i, sp)| i % 3 == 0 && !sp.name.contains("labelled"))
        .map(|(_, sp)| {
            let mut c = sp.clone();
            c.name = format!("{}-unnamed", sp.name);
            c
        })
        .collect();
    out.extend(unnamed);
    // and built into a context that is already populated (see SysSpec::build)
    let offs = offset_variants(&out, 0, 3);
    let revs = revsyms_variants(&out, 0, 4);
    out.extend(offs);
    out.extend(revs);
    out
}

/// copies whose symbols are created in reverse declaration order (see SysSpec::build)
pub fn revsyms_variants(specs: &[SysSpec], n_first: usize, stride: usize) -> Vec<SysSpec> {
    specs
        .iter()
        .enumerate()
        .filter(|(i, sp)| (*i < n_first || i % stride == 2) && !sp.name.contains("offset") && sp.inputs.len() + sp.states.len() >= 2)
        .map(|(_, sp)| {
            let mut c = sp.clone();
            c.name = format!("{}-revsyms", sp.name);
            c
        })
        .collect()
}

/// copies built at an offset in the context (see SysSpec::build): the first `n_first` and every `stride`-th of
/// the others, rotating through the three offsets
pub fn offset_variants(specs: &[SysSpec], n_first: usize, stride: usize) -> Vec<SysSpec> {
    specs
        .iter()
        .enumerate()
        .filter(|(i, sp)| (*i < n_first || i % stride == 1) && !sp.name.contains("offset"))
        .map(|(i, sp)| {
            let mut c = sp.clone();
            c.name = format!("{}-offset{}", sp.name, [58, 122, 65530][i % 3]);
            c
        })
        .collect()
}

pub fn skeleton(name: &str) -> Skeleton {
    skeletons().into_iter().find(|k| k.name == name).unwrap_or_else(|| panic!("no skeleton {name}"))
}

/// pool widths / arrays used for pool generation per skeleton
pub fn skeleton_generated(name: &str, divrem: bool) -> Skeleton {
    let k = skeleton(name);
    match name {
        "K3" => k.with_generated(&[1, 2], &[(1, 2)], divrem),
        "K6" => k.with_generated(&[1], &[], divrem),
        _ => k.with_generated(&[1, 2], &[], divrem),
    }
}

#[allow(dead_code)]
fn _keep(_: Bv) {}
