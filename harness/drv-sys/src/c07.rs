//! C07 — the simulator executes exactly the transition-system semantics.
//!
//! Explicit-state, breadth-first search over operation histories of the real
//! `patronus::sim::Interpreter`, in lock step with a reference simulator written here on top of
//! `pvcore::tsref::Ts` / `pvcore::evalref::eval_ref`.

use crate::common::*;
use baa::BitVecOps;
use patronus::expr::{Context, ExprRef};
use patronus::sim::{InitKind, Interpreter, Simulator};
use patronus::system::TransitionSystem;
use pvcore::bv::{Bv, Val};
use pvcore::evalref::*;
use pvcore::run::*;
use pvcore::sysgen::*;
use pvcore::terms::*;
use pvcore::tsref::Ts;
use rayon::prelude::*;
use rustc_hash::{FxHashMap, FxHashSet};
use serde_json::{Value, json};
use std::sync::atomic::{AtomicBool, AtomicU64, Ordering};

pub const C07_SKELETONS: [&str; 5] = ["K1", "K2", "K3", "K5", "K7"];

// ------------------------------------------------------------------ operations

#[derive(Clone, Debug, PartialEq, Eq)]
pub enum Op {
    /// None = InitKind::Zero, Some(seed) = InitKind::Random(seed)
    Init(Option<u64>),
    Set(usize, Bv),
    Step,
    Snap,
    Restore(u32),
}

impl Op {
    pub fn kind(&self) -> String {
        match self {
            Op::Init(None) => "init-zero".into(),
            Op::Init(Some(_)) => "init-random".into(),
            Op::Set(..) => "set".into(),
            Op::Step => "step".into(),
            Op::Snap => "snap".into(),
            Op::Restore(_) => "restore".into(),
        }
    }
    pub fn to_text(&self) -> String {
        match self {
            Op::Init(None) => "init:zero".into(),
            Op::Init(Some(s)) => format!("init:random:{s}"),
            Op::Set(j, v) => format!("set:{j}:{}:{}", v.w, v.v),
            Op::Step => "step".into(),
            Op::Snap => "snap".into(),
            Op::Restore(i) => format!("restore:{i}"),
        }
    }
    pub fn from_text(s: &str) -> Result<Op, String> {
        let p: Vec<&str> = s.split(':').collect();
        match p.as_slice() {
            ["init", "zero"] => Ok(Op::Init(None)),
            ["init", "random", x] => Ok(Op::Init(Some(x.parse::<u64>().map_err(|e| e.to_string())?))),
            ["set", j, w, v] => Ok(Op::Set(
                j.parse::<usize>().map_err(|e| e.to_string())?,
                Bv::new(w.parse::<u32>().map_err(|e| e.to_string())?, v.parse::<num_bigint::BigUint>().map_err(|e| e.to_string())?),
            )),
            ["step"] => Ok(Op::Step),
            ["snap"] => Ok(Op::Snap),
            ["restore", i] => Ok(Op::Restore(i.parse::<u32>().map_err(|e| e.to_string())?)),
            _ => Err(format!("bad op {s}")),
        }
    }
}

pub fn hist_text(h: &[Op]) -> String {
    h.iter().map(|o| o.to_text()).collect::<Vec<_>>().join(" ")
}

/// a history is admissible iff it starts with an init, sets only existing bit-vector inputs and
/// restores only snapshots taken earlier
pub fn admissible(h: &[Op], n_inputs: usize) -> bool {
    if !matches!(h.first(), Some(Op::Init(_))) {
        return false;
    }
    let mut snaps = 0u32;
    for o in h {
        match o {
            Op::Snap => snaps += 1,
            Op::Restore(i) if *i >= snaps => return false,
            Op::Set(j, _) if *j >= n_inputs => return false,
            _ => {}
        }
    }
    true
}

// ------------------------------------------------------------------ system under simulation

pub struct Sx {
    pub ctx: Context,
    pub sys: TransitionSystem,
    pub inputs: Vec<ExprRef>,
    pub obs: Vec<Obs>,
    pub state_obs: Vec<usize>,
    pub input_obs: Vec<usize>,
    pub state_tys: Vec<Ty>,
    pub input_tys: Vec<Ty>,
    pub key: String,
}

impl Sx {
    pub fn new(spec: &SysSpec) -> Sx {
        let mut ctx = Context::default();
        let b = spec.build(&mut ctx);
        let obs = observables(&ctx, &b.sys, true);
        let find = |e: ExprRef| obs.iter().position(|o| o.e == e).unwrap();
        let state_obs = b.sys.states.iter().map(|s| find(s.symbol)).collect();
        let input_obs = b.sys.inputs.iter().map(|s| find(*s)).collect();
        let state_tys = b.sys.states.iter().map(|s| ty_of(&ctx, s.symbol)).collect();
        let input_tys = b.sys.inputs.iter().map(|s| ty_of(&ctx, *s)).collect();
        Sx { key: spec_key(spec), ctx, inputs: b.inputs, sys: b.sys, obs, state_obs, input_obs, state_tys, input_tys }
    }

    /// `set` alphabet of input j: all values up to width 2, else {0, 1, ones}
    pub fn set_values(&self, j: usize) -> Vec<Bv> {
        match self.input_tys[j] {
            Ty::Bv(w) if w <= 2 => all_values(w),
            Ty::Bv(w) => vec![Bv::zero(w), Bv::one(w), Bv::ones(w)],
            Ty::Arr(..) => vec![], // `set` takes bit-vector values only
        }
    }
}

// ------------------------------------------------------------------ reference model

#[derive(Clone, Debug, PartialEq)]
pub struct Model {
    pub states: Vec<Val>,
    pub inputs: Vec<Val>,
    /// ordered (ids are positional): (state values, input values) at snapshot time
    pub snaps: Vec<(Vec<Val>, Vec<Val>)>,
}

fn vkey(v: &[Val]) -> String {
    v.iter().map(|x| x.key()).collect::<Vec<_>>().join(";")
}

impl Model {
    pub fn key(&self) -> String {
        let mut s = format!("S{}|I{}", vkey(&self.states), vkey(&self.inputs));
        for (a, b) in self.snaps.iter() {
            s += &format!("|<{}/{}>", vkey(a), vkey(b));
        }
        s
    }
}

fn zero_of(t: Ty) -> Val {
    match t {
        Ty::Bv(w) => Val::B(Bv::zero(w)),
        Ty::Arr(i, d) => Val::A(pvcore::bv::Arr::constant(i, &Bv::zero(d))),
    }
}

fn val_has_type(v: &Val, t: Ty) -> bool {
    match (v, t) {
        (Val::B(b), Ty::Bv(w)) => b.w == w && b.is_canonical(),
        (Val::A(a), Ty::Arr(i, d)) => a.iw == i && a.dw == d,
        _ => false,
    }
}

#[derive(Clone, Debug)]
pub struct Fail {
    /// value | panic|<file> | noncanonical | restore-inputs | continuation | nondeterministic | type
    pub class: String,
    pub pos: usize,
    pub obs: Option<usize>,
    pub what: String,
}

pub struct RunOk {
    pub model: Model,
    /// hash of the full read vector after each operation
    pub read_hashes: Vec<u64>,
    pub ops: u64,
    pub reads: u64,
    pub continuation_compares: u64,
}

fn reads_hash(r: &[Val]) -> u64 {
    hash64(&vkey(r))
}

/// Execute `hist` on a fresh real Interpreter in lock step with the reference model; all
/// observables are read and compared after every operation. `expect` = read hashes recorded by an
/// earlier run of a prefix of this history (seed-/replay-determinism).
pub fn run_full(sx: &Sx, hist: &[Op], expect: Option<&[u64]>) -> Result<RunOk, Fail> {
    assert!(admissible(hist, sx.inputs.len()), "inadmissible history {}", hist_text(hist));
    let ts = Ts::new(&sx.ctx, &sx.sys);
    let mut sim = match catch(|| Interpreter::new(&sx.ctx, &sx.sys)) {
        Ok(s) => s,
        Err(p) => return Err(Fail { class: format!("panic|{}", p.file()), pos: 0, obs: None, what: format!("Interpreter::new panicked: {} ({})", p.msg, p.short_loc()) }),
    };
    let mut model = Model { states: vec![], inputs: vec![], snaps: vec![] };
    let mut all_reads: Vec<Vec<Val>> = Vec::with_capacity(hist.len());
    let mut inputs_at: Vec<Vec<Val>> = Vec::with_capacity(hist.len());
    let mut snap_pos: Vec<usize> = vec![];
    let mut snap_ids: Vec<u32> = vec![];
    // active continuation comparisons: (snapshot position p, restore position q)
    let mut trackers: Vec<(usize, usize)> = vec![];
    let mut out = RunOk { model: model.clone(), read_hashes: vec![], ops: 0, reads: 0, continuation_compares: 0 };

    for (pos, op) in hist.iter().enumerate() {
        // ---- the real object
        let mut snap_id: Option<u32> = None;
        let r = catch(|| match op {
            Op::Init(None) => sim.init(InitKind::Zero),
            Op::Init(Some(s)) => sim.init(InitKind::Random(*s)),
            Op::Set(j, v) => sim.set(sx.inputs[*j], &bv_to_baa(v)),
            Op::Step => sim.step(),
            Op::Snap => snap_id = Some(sim.take_snapshot()),
            Op::Restore(i) => sim.restore_snapshot(snap_ids[*i as usize]),
        });
        out.ops += 1;
        if let Err(p) = r {
            return Err(Fail { class: format!("panic|{}", p.file()), pos, obs: None, what: format!("{} panicked: {} ({})", op.to_text(), p.msg, p.short_loc()) });
        }
        if let Some(id) = snap_id {
            // histories name snapshots by position; the simulator's own id is what is handed back
            snap_ids.push(id);
        }
        // ---- read everything
        let mut reads: Vec<Val> = Vec::with_capacity(sx.obs.len());
        for (k, o) in sx.obs.iter().enumerate() {
            let v = match catch(|| sim.get(o.e)) {
                Ok(v) => v,
                Err(p) => return Err(Fail { class: format!("panic|{}", p.file()), pos, obs: Some(k), what: format!("get({}) panicked: {} ({})", show_expr(&sx.ctx, o.e), p.msg, p.short_loc()) }),
            };
            if let baa::Value::BitVec(b) = &v {
                let raw = Bv::from_words(b.width(), b.words());
                if !raw.is_canonical() {
                    return Err(Fail { class: "noncanonical".into(), pos, obs: Some(k), what: format!("get({}) returned words {:?} for width {}", show_expr(&sx.ctx, o.e), b.words(), b.width()) });
                }
            }
            let val = baa_to_val(&v);
            if !val_has_type(&val, ty_of(&sx.ctx, o.e)) {
                return Err(Fail { class: "type".into(), pos, obs: Some(k), what: format!("get({}) returned {} which is not a value of the expression's type", show_expr(&sx.ctx, o.e), val.show()) });
            }
            reads.push(val);
        }
        out.reads += reads.len() as u64;
        let seen_state = |k: usize| reads[sx.state_obs[k]].clone();
        let seen_input = |j: usize| reads[sx.input_obs[j]].clone();
        // ---- the reference model
        match op {
            Op::Init(kind) => {
                let mut st: Vec<Val> = vec![];
                for (k, s) in sx.sys.states.iter().enumerate() {
                    let v = match s.init {
                        Some(init) => {
                            // an init expression reads earlier states only
                            let mut env = Env::default();
                            for (s2, v) in sx.sys.states.iter().zip(st.iter()) {
                                env.insert(s2.symbol, v.clone());
                            }
                            eval_ref(&sx.ctx, init, &env)
                        }
                        None => match kind {
                            None => zero_of(sx.state_tys[k]),
                            Some(_) => seen_state(k), // adopted: seed-determined
                        },
                    };
                    st.push(v);
                }
                model.states = st;
                model.inputs = (0..sx.inputs.len())
                    .map(|j| match kind {
                        None => zero_of(sx.input_tys[j]),
                        Some(_) => seen_input(j), // adopted
                    })
                    .collect();
            }
            Op::Set(j, v) => model.inputs[*j] = Val::B(v.clone()),
            Op::Step => {
                let det = ts.step_det(&model.states, &model.inputs);
                model.states = det
                    .into_iter()
                    .enumerate()
                    .map(|(k, d)| match d {
                        Some(v) => v,
                        None => seen_state(k), // next-less state: any value is legal, adopted
                    })
                    .collect();
            }
            Op::Snap => {
                model.snaps.push((model.states.clone(), model.inputs.clone()));
                snap_pos.push(pos);
            }
            Op::Restore(i) => {
                let (s_st, s_in) = model.snaps[*i as usize].clone();
                model.states = s_st;
                let seen: Vec<Val> = (0..sx.inputs.len()).map(seen_input).collect();
                if seen != model.inputs && seen != s_in {
                    return Err(Fail {
                        class: "restore-inputs".into(),
                        pos,
                        obs: None,
                        what: format!("after restore_snapshot({i}) the inputs read [{}], neither the values before the restore [{}] nor those at snapshot time [{}]", vkey(&seen), vkey(&model.inputs), vkey(&s_in)),
                    });
                }
                model.inputs = seen;
            }
        }
        // ---- compare every observable
        let env = ts.env(&model.states, &model.inputs);
        let mut memo: FxHashMap<ExprRef, Val> = FxHashMap::default();
        for (k, o) in sx.obs.iter().enumerate() {
            let exp = eval_ref_memo(&sx.ctx, o.e, &env, &mut memo);
            if exp != reads[k] {
                return Err(Fail {
                    class: "value".into(),
                    pos,
                    obs: Some(k),
                    what: format!(
                        "after `{}` get({} {}: {}) = {} but the semantics gives {} (states [{}] inputs [{}])",
                        hist_text(&hist[..=pos]),
                        o.kind,
                        o.index,
                        show_expr(&sx.ctx, o.e),
                        reads[k].show(),
                        exp.show(),
                        vkey(&model.states),
                        vkey(&model.inputs)
                    ),
                });
            }
        }
        // ---- continuation after a restore equals the continuation recorded the first time
        if let Op::Restore(i) = op {
            // a restore starts a new continuation; the ones started by earlier restores end here (the state
            // they were following is gone)
            trackers.clear();
            let p = snap_pos[*i as usize];
            if model.inputs == inputs_at[p] {
                out.continuation_compares += 1;
                if let Some(k) = (0..reads.len()).find(|k| reads[*k] != all_reads[p][*k]) {
                    return Err(Fail { class: "continuation".into(), pos, obs: Some(k), what: format!("after `{}` the read of {} is {} but it was {} right after the snapshot was taken", hist_text(&hist[..=pos]), show_expr(&sx.ctx, sx.obs[k].e), reads[k].show(), all_reads[p][k].show()) });
                }
                trackers.push((p, pos));
            }
        } else {
            let mut keep = vec![];
            for (p, q) in trackers.drain(..) {
                let i = pos - q;
                if p + i < q && hist[p + i] == *op {
                    out.continuation_compares += 1;
                    if let Some(k) = (0..reads.len()).find(|k| reads[*k] != all_reads[p + i][*k]) {
                        return Err(Fail {
                            class: "continuation".into(),
                            pos,
                            obs: Some(k),
                            what: format!("after `{}` the read of {} is {} but the same operations from the snapshot point gave {} the first time", hist_text(&hist[..=pos]), show_expr(&sx.ctx, sx.obs[k].e), reads[k].show(), all_reads[p + i][k].show()),
                        });
                    }
                    keep.push((p, q));
                }
            }
            trackers = keep;
        }
        // ---- determinism against the recorded run of the prefix
        let h = reads_hash(&reads);
        if let Some(exp) = expect
            && pos < exp.len()
            && exp[pos] != h
        {
            return Err(Fail { class: "nondeterministic".into(), pos, obs: None, what: format!("two fresh interpreters given `{}` show different reads", hist_text(&hist[..=pos])) });
        }
        out.read_hashes.push(h);
        inputs_at.push(model.inputs.clone());
        all_reads.push(reads);
    }
    out.model = model;
    Ok(out)
}

// ------------------------------------------------------------------ search

struct Node {
    hist: Vec<Op>,
    model: Model,
    hashes: Vec<u64>,
}

#[derive(Default)]
pub struct Stats {
    pub states: u64,
    pub transitions: u64,
    pub histories: u64,
    pub ops: u64,
    pub reads: u64,
    pub probes: u64,
    pub determinism_reruns: u64,
    pub continuation: u64,
    pub adopt_random: u64,
    pub restores_after_change: u64,
    pub capped: bool,
    pub failing_histories: u64,
    pub per_depth: Vec<u64>,
    /// hashes of (system, reference key) of search states that are not the all-zero start
    pub nontrivial: Vec<u64>,
}

fn all_zero(sx: &Sx, m: &Model) -> bool {
    m.states.iter().zip(sx.state_tys.iter()).all(|(v, t)| *v == zero_of(*t)) && m.inputs.iter().zip(sx.input_tys.iter()).all(|(v, t)| *v == zero_of(*t))
}

fn alphabet(sx: &Sx, n_snaps: usize) -> Vec<Op> {
    let mut a = vec![Op::Init(None), Op::Init(Some(0)), Op::Init(Some(1))];
    for j in 0..sx.inputs.len() {
        for v in sx.set_values(j) {
            a.push(Op::Set(j, v));
        }
    }
    a.push(Op::Step);
    a.push(Op::Snap);
    for i in 0..n_snaps {
        a.push(Op::Restore(i as u32));
    }
    a
}

/// Breadth-first search to `depth` operations. A failing history is recorded (the first one per
/// failure tag, in BFS order) and not expanded; the search goes on with the other histories.
pub fn search(sx: &Sx, depth: usize, budget: &Budget, stats: &mut Stats) -> Vec<(Vec<Op>, Fail)> {
    let mut seen: FxHashSet<String> = FxHashSet::default();
    let mut frontier: Vec<Node> = vec![];
    let mut fails: Vec<(Vec<Op>, Fail)> = vec![];
    let mut tags: FxHashSet<String> = FxHashSet::default();
    stats.per_depth = vec![0; depth + 1];
    let account = |r: &RunOk, stats: &mut Stats| {
        stats.histories += 1;
        stats.ops += r.ops;
        stats.reads += r.reads;
        stats.continuation += r.continuation_compares;
    };
    let mut failed = |h: Vec<Op>, f: Fail, stats: &mut Stats| {
        stats.histories += 1;
        stats.failing_histories += 1;
        if tags.insert(fail_tag(sx, &f)) && fails.len() < 12 {
            fails.push((h, f));
        }
    };
    for op in [Op::Init(None), Op::Init(Some(0)), Op::Init(Some(1))] {
        let h = vec![op];
        stats.transitions += 1;
        match run_full(sx, &h, None) {
            Err(f) => failed(h, f, stats),
            Ok(r) => {
                account(&r, stats);
                let key = r.model.key();
                if seen.insert(key.clone()) {
                    if !all_zero(sx, &r.model) {
                        stats.nontrivial.push(hash64(&format!("{}#{}", sx.key, key)));
                    }
                    frontier.push(Node { hist: h, model: r.model, hashes: r.read_hashes });
                }
            }
        }
    }
    stats.per_depth[1] = frontier.len() as u64;
    'levels: for d in 2..=depth {
        let mut next: Vec<Node> = vec![];
        for node in frontier.iter() {
            if budget.exceeded() {
                stats.capped = true;
                break 'levels;
            }
            for op in alphabet(sx, node.model.snaps.len()) {
                let mut h = node.hist.clone();
                h.push(op.clone());
                stats.transitions += 1;
                let r = match run_full(sx, &h, Some(&node.hashes)) {
                    Err(f) => {
                        failed(h, f, stats);
                        continue;
                    }
                    Ok(r) => r,
                };
                account(&r, stats);
                if let Op::Restore(i) = &op
                    && (node.model.states != node.model.snaps[*i as usize].0)
                {
                    stats.restores_after_change += 1;
                }
                if let Op::Init(Some(_)) = &op {
                    stats.adopt_random += 1;
                }
                let key = r.model.key();
                let kept = seen.insert(key.clone());
                if kept && !all_zero(sx, &r.model) {
                    stats.nontrivial.push(hash64(&format!("{}#{}", sx.key, key)));
                }
                let leaf = d == depth;
                if !kept || leaf {
                    // the part of the real object that reads cannot see (snapshot contents) is
                    // made visible before this history is merged or left unexpanded
                    for i in 0..r.model.snaps.len() {
                        let mut hp = h.clone();
                        hp.push(Op::Restore(i as u32));
                        match run_full(sx, &hp, Some(&r.read_hashes)) {
                            Err(f) => failed(hp.clone(), f, stats),
                            Ok(rp) => {
                                account(&rp, stats);
                                stats.probes += 1;
                            }
                        }
                        // ... and the restored state must behave like the original one: one step from it
                        // (hidden per-object state that a restore fails to reset shows here)
                        hp.push(Op::Step);
                        match run_full(sx, &hp, Some(&r.read_hashes)) {
                            Err(f) => failed(hp, f, stats),
                            Ok(rp) => {
                                account(&rp, stats);
                                stats.probes += 1;
                            }
                        }
                    }
                    // leaves without a probe get an explicit second fresh run when a seed is involved
                    if leaf && r.model.snaps.is_empty() && h.iter().any(|o| matches!(o, Op::Init(Some(_)))) {
                        match run_full(sx, &h, Some(&r.read_hashes)) {
                            Err(f) => failed(h.clone(), f, stats),
                            Ok(r2) => {
                                account(&r2, stats);
                                stats.determinism_reruns += 1;
                            }
                        }
                    }
                }
                if kept && !leaf {
                    next.push(Node { hist: h, model: r.model, hashes: r.read_hashes });
                } else if kept {
                    stats.per_depth[d] += 1;
                }
            }
        }
        if d < depth {
            stats.per_depth[d] = next.len() as u64;
        }
        frontier = next;
    }
    stats.states = seen.len() as u64;
    fails
}

// ------------------------------------------------------------------ shrinking and reporting

fn fail_tag(sx: &Sx, f: &Fail) -> String {
    match f.obs {
        Some(k) => format!("{}|{}:{}", f.class, sx.obs[k].kind, expr_op_name(&sx.ctx, sx.obs[k].e)),
        None => f.class.clone(),
    }
}

fn remove_op(h: &[Op], i: usize) -> Option<Vec<Op>> {
    let mut out = vec![];
    // index of the snapshot taken by h[i], if it is a Snap
    let snap_idx = if h[i] == Op::Snap { Some(h[..i].iter().filter(|o| **o == Op::Snap).count() as u32) } else { None };
    for (k, o) in h.iter().enumerate() {
        if k == i {
            continue;
        }
        match (o, snap_idx) {
            (Op::Restore(j), Some(s)) if k > i => {
                if *j == s {
                    return None;
                } else if *j > s {
                    out.push(Op::Restore(*j - 1));
                } else {
                    out.push(o.clone());
                }
            }
            _ => out.push(o.clone()),
        }
    }
    Some(out)
}

pub fn shrink_history(sx: &Sx, hist: &[Op], tag: &str) -> Vec<Op> {
    // cut behind the failing position first
    let mut cur = hist.to_vec();
    if let Err(f) = run_full(sx, &cur, None) {
        cur.truncate(f.pos + 1);
    }
    loop {
        let mut changed = false;
        let mut i = cur.len();
        while i > 0 {
            i -= 1;
            if cur.len() <= 1 {
                break;
            }
            if let Some(c) = remove_op(&cur, i)
                && admissible(&c, sx.inputs.len())
                && let Err(f) = run_full(sx, &c, None)
                && fail_tag(sx, &f) == tag
            {
                cur = c;
                cur.truncate(f.pos + 1);
                changed = true;
                i = i.min(cur.len());
            }
        }
        if !changed {
            break;
        }
    }
    cur
}

/// minimise the system (roots dropped, functions removed, terms replaced by sub-terms) while the
/// same failure remains under the given history; the input list is kept (set(j, v) is positional)
fn shrink_system(spec: &SysSpec, hist: &[Op], tag_of: &dyn Fn(&Sx, &Fail) -> String, tag: &str) -> SysSpec {
    let still = |c: &SysSpec| -> bool {
        if c.inputs != spec.inputs {
            return false;
        }
        let sx = Sx::new(c);
        if !admissible(hist, sx.inputs.len()) {
            return false;
        }
        match run_full(&sx, hist, None) {
            Err(f) => tag_of(&sx, &f) == tag,
            Ok(_) => false,
        }
    };
    shrink_spec(spec, &still)
}

pub fn report(spec: &SysSpec, hist: &[Op], order: u64, rep: &Report) {
    let sx = Sx::new(spec);
    let f = match run_full(&sx, hist, None) {
        Err(f) => f,
        Ok(_) => {
            // only a determinism failure can disappear on a single re-run
            rep.violation(Violation {
                sig: format!("C07|nondeterministic|{}|-|{}", skeleton_of(spec), hist.iter().map(|o| o.kind()).collect::<Vec<_>>().join(",")),
                what: format!("two fresh interpreters given `{}` showed different reads", hist_text(hist)),
                case: json!({"system": spec.to_json(), "history": hist.iter().map(|o| o.to_text()).collect::<Vec<_>>()}),
                order,
            });
            return;
        }
    };
    let tag = fail_tag(&sx, &f);
    let min_h = shrink_history(&sx, hist, &tag);
    // the tag of a value failure names the role of the observable; roles shift when roots are
    // dropped, so the system is shrunk on the class and the operator of the observable
    let loose = |sx: &Sx, f: &Fail| match f.obs {
        Some(k) => format!("{}|{}", f.class, expr_op_name(&sx.ctx, sx.obs[k].e)),
        None => f.class.clone(),
    };
    let loose_tag = loose(&sx, &f);
    let min_spec = shrink_system(spec, &min_h, &loose, &loose_tag);
    // the smaller system may allow a shorter history
    let min_h = {
        let sxm = Sx::new(&min_spec);
        match run_full(&sxm, &min_h, None) {
            Err(fm) => shrink_history(&sxm, &min_h, &fail_tag(&sxm, &fm)),
            Ok(_) => min_h,
        }
    };
    let sx2 = Sx::new(&min_spec);
    let (min_spec, sx2, f2) = match run_full(&sx2, &min_h, None) {
        Err(f2) => (min_spec, sx2, f2),
        Ok(_) => {
            let f = run_full(&sx, &min_h, None).err().unwrap_or(f);
            (spec.clone(), Sx::new(spec), f)
        }
    };
    let (obs_txt, w) = match f2.obs {
        Some(k) => {
            let o = &sx2.obs[k];
            (format!("{}:{}", o.kind, expr_op_name(&sx2.ctx, o.e)), ty_width(ty_of(&sx2.ctx, o.e)))
        }
        None => ("-".to_string(), 0),
    };
    let ops = min_h.iter().map(|o| o.kind()).collect::<Vec<_>>().join(",");
    let sig = format!("C07|{}|{}|{}|{};{}", f2.class, skeleton_of(spec), if w == 0 { "-" } else { wclass(w) }, ops, obs_txt);
    rep.violation(Violation {
        sig,
        what: format!("[{}] {}", sys_class(spec), f2.what),
        case: json!({
            "system": min_spec.to_json(),
            "history": min_h.iter().map(|o| o.to_text()).collect::<Vec<_>>(),
            "found_in": {"system": spec.to_json(), "history": hist.iter().map(|o| o.to_text()).collect::<Vec<_>>()},
        }),
        order,
    });
}

// ------------------------------------------------------------------ driver

pub fn meta(rep: &mut Report) {
    rep.rule = "breadth-first search over operation histories (init Zero / Random(0) / Random(1), set(input, v) for all values up to width 2 else {0,1,ones}, step, take_snapshot, restore_snapshot(id) for every id taken so far) of the real patronus::sim::Interpreter on the S1 sweep of skeletons K1,K2,K3,K5,K7 (quick: first 8 pool elements, thorough: full pools) plus hand-built swap/delay/count2/delayin/shadow memories and a 130-bit delay line; depth 6 (quick) / 7 (thorough) operations plus a closing probe of every snapshot (restore, read everything; then one step, read everything) on every history that is merged or left unexpanded; a fresh Interpreter replays every history, every sub-expression of the system is read with get after every operation and compared with a reference simulator on pvcore::tsref/eval_ref; search states are merged on (reference state values, reference input values, ordered snapshot contents). evaluations = histories executed on a fresh real Interpreter; distinct_nontrivial = distinct (system, reference key) search states in which at least one state or input value differs from the all-zero start (the simulator had to compute or store something)".into();
    rep.assumptions = vec![
        "every history starts with init (get/set/step before init have no values by design); set only on bit-vector inputs; init expressions read earlier states only".into(),
        "values of init-less states and of inputs after init(Random), of next-less states after step and of inputs after restore are adopted from the simulator (unspecified by the property); inputs after restore must be the pre-restore or the snapshot-time inputs".into(),
        "div/rem operators are excluded (patronus' evaluator has them as todo!())".into(),
        "step_count() is not observed".into(),
    ];
}

/// a 130-bit delay line: values with bits above the first word are overwritten by values that fit in one
/// word and the other way round (init all ones, `set` of 0 / 1 / ones, step)
fn wide_system() -> SysSpec {
    let w = 130;
    let s = |n: &str| T::sym(n, Ty::Bv(w));
    SysSpec {
        name: "wide".into(),
        inputs: vec![("d".into(), Ty::Bv(w))],
        states: vec![
            StateSpec { name: "r0".into(), ty: Ty::Bv(w), init: Some(T::not(T::lit(w, 0))), next: Some(s("d")) },
            StateSpec { name: "r1".into(), ty: Ty::Bv(w), init: Some(T::lit(w, 5)), next: Some(s("r0")) },
        ],
        outputs: vec![("sum".into(), T::bin(Bin::Add, s("r0"), s("r1")))],
        bads: vec![],
        constraints: vec![],
    }
}

pub fn systems(tier: Tier) -> Vec<SysSpec> {
    let mut out = hand_systems(8);
    out.push(wide_system());
    let mut seen: FxHashSet<String> = out.iter().map(spec_key).collect();
    for name in C07_SKELETONS {
        let k = skeleton_generated(name, false);
        let k = if tier.is_thorough() { k } else { restricted(&k, 8) };
        for sp in k.s1() {
            if seen.insert(spec_key(&sp)) {
                out.push(sp);
            }
        }
    }
    let n_hand = hand_systems(8).len() + 1;
    out.extend(unnamed_variants(&out, n_hand, 11));
    let offs = offset_variants(&out, n_hand, 13);
    let revs = revsyms_variants(&out, n_hand, 11);
    out.extend(offs);
    out.extend(revs);
    out
}

pub fn run(opts: &Opts, rep: &Report) {
    let tier = tier_of(opts);
    let depth = if tier.is_thorough() { 7 } else { 6 };
    // memories too wide to tabulate, observed through a read port (c07_bigmem)
    crate::c07_bigmem::run(rep, tier.is_thorough());
    let budget = Budget::new(opts.budget_s);
    let specs = systems(tier);
    rep.add("systems", specs.len() as u64);
    rep.note("depth", json!(depth));
    let capped = AtomicBool::new(false);
    let skipped = AtomicU64::new(0);
    let failing: Collector<(SysSpec, Vec<Op>)> = Collector::default();
    // oracle-side vacuity evidence
    let saw_nextless = specs.iter().any(|s| s.states.iter().any(|st| st.next.is_none()));
    let saw_initless = specs.iter().any(|s| s.states.iter().any(|st| st.init.is_none()));
    let saw_array = specs.iter().any(|s| s.has_arrays());
    let saw_init_reads_state = specs.iter().any(|s| s.states.iter().any(|st| st.init.as_ref().map(|t| !t.symbols().is_empty()).unwrap_or(false)));
    if !(saw_nextless && saw_initless && saw_array && saw_init_reads_state) {
        eprintln!("C07 vacuity guard: the system family lacks next-less / init-less / array states or init expressions reading earlier states");
        std::process::exit(2);
    }
    specs.par_iter().enumerate().for_each(|(idx, spec)| {
        if budget.exceeded() {
            capped.store(true, Ordering::Relaxed);
            skipped.fetch_add(1, Ordering::Relaxed);
            return;
        }
        let sx = Sx::new(spec);
        let mut st = Stats::default();
        let res = search(&sx, depth, &budget, &mut st);
        rep.add("evaluations", st.histories);
        rep.add("states", st.states);
        rep.add("transitions", st.transitions);
        rep.add("traces_validated_against_impl", st.histories);
        rep.add("operations_executed", st.ops);
        rep.add("reads_compared", st.reads);
        rep.add("restore_probes", st.probes);
        rep.add("determinism_reruns", st.determinism_reruns);
        rep.add("continuation_compares", st.continuation);
        rep.add("init_random_transitions", st.adopt_random);
        rep.add("restores_into_changed_state", st.restores_after_change);
        rep.add(&format!("states:{}", spec.name.split('-').next().unwrap_or("")), st.states);
        rep.max("max_states_per_system", st.states);
        if st.capped {
            capped.store(true, Ordering::Relaxed);
        }
        rep.add("failing_histories", st.failing_histories);
        if !res.is_empty() {
            rep.add("systems_failing", 1);
        }
        for (n, (h, _f)) in res.iter().enumerate() {
            failing.offer(&format!("{}|{}", skeleton_of(spec), fail_tag(&sx, _f)), (idx * 16 + n) as u64, || (spec.clone(), h.clone()));
        }
        if !st.capped {
            rep.add("systems_completed", 1);
        }
        if idx % 97 == 0 {
            rep.sample(json!({"system": spec.to_json(), "depth": depth, "states": st.states, "transitions": st.transitions, "states_per_depth": st.per_depth}));
        }
        rep.distinct_hashes(&st.nontrivial);
    });
    let failing = failing.drain();
    failing.par_iter().for_each(|(order, (spec, h))| report(spec, h, *order, rep));
    if capped.load(Ordering::Relaxed) {
        rep.cap_hit(&format!("wall budget {}s: {} systems not started, others stopped mid-search", opts.budget_s, skipped.load(Ordering::Relaxed)));
    }
    // vacuity (oracle side): the search must have taken restores into changed states and random inits
    if rep.n_violations() == 0 && (rep.get("restores_into_changed_state") == 0 || rep.get("init_random_transitions") == 0 || rep.get("continuation_compares") == 0) {
        eprintln!("C07 vacuity guard: no restore into a changed state / no random init / no continuation comparison was explored");
        std::process::exit(2);
    }
}

pub fn replay(case: &Value, rep: &Report) {
    if case["kind"] == "bigmem" {
        crate::c07_bigmem::run(rep, false);
        return;
    }
    let spec = SysSpec::from_json(&case["system"]).expect("system");
    let hist: Vec<Op> = case["history"].as_array().expect("history").iter().map(|o| Op::from_text(o.as_str().unwrap()).expect("op")).collect();
    let sx = Sx::new(&spec);
    if !admissible(&hist, sx.inputs.len()) {
        eprintln!("inadmissible history in replay file");
        std::process::exit(2);
    }
    // twice: the second run checks determinism against the first
    let first = run_full(&sx, &hist, None);
    let failed = match first {
        Err(_) => true,
        Ok(r) => run_full(&sx, &hist, Some(&r.read_hashes)).is_err(),
    };
    if failed {
        report(&spec, &hist, 0, rep);
    }
}
