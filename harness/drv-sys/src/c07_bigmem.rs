//! C07 (wide memories) — array states whose index space cannot be tabulated (index widths 17, 20, 33).
//!
//! The explicit-state search of c07.rs tabulates every array value; here the memory is observed only through
//! reads: a memory `mem : bv<iw> -> bv<dw>` with `mem' = ite(we, mem[waddr := wdata], mem)`, a read port
//! `rd = mem[raddr]` and a register `last' = rd`. Histories: init (Zero / Random(0) / Random(1)) followed by every
//! sequence of up to `depth` operations over {write(a, d), idle step} with addresses from {0, 1, max} and data from
//! {1, max}; after every operation every address of the alphabet is read through the read port. Reference: a map
//! from address to data over the address alphabet; the contents an init-less memory starts with under Random are
//! adopted from the first reads (unspecified by the property) - but the TYPE of everything the simulator returns is
//! checked (element width, index width of the memory value itself), and a memory with an init expression must
//! start from it under every init kind.

use patronus::expr::{Context, ExprRef, TypeCheck};
use patronus::sim::{InitKind, Interpreter, Simulator};
use patronus::system::{State, TransitionSystem};
use pvcore::bv::Bv;
use pvcore::evalref::{baa_to_bv, bv_to_baa};
use pvcore::run::*;
use serde_json::json;
use std::collections::BTreeMap;

struct Mem {
    ctx: Context,
    sys: TransitionSystem,
    we: ExprRef,
    waddr: ExprRef,
    wdata: ExprRef,
    raddr: ExprRef,
    rd: ExprRef,
    mem: ExprRef,
    last: ExprRef,
    iw: u32,
    dw: u32,
    init_fill: Option<u64>,
}

fn build(iw: u32, dw: u32, init_fill: Option<u64>) -> Mem {
    let mut ctx = Context::default();
    let mut sys = TransitionSystem::new(format!("bigmem{iw}x{dw}"));
    let we = ctx.bv_symbol("we", 1);
    let waddr = ctx.bv_symbol("waddr", iw);
    let wdata = ctx.bv_symbol("wdata", dw);
    let raddr = ctx.bv_symbol("raddr", iw);
    for i in [we, waddr, wdata, raddr] {
        sys.add_input(&ctx, i);
    }
    let mem = ctx.array_symbol("mem", iw, dw);
    let last = ctx.bv_symbol("last", dw);
    let st = ctx.array_store(mem, waddr, wdata);
    let nx = ctx.ite(we, st, mem);
    let rd = ctx.array_read(mem, raddr);
    let init = init_fill.map(|f| {
        let v = ctx.bit_vec_val(f, dw);
        ctx.array_const(v, iw)
    });
    sys.add_state(&ctx, State { symbol: mem, init, next: Some(nx) });
    let z = ctx.zero(dw);
    sys.add_state(&ctx, State { symbol: last, init: Some(z), next: Some(rd) });
    sys.add_output(&mut ctx, "rd".into(), rd);
    Mem { ctx, sys, we, waddr, wdata, raddr, rd, mem, last, iw, dw, init_fill }
}

#[derive(Clone, Debug)]
enum Op {
    Write(usize, usize),
    Idle,
}

fn run_history(m: &Mem, kind: InitKind, ops: &[Op], addrs: &[Bv], datas: &[Bv]) -> Result<u64, (String, String)> {
    let hist = || format!("bigmem {}->{}{} init({kind:?}) {:?}", m.iw, m.dw, if m.init_fill.is_some() { " with init" } else { "" }, ops);
    let mut reads = 0u64;
    let r = catch(|| -> Result<u64, (String, String)> {
        let mut sim = Interpreter::new(&m.ctx, &m.sys);
        sim.init(kind);
        // type of the memory value itself
        let check_mem_type = |sim: &Interpreter, at: &str| -> Result<(), (String, String)> {
            match sim.get(m.mem) {
                baa::Value::Array(a) => {
                    use baa::ArrayOps;
                    if a.index_width() != m.iw || a.data_width() != m.dw {
                        return Err(("bigmem-array-type".into(), format!("{}: {at} the memory value has type bv<{}> -> bv<{}>", hist(), a.index_width(), a.data_width())));
                    }
                    Ok(())
                }
                baa::Value::BitVec(_) => Err(("bigmem-array-type".into(), format!("{}: {at} the memory state holds a bit-vector value", hist()))),
            }
        };
        check_mem_type(&sim, "after init")?;
        let mut model: BTreeMap<usize, Bv> = BTreeMap::new();
        let mut last = Bv::zero(m.dw);
        let mut cur_raddr = 0usize;
        let read_all = |sim: &mut Interpreter, model: &mut BTreeMap<usize, Bv>, adopt: bool, at: &str, reads: &mut u64, cur_raddr: &mut usize| -> Result<(), (String, String)> {
            for (k, a) in addrs.iter().enumerate() {
                sim.set(m.raddr, &bv_to_baa(a));
                *cur_raddr = k;
                let v = sim.get(m.rd);
                *reads += 1;
                let b = match v {
                    baa::Value::BitVec(b) => baa_to_bv(&b),
                    baa::Value::Array(_) => return Err(("bigmem-read-type".into(), format!("{}: {at} a read returns an array value", hist()))),
                };
                if b.w != m.dw {
                    return Err(("bigmem-read-type".into(), format!("{}: {at} a read of address {} returns a {}-bit value, elements are {} bits wide", hist(), a.show(), b.w, m.dw)));
                }
                match model.get(&k) {
                    Some(want) if *want != b => return Err(("bigmem-value".into(), format!("{}: {at} address {} reads {} instead of {}", hist(), a.show(), b.show(), want.show()))),
                    Some(_) => {}
                    None => {
                        if adopt {
                            model.insert(k, b);
                        } else {
                            return Err(("bigmem-value".into(), format!("{}: {at} no expectation for address {}", hist(), a.show())));
                        }
                    }
                }
            }
            Ok(())
        };
        // initial contents: the init expression when there is one, zero under init(Zero), adopted under Random
        if let Some(f) = m.init_fill {
            for k in 0..addrs.len() {
                model.insert(k, Bv::from_u64(m.dw, f));
            }
        } else if kind == InitKind::Zero {
            for k in 0..addrs.len() {
                model.insert(k, Bv::zero(m.dw));
            }
        }
        read_all(&mut sim, &mut model, true, "after init", &mut reads, &mut cur_raddr)?;
        for (n, op) in ops.iter().enumerate() {
            let at = format!("after operation {}", n + 1);
            // rd is sampled into `last` by the step, from the pre-step memory at the current read address
            let sampled = model[&cur_raddr].clone();
            match op {
                Op::Write(a, d) => {
                    sim.set(m.we, &bv_to_baa(&Bv::from_u64(1, 1)));
                    sim.set(m.waddr, &bv_to_baa(&addrs[*a]));
                    sim.set(m.wdata, &bv_to_baa(&datas[*d]));
                    sim.step();
                    model.insert(*a, datas[*d].clone());
                }
                Op::Idle => {
                    sim.set(m.we, &bv_to_baa(&Bv::from_u64(1, 0)));
                    sim.step();
                }
            }
            last = sampled;
            check_mem_type(&sim, &at)?;
            match sim.get(m.last) {
                baa::Value::BitVec(b) => {
                    let b = baa_to_bv(&b);
                    if b != last {
                        return Err(("bigmem-value".into(), format!("{}: {at} register `last` holds {} instead of the value read before the step, {}", hist(), b.show(), last.show())));
                    }
                }
                _ => return Err(("bigmem-read-type".into(), format!("{}: {at} register `last` holds an array", hist()))),
            }
            read_all(&mut sim, &mut model, false, &at, &mut reads, &mut cur_raddr)?;
        }
        Ok(reads)
    });
    match r {
        Ok(x) => x,
        Err(p) => Err((format!("bigmem-panic|{}", p.file()), format!("{}: panic: {} ({})", hist(), p.msg, p.short_loc()))),
    }
}

pub fn run(rep: &Report, thorough: bool) {
    let depth = if thorough { 4 } else { 3 };
    for (iw, dw) in [(17u32, 8u32), (20, 3), (33, 2), (16, 5)] {
        for init_fill in [None, Some(1u64)] {
            let m = build(iw, dw, init_fill);
            for root in m.sys.states.iter().filter_map(|s| s.next) {
                let _ = root.type_check(&m.ctx);
            }
            let addrs = vec![Bv::zero(iw), Bv::from_u64(iw, 1), Bv::ones(iw)];
            let datas = vec![Bv::from_u64(dw, 1), Bv::ones(dw)];
            let mut alphabet: Vec<Op> = vec![Op::Idle];
            for a in 0..addrs.len() {
                for d in 0..datas.len() {
                    alphabet.push(Op::Write(a, d));
                }
            }
            let mut hists: Vec<Vec<Op>> = vec![vec![]];
            let mut frontier: Vec<Vec<Op>> = vec![vec![]];
            for _ in 0..depth {
                let mut next = vec![];
                for h in frontier.iter() {
                    for o in alphabet.iter() {
                        let mut n = h.clone();
                        n.push(o.clone());
                        next.push(n);
                    }
                }
                hists.extend(next.iter().cloned());
                frontier = next;
            }
            for kind in [InitKind::Zero, InitKind::Random(0), InitKind::Random(1)] {
                // a random initial memory is generated densely (2^iw elements): index widths above 20 are a resource
                // question of the generator (baa refuses them), not part of the alphabet; every history under Random
                // pays for 2^iw elements, so only histories of at most one operation run there
                if kind != InitKind::Zero && iw > 20 {
                    continue;
                }
                for (hi, h) in hists.iter().enumerate() {
                    if kind != InitKind::Zero && h.len() > 1 {
                        continue;
                    }
                    rep.add("bigmem_histories", 1);
                    rep.add("transitions", h.len() as u64);
                    match run_history(&m, kind, h, &addrs, &datas) {
                        Ok(n) => rep.add("bigmem_reads", n),
                        Err((class, what)) => {
                            rep.violation(Violation {
                                sig: format!("C07|{class}|bigmem|idx{}|{}", if iw > 16 { "17+" } else { "<=16" }, match kind { InitKind::Zero => "init-zero", _ => "init-random" }),
                                what,
                                case: json!({"kind": "bigmem"}),
                                order: (1u64 << 56) + hi as u64,
                            });
                            return;
                        }
                    }
                }
            }
        }
    }
}
