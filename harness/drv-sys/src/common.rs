//! Helpers shared by the C07 / C11 / C17 drivers: system families, renaming, observables.

use patronus::expr::{Context, ExprRef};
use patronus::system::TransitionSystem;
use pvcore::bv::Bv;
use pvcore::evalref::nodes_of;
use pvcore::run::*;
use pvcore::sysgen::*;
use pvcore::terms::*;
use rustc_hash::FxHashSet;

pub const SKELETONS: [&str; 7] = ["K1", "K2", "K3", "K4", "K5", "K6", "K7"];

pub fn tier_of(opts: &Opts) -> Tier {
    match opts.mode {
        Mode::Run(t) => t,
        _ => unreachable!(),
    }
}

fn s(n: &str, w: u32) -> T {
    T::sym(n, Ty::Bv(w))
}
fn l(w: u32, v: u64) -> T {
    T::lit(w, v)
}

/// a skeleton whose pools are cut to their first `n` (hand-ranked) elements
pub fn restricted(k: &Skeleton, n: usize) -> Skeleton {
    let mut k = k.clone();
    for (_, p) in k.slots.iter_mut() {
        p.truncate(n);
    }
    k
}

/// Hand-built shapes modelled after /repo/inputs/unittest/{swap,delay}.btor and the `count2`
/// design of /repo/patronus/tests/interpreter.rs, plus a delay line fed by an 8-bit input
/// (3-value `set` alphabet) and a variant of K3 with an array *input*. `w` = register width
/// (8 in the originals; the exhaustive-valuation checks use 2).
pub fn hand_systems(w: u32) -> Vec<SysSpec> {
    let mut v = vec![];
    let ones = (1u64 << w) - 1;
    // swap: a' = b, b' = a, a0 = 0, b0 = 1
    v.push(SysSpec {
        name: "swap".into(),
        inputs: vec![],
        states: vec![
            StateSpec { name: "a".into(), ty: Ty::Bv(w), init: Some(l(w, 0)), next: Some(s("b", w)) },
            StateSpec { name: "b".into(), ty: Ty::Bv(w), init: Some(l(w, 1)), next: Some(s("a", w)) },
        ],
        outputs: vec![],
        bads: vec![],
        constraints: vec![],
    });
    // delay: reg0' = 1, reg1' = reg0, both start at 0
    v.push(SysSpec {
        name: "delay".into(),
        inputs: vec![],
        states: vec![
            StateSpec { name: "reg0".into(), ty: Ty::Bv(w), init: Some(l(w, 0)), next: Some(l(w, 1)) },
            StateSpec { name: "reg1".into(), ty: Ty::Bv(w), init: Some(l(w, 0)), next: Some(s("reg0", w)) },
        ],
        outputs: vec![],
        bads: vec![],
        constraints: vec![],
    });
    // count2: 3-bit counter, bad when all ones
    v.push(SysSpec {
        name: "count2".into(),
        inputs: vec![],
        states: vec![StateSpec {
            name: "cnt".into(),
            ty: Ty::Bv(3),
            init: Some(l(3, 0)),
            next: Some(T::bin(Bin::Add, s("cnt", 3), l(3, 1))),
        }],
        outputs: vec![],
        bads: vec![T::bin(Bin::Eq, s("cnt", 3), l(3, 7))],
        constraints: vec![],
    });
    // delayin: a delay line with an 8-bit data input, the second register swaps with the first
    // when the input's low bit is set (simultaneous update + wide `set`)
    v.push(SysSpec {
        name: "delayin".into(),
        inputs: vec![("d".into(), Ty::Bv(w))],
        states: vec![
            StateSpec { name: "r0".into(), ty: Ty::Bv(w), init: Some(l(w, 0)), next: Some(T::ite(T::Slice(0, 0, Box::new(s("d", w))), s("r1", w), s("d", w))) },
            StateSpec { name: "r1".into(), ty: Ty::Bv(w), init: Some(T::bin(Bin::Add, s("r0", w), l(w, ones))), next: Some(s("r0", w)) },
        ],
        outputs: vec![("sum".into(), T::bin(Bin::Add, s("r0", w), s("r1", w)))],
        bads: vec![T::bin(Bin::Eq, s("r1", w), s("d", w))],
        constraints: vec![],
    });
    // shadow memories: several ARRAY states that read each other (simultaneous update of arrays),
    // in both declaration orders, with a bit-vector state that reads the shadow
    for reversed in [false, true] {
        let mem = || T::sym("mem1_2", Ty::Arr(1, 2));
        let sh = || T::sym("sh1_2", Ty::Arr(1, 2));
        let old = || T::sym("old1_2", Ty::Arr(1, 2));
        let zero = || T::AConst(1, Box::new(l(2, 0)));
        let mut states = vec![
            StateSpec { name: "mem1_2".into(), ty: Ty::Arr(1, 2), init: Some(zero()), next: Some(T::Store(Box::new(mem()), Box::new(s("ad", 1)), Box::new(s("da", 2)))) },
            StateSpec { name: "sh1_2".into(), ty: Ty::Arr(1, 2), init: Some(zero()), next: Some(mem()) },
            StateSpec { name: "old1_2".into(), ty: Ty::Arr(1, 2), init: Some(zero()), next: Some(sh()) },
            StateSpec { name: "seen".into(), ty: Ty::Bv(2), init: Some(l(2, 0)), next: Some(T::Read(Box::new(sh()), Box::new(s("ad", 1)))) },
        ];
        if reversed {
            states.reverse();
        }
        v.push(SysSpec {
            name: if reversed { "shadowmem-rev".into() } else { "shadowmem".into() },
            inputs: vec![("ad".into(), Ty::Bv(1)), ("da".into(), Ty::Bv(2))],
            states,
            outputs: vec![("o".into(), T::Read(Box::new(old()), Box::new(l(1, 1))))],
            bads: vec![T::bin(Bin::Eq, sh(), old())],
            constraints: vec![],
        });
    }
    // bypass reads: a read at a CONSTANT address of a store chain whose writes have symbolic addresses (and
    // data), reachable through nothing else; and a read at a symbolic address of a chain with constant ones
    {
        let mem = || T::sym("mem1_2", Ty::Arr(1, 2));
        let st = |a: T, i: T, d: T| T::Store(Box::new(a), Box::new(i), Box::new(d));
        let rd = |a: T, i: T| T::Read(Box::new(a), Box::new(i));
        let chain = || st(st(mem(), s("wa", 1), s("wd", 2)), l(1, 0), s("xd", 2));
        v.push(SysSpec {
            name: "bypass".into(),
            inputs: vec![("wa".into(), Ty::Bv(1)), ("wd".into(), Ty::Bv(2)), ("xd".into(), Ty::Bv(2)), ("ra".into(), Ty::Bv(1))],
            states: vec![
                StateSpec { name: "mem1_2".into(), ty: Ty::Arr(1, 2), init: Some(T::AConst(1, Box::new(l(2, 0)))), next: Some(mem()) },
                StateSpec { name: "q".into(), ty: Ty::Bv(2), init: Some(l(2, 0)), next: Some(rd(st(mem(), s("wa", 1), s("wd", 2)), l(1, 1))) },
            ],
            outputs: vec![("o1".into(), rd(chain(), l(1, 1))), ("o2".into(), rd(st(st(mem(), l(1, 0), s("xd", 2)), l(1, 1), s("wd", 2)), s("ra", 1)))],
            bads: vec![T::bin(Bin::Eq, rd(st(mem(), s("wa", 1), s("wd", 2)), l(1, 0)), l(2, 3))],
            constraints: vec![],
        });
    }
    v
}

/// K3 with an array input that can be loaded into the memory (array-typed input symbol)
pub fn array_input_system() -> SysSpec {
    let m = || T::sym("m1_2", Ty::Arr(1, 2));
    let n = || T::sym("n1_2", Ty::Arr(1, 2));
    let w = || s("b1", 1);
    SysSpec {
        name: "KA".into(),
        inputs: vec![("b1".into(), Ty::Bv(1)), ("n1_2".into(), Ty::Arr(1, 2))],
        states: vec![
            StateSpec { name: "m1_2".into(), ty: Ty::Arr(1, 2), init: Some(T::AConst(1, Box::new(l(2, 0)))), next: Some(T::ite(w(), n(), T::Store(Box::new(m()), Box::new(l(1, 1)), Box::new(l(2, 3))))) },
            StateSpec { name: "a1".into(), ty: Ty::Bv(1), init: Some(l(1, 0)), next: Some(T::bin(Bin::Eq, m(), n())) },
        ],
        outputs: vec![("rd".into(), T::Read(Box::new(n()), Box::new(s("a1", 1))))],
        bads: vec![T::bin(Bin::Eq, T::Read(Box::new(m()), Box::new(l(1, 1))), l(2, 3))],
        constraints: vec![],
    }
}

/// Every two-operator term (T2: every operator over every one-operator term and leaves, plus the two-child
/// nestings, arrays included) of a small universe as the root of a system of its own: output, next function of
/// a state of its type and, when it is one bit wide, bad state. The sweeps only ever put one-operator terms
/// into a slot; a pass that rebuilds parents from rewritten children meets grand-children only here.
pub fn t2_root_systems(universes: &[Vec<u32>], arrays: &[(u32, u32)]) -> Vec<SysSpec> {
    let mut out = vec![];
    let mut seen = std::collections::HashSet::new();
    for u in universes {
        let mut cfg = Cfg::new(u);
        cfg.lits = Lits::Reduced;
        cfg.ext_by = vec![1];
        cfg.divrem = true;
        cfg.arrays = arrays.to_vec();
        let mut terms: Vec<T> = vec![];
        for x in t1(&cfg) {
            terms.extend(wrap_all(&x, &cfg));
        }
        terms.extend(t2_pairs(&cfg));
        for t in terms {
            if !seen.insert(t.to_string()) {
                continue;
            }
            let ty = t.ty();
            let w1 = ty == Ty::Bv(1);
            out.push(SysSpec {
                name: "T2root".into(),
                inputs: t.symbols(),
                states: vec![StateSpec { name: "r_state".into(), ty, init: None, next: Some(t.clone()) }],
                outputs: if matches!(ty, Ty::Bv(_)) { vec![("o".into(), t.clone())] } else { vec![] },
                bads: if w1 { vec![t.clone()] } else { vec![] },
                constraints: vec![],
            });
        }
    }
    out
}

pub fn spec_key(sp: &SysSpec) -> String {
    let mut v = sp.to_json();
    v["name"] = serde_json::Value::Null;
    v.to_string()
}

/// quick: S1 (full pools) + S3(3) of every skeleton; thorough: S1 + S3(4) + S2(32) + S3(5) of
/// the six-slot skeletons K1/K3/K4/K7; plus the
/// hand-built shapes (2-bit registers) and the array-input system. Structurally identical specs
/// are listed once (first occurrence wins, order = hand-built, S1 per skeleton, S3, S2).
pub fn system_family(tier: Tier, divrem: bool) -> Vec<SysSpec> {
    use rayon::prelude::*;
    let mut jobs: Vec<(&str, u8)> = vec![];
    for name in SKELETONS {
        jobs.push((name, 1));
    }
    for name in SKELETONS {
        jobs.push((name, 3));
    }
    if tier.is_thorough() {
        for name in SKELETONS {
            jobs.push((name, 2));
        }
        for name in ["K1", "K3", "K4", "K7"] {
            jobs.push((name, 5));
        }
    }
    let lists: Vec<Vec<(SysSpec, String)>> = jobs
        .par_iter()
        .map(|(name, sweep)| {
            let k = skeleton_generated(name, divrem);
            let v = match sweep {
                1 => k.s1(),
                3 => k.s3(if tier.is_thorough() { 4 } else { 3 }),
                5 => k.s3(5),
                _ => k.s2(32),
            };
            v.into_par_iter().map(|sp| { let key = spec_key(&sp); (sp, key) }).collect()
        })
        .collect();
    let mut out: Vec<SysSpec> = vec![];
    let mut seen: FxHashSet<String> = FxHashSet::default();
    for sp in hand_systems(2).into_iter().chain(std::iter::once(array_input_system())) {
        if seen.insert(spec_key(&sp)) {
            out.push(sp);
        }
    }
    let n_hand = out.len();
    for (sp, key) in lists.into_iter().flatten() {
        if seen.insert(key) {
            out.push(sp);
        }
    }
    out.extend(unnamed_variants(&out, n_hand, 7));
    let offs = offset_variants(&out, n_hand, 9);
    let revs = revsyms_variants(&out, n_hand, 5);
    out.extend(offs);
    out.extend(revs);
    out
}

/// copies whose symbols have no entry in the system's name table (see SysSpec::build): every hand-built system
/// and every `stride`-th of the others
pub fn unnamed_variants(specs: &[SysSpec], n_first: usize, stride: usize) -> Vec<SysSpec> {
    specs
        .iter()
        .enumerate()
        .filter(|(i, sp)| (*i < n_first || i % stride == 3) && !sp.name.contains("labelled"))
        .map(|(_, sp)| {
            let mut c = sp.clone();
            c.name = format!("{}-unnamed", sp.name);
            c
        })
        .collect()
}

/// skeleton (or hand-built shape) a spec was derived from: "K3", "hand:swap"
pub fn skeleton_of(sp: &SysSpec) -> String {
    let base_name: String = sp.name.split('-').next().unwrap_or("").to_string();
    if SKELETONS.contains(&base_name.as_str()) { base_name } else { format!("hand:{base_name}") }
}

/// which slots of the skeleton's default system this spec deviates in ("K3/bad0+next1")
pub fn sys_class(sp: &SysSpec) -> String {
    let base_name: String = sp.name.split('-').next().unwrap_or("").to_string();
    if !SKELETONS.contains(&base_name.as_str()) {
        return format!("hand:{}", base_name);
    }
    let base = skeleton(&base_name).base;
    let mut d = vec![];
    if base.inputs != sp.inputs || base.states.len() != sp.states.len() {
        return format!("{base_name}/renamed");
    }
    for (i, (a, b)) in base.states.iter().zip(sp.states.iter()).enumerate() {
        if a.name != b.name {
            return format!("{base_name}/renamed");
        }
        if a.init != b.init {
            d.push(format!("init{i}"));
        }
        if a.next != b.next {
            d.push(format!("next{i}"));
        }
    }
    // roots that are present and differ from the default's (absent roots do not count: a
    // minimised system has only the roots the failure needs)
    for i in 0..sp.bads.len() {
        if base.bads.get(i) != Some(&sp.bads[i]) {
            d.push(format!("bad{i}"));
        }
    }
    for i in 0..sp.constraints.len() {
        if base.constraints.get(i) != Some(&sp.constraints[i]) {
            d.push(format!("constraint{i}"));
        }
    }
    for i in 0..sp.outputs.len() {
        if base.outputs.get(i) != Some(&sp.outputs[i]) {
            d.push(format!("output{i}"));
        }
    }
    if d.is_empty() {
        format!("{base_name}/default")
    } else if d.len() > 2 {
        format!("{base_name}/{}slots", d.len())
    } else {
        format!("{base_name}/{}", d.join("+"))
    }
}

pub fn rename_t(t: &T, from: &str, to: &str) -> T {
    let r = |x: &T| Box::new(rename_t(x, from, to));
    match t {
        T::Sym(n, ty) => {
            if n == from {
                T::Sym(to.to_string(), *ty)
            } else {
                t.clone()
            }
        }
        T::Lit(_) => t.clone(),
        T::Not(a) => T::Not(r(a)),
        T::Neg(a) => T::Neg(r(a)),
        T::ZExt(by, a) => T::ZExt(*by, r(a)),
        T::SExt(by, a) => T::SExt(*by, r(a)),
        T::Slice(h, lo, a) => T::Slice(*h, *lo, r(a)),
        T::Bin(op, a, b) => T::Bin(*op, r(a), r(b)),
        T::Ite(c, a, b) => T::Ite(r(c), r(a), r(b)),
        T::Read(a, i) => T::Read(r(a), r(i)),
        T::AConst(iw, a) => T::AConst(*iw, r(a)),
        T::Store(a, i, d) => T::Store(r(a), r(i), r(d)),
    }
}

pub fn rename_spec(sp: &SysSpec, from: &str, to: &str) -> SysSpec {
    let mut o = sp.clone();
    for (n, _) in o.inputs.iter_mut() {
        if n == from {
            *n = to.to_string();
        }
    }
    for st in o.states.iter_mut() {
        if st.name == from {
            st.name = to.to_string();
        }
        st.init = st.init.as_ref().map(|t| rename_t(t, from, to));
        st.next = st.next.as_ref().map(|t| rename_t(t, from, to));
    }
    for (_, t) in o.outputs.iter_mut() {
        *t = rename_t(t, from, to);
    }
    for t in o.bads.iter_mut() {
        *t = rename_t(t, from, to);
    }
    for t in o.constraints.iter_mut() {
        *t = rename_t(t, from, to);
    }
    o
}

#[derive(Clone, Debug)]
pub struct Obs {
    /// state | input | output | bad | constraint | next | init | inner
    pub kind: &'static str,
    pub index: usize,
    pub e: ExprRef,
}

/// every expression of the system with the role it plays; with `inner` also every other
/// sub-expression node. Each ExprRef is listed once (first role wins).
pub fn observables(ctx: &Context, sys: &TransitionSystem, inner: bool) -> Vec<Obs> {
    let mut out: Vec<Obs> = vec![];
    let mut seen: FxHashSet<ExprRef> = FxHashSet::default();
    let mut push = |kind: &'static str, index: usize, e: ExprRef, out: &mut Vec<Obs>| {
        if seen.insert(e) {
            out.push(Obs { kind, index, e });
        }
    };
    for (i, st) in sys.states.iter().enumerate() {
        push("state", i, st.symbol, &mut out);
    }
    for (i, e) in sys.inputs.iter().enumerate() {
        push("input", i, *e, &mut out);
    }
    for (i, o) in sys.outputs.iter().enumerate() {
        push("output", i, o.expr, &mut out);
    }
    for (i, e) in sys.bad_states.iter().enumerate() {
        push("bad", i, *e, &mut out);
    }
    for (i, e) in sys.constraints.iter().enumerate() {
        push("constraint", i, *e, &mut out);
    }
    for (i, st) in sys.states.iter().enumerate() {
        if let Some(n) = st.next {
            push("next", i, n, &mut out);
        }
    }
    for (i, st) in sys.states.iter().enumerate() {
        if let Some(n) = st.init {
            push("init", i, n, &mut out);
        }
    }
    if inner {
        let roots: Vec<ExprRef> = out.iter().map(|o| o.e).collect();
        for (i, e) in nodes_of(ctx, &roots).into_iter().enumerate() {
            push("inner", i, e, &mut out);
        }
    }
    out
}

/// all expressions a system owns (roots only)
pub fn root_exprs(sys: &TransitionSystem) -> Vec<ExprRef> {
    let mut v = vec![];
    for st in sys.states.iter() {
        v.push(st.symbol);
        v.extend(st.init);
        v.extend(st.next);
    }
    v.extend(sys.inputs.iter().cloned());
    v.extend(sys.outputs.iter().map(|o| o.expr));
    v.extend(sys.bad_states.iter().cloned());
    v.extend(sys.constraints.iter().cloned());
    v
}

pub fn expr_op_name(ctx: &Context, e: ExprRef) -> &'static str {
    use patronus::expr::Expr::*;
    match &ctx[e] {
        BVSymbol { .. } => "sym",
        BVLiteral(_) => "lit",
        BVZeroExt { .. } => "zext",
        BVSignExt { .. } => "sext",
        BVSlice { .. } => "slice",
        BVNot(..) => "not",
        BVNegate(..) => "neg",
        BVEqual(..) => "eq",
        BVImplies(..) => "implies",
        BVGreater(..) => "ugt",
        BVGreaterSigned(..) => "sgt",
        BVGreaterEqual(..) => "uge",
        BVGreaterEqualSigned(..) => "sge",
        BVConcat(..) => "concat",
        BVAnd(..) => "and",
        BVOr(..) => "or",
        BVXor(..) => "xor",
        BVShiftLeft(..) => "shl",
        BVArithmeticShiftRight(..) => "ashr",
        BVShiftRight(..) => "lshr",
        BVAdd(..) => "add",
        BVMul(..) => "mul",
        BVSignedDiv(..) => "sdiv",
        BVUnsignedDiv(..) => "udiv",
        BVSignedMod(..) => "smod",
        BVSignedRem(..) => "srem",
        BVUnsignedRem(..) => "urem",
        BVSub(..) => "sub",
        BVArrayRead { .. } => "read",
        BVIte { .. } => "ite",
        ArraySymbol { .. } => "asym",
        ArrayConstant { .. } => "aconst",
        ArrayEqual(..) => "aeq",
        ArrayStore { .. } => "store",
        ArrayIte { .. } => "aite",
    }
}

pub fn show_expr(ctx: &Context, e: ExprRef) -> String {
    use patronus::expr::SerializableIrNode;
    e.serialize_to_str(ctx)
}

pub fn ty_of(ctx: &Context, e: ExprRef) -> Ty {
    use patronus::expr::TypeCheck;
    Ty::from_patronus(e.get_type(ctx))
}

pub fn ty_width(t: Ty) -> u32 {
    match t {
        Ty::Bv(w) => w,
        Ty::Arr(_, d) => d,
    }
}

#[allow(dead_code)]
fn _keep(_: Bv) {}

// ------------------------------------------------------------------ shrinking of system specs

fn with_kid(t: &T, i: usize, new: T) -> T {
    let b = Box::new(new);
    match t {
        T::Sym(..) | T::Lit(..) => t.clone(),
        T::Not(_) => T::Not(b),
        T::Neg(_) => T::Neg(b),
        T::ZExt(by, _) => T::ZExt(*by, b),
        T::SExt(by, _) => T::SExt(*by, b),
        T::Slice(h, l, _) => T::Slice(*h, *l, b),
        T::AConst(iw, _) => T::AConst(*iw, b),
        T::Bin(op, x, y) => {
            if i == 0 {
                T::Bin(*op, b, y.clone())
            } else {
                T::Bin(*op, x.clone(), b)
            }
        }
        T::Read(x, y) => {
            if i == 0 {
                T::Read(b, y.clone())
            } else {
                T::Read(x.clone(), b)
            }
        }
        T::Ite(c, x, y) => match i {
            0 => T::Ite(b, x.clone(), y.clone()),
            1 => T::Ite(c.clone(), b, y.clone()),
            _ => T::Ite(c.clone(), x.clone(), b),
        },
        T::Store(c, x, y) => match i {
            0 => T::Store(b, x.clone(), y.clone()),
            1 => T::Store(c.clone(), b, y.clone()),
            _ => T::Store(c.clone(), x.clone(), b),
        },
    }
}

/// all terms obtained by replacing one sub-term (any depth) by one of its kids of the same type,
/// or by the zero literal of its type (bit-vectors only); declared symbols only, so that the
/// system stays well-formed
pub fn term_shrinks(t: &T) -> Vec<T> {
    let mut out = vec![];
    for k in t.kids() {
        if k.ty() == t.ty() {
            out.push(k.clone());
        }
    }
    if let Ty::Bv(w) = t.ty()
        && !t.is_leaf()
    {
        out.push(T::lit(w, 0));
    }
    for (i, k) in t.kids().iter().enumerate() {
        for c in term_shrinks(k) {
            out.push(with_kid(t, i, c));
        }
    }
    out
}

fn spec_shrinks(sp: &SysSpec) -> Vec<SysSpec> {
    let mut out = vec![];
    for i in (0..sp.bads.len()).rev() {
        let mut c = sp.clone();
        c.bads.remove(i);
        out.push(c);
    }
    for i in (0..sp.constraints.len()).rev() {
        let mut c = sp.clone();
        c.constraints.remove(i);
        out.push(c);
    }
    for i in (0..sp.outputs.len()).rev() {
        let mut c = sp.clone();
        c.outputs.remove(i);
        out.push(c);
    }
    for i in 0..sp.states.len() {
        if sp.states[i].next.is_some() {
            let mut c = sp.clone();
            c.states[i].next = None;
            out.push(c);
        }
        if sp.states[i].init.is_some() {
            let mut c = sp.clone();
            c.states[i].init = None;
            out.push(c);
        }
    }
    // unreferenced states / inputs
    let used: Vec<String> = sp.all_terms().iter().flat_map(|t| t.symbols()).map(|(n, _)| n).collect();
    for i in (0..sp.states.len()).rev() {
        if !used.contains(&sp.states[i].name) && sp.states[i].init.is_none() && sp.states[i].next.is_none() {
            let mut c = sp.clone();
            c.states.remove(i);
            out.push(c);
        }
    }
    for i in (0..sp.inputs.len()).rev() {
        if !used.contains(&sp.inputs[i].0) {
            let mut c = sp.clone();
            c.inputs.remove(i);
            out.push(c);
        }
    }
    // smaller terms
    for i in 0..sp.states.len() {
        if let Some(t) = &sp.states[i].init {
            for s in term_shrinks(t) {
                let mut c = sp.clone();
                c.states[i].init = Some(s);
                out.push(c);
            }
        }
        if let Some(t) = &sp.states[i].next {
            for s in term_shrinks(t) {
                let mut c = sp.clone();
                c.states[i].next = Some(s);
                out.push(c);
            }
        }
    }
    for i in 0..sp.bads.len() {
        for s in term_shrinks(&sp.bads[i]) {
            let mut c = sp.clone();
            c.bads[i] = s;
            out.push(c);
        }
    }
    for i in 0..sp.constraints.len() {
        for s in term_shrinks(&sp.constraints[i]) {
            let mut c = sp.clone();
            c.constraints[i] = s;
            out.push(c);
        }
    }
    for i in 0..sp.outputs.len() {
        for s in term_shrinks(&sp.outputs[i].1) {
            let mut c = sp.clone();
            c.outputs[i].1 = s;
            out.push(c);
        }
    }
    out
}

fn spec_size(sp: &SysSpec) -> usize {
    sp.all_terms().iter().map(|t| t.size() + 1).sum::<usize>() + sp.states.len() + sp.inputs.len()
}

/// greedy minimisation of a failing system specification
pub fn shrink_spec(sp: &SysSpec, fails: &dyn Fn(&SysSpec) -> bool) -> SysSpec {
    let mut cur = sp.clone();
    for _ in 0..200 {
        let size = spec_size(&cur);
        match spec_shrinks(&cur).into_iter().find(|c| spec_size(c) < size && fails(c)) {
            Some(c) => cur = c,
            None => break,
        }
    }
    cur
}

/// Collects, per pre-signature, the failing case with the smallest enumeration order; the
/// (expensive) minimisation runs afterwards on exactly those cases, so the reported cases do not
/// depend on thread timing.
pub struct Collector<C>(std::sync::Mutex<std::collections::BTreeMap<String, (u64, C)>>);

impl<C> Default for Collector<C> {
    fn default() -> Self {
        Collector(std::sync::Mutex::new(std::collections::BTreeMap::new()))
    }
}

impl<C> Collector<C> {
    pub fn offer(&self, presig: &str, order: u64, make: impl FnOnce() -> C) {
        let mut g = self.0.lock().unwrap();
        match g.get(presig) {
            Some((o, _)) if *o <= order => {}
            _ => {
                g.insert(presig.to_string(), (order, make()));
            }
        }
    }
    pub fn drain(self) -> Vec<(u64, C)> {
        self.0.into_inner().unwrap().into_values().collect()
    }
}
